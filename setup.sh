#!/bin/sh
# Run once after a fresh restore (offline): warm the Kani / MIR / witness build directories under /verif/.build.
# Every check rebuilds whatever /repo's working tree changed; this only saves the cold-build time.
set -u
cd "$(dirname "$0")"
export CARGO_NET_OFFLINE=true
mkdir -p .build/logs
python3-vt -m vf.setup_warm
exit 0
