#!/bin/sh
# stop every running check (driver loops, cargo kani, cbmc); safe to call from an interactive shell
me=$$
for p in $(pgrep -f 'runall\.sh|python3-vt ./check|cargo-kani|kani-driver' ); do
  [ "$p" != "$me" ] && [ "$p" != "$PPID" ] && kill "$p" 2>/dev/null
done
pkill -9 -x cbmc 2>/dev/null
pkill -9 -x kani-compiler 2>/dev/null
exit 0
