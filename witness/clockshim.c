// LD_PRELOAD shim: replaces the wall clock (CLOCK_REALTIME) by a scripted sequence, so a solver-chosen clock behaviour
// can be replayed against the real database. VERIF_CLOCK_SEQ="n0,n1,n2,..." = nanoseconds since VERIF_CLOCK_BASE_S
// (default 1700000000 s); the last value repeats. Other clocks are passed through.
#define _GNU_SOURCE
#include <dlfcn.h>
#include <stdlib.h>
#include <string.h>
#include <time.h>

static int (*real_clock_gettime)(clockid_t, struct timespec *);
static long long seq[4096];
static int nseq = -1, pos = 0;
static long long base_s = 1700000000LL;

static void init(void) {
    real_clock_gettime = dlsym(RTLD_NEXT, "clock_gettime");
    nseq = 0;
    const char *b = getenv("VERIF_CLOCK_BASE_S");
    if (b) base_s = atoll(b);
    const char *s = getenv("VERIF_CLOCK_SEQ");
    if (!s) return;
    char *copy = strdup(s), *save = NULL;
    for (char *tok = strtok_r(copy, ",", &save); tok && nseq < 4096; tok = strtok_r(NULL, ",", &save)) seq[nseq++] = atoll(tok);
    free(copy);
}

int clock_gettime(clockid_t clk, struct timespec *ts) {
    if (nseq < 0) init();
    if (clk == CLOCK_REALTIME && nseq > 0) {
        long long ns = seq[pos < nseq ? pos : nseq - 1];
        if (pos < nseq) pos++;
        ts->tv_sec = base_s + ns / 1000000000LL;
        ts->tv_nsec = ns % 1000000000LL;
        return 0;
    }
    return real_clock_gettime(clk, ts);
}
