/* LD_PRELOAD shim: scripted failure of fdatasync/fsync, used by the native replays of the C08 findings.
 * fdatasync(-424242 - k) arms the shim: the (k+1)-th following fdatasync/fsync call fails with EIO (once). */
#define _GNU_SOURCE
#include <dlfcn.h>
#include <errno.h>
#include <unistd.h>

static int armed = 0;      /* 0 = off, n > 0 = fail the n-th call from now */
static int (*real_fdatasync)(int) = 0;
static int (*real_fsync)(int) = 0;

static int tick(void) {
    if (armed > 0) {
        armed--;
        if (armed == 0) {
            errno = EIO;
            return 1;
        }
    }
    return 0;
}

int fdatasync(int fd) {
    if (!real_fdatasync) real_fdatasync = dlsym(RTLD_NEXT, "fdatasync");
    if (fd <= -424242) {
        armed = (-424242 - fd) + 1;
        return 0;
    }
    if (tick()) return -1;
    return real_fdatasync(fd);
}

int fsync(int fd) {
    if (!real_fsync) real_fsync = dlsym(RTLD_NEXT, "fsync");
    if (tick()) return -1;
    return real_fsync(fd);
}
