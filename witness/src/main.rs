//! Public-API witnesses: take the values a solver produced and drive the real database with them.
//! Prints one line `WITNESS <name> REPRODUCED|NOT-REPRODUCED <detail>`; exit status 0 either way, 3 on usage errors.
use nervusdb::Db;
use nervusdb::query::{Params, Value, prepare};
use std::io::Write;

type Rows = Vec<Vec<(String, Value)>>;

fn q(db: &Db, cy: &str) -> Result<Rows, String> {
    let p = prepare(cy).map_err(|e| e.to_string())?;
    let snap = db.snapshot();
    let params = Params::new();
    let mut out = Vec::new();
    for r in p.execute_streaming(&snap, &params) {
        let r = r.map_err(|e| e.to_string())?;
        out.push(r.columns().to_vec());
    }
    Ok(out)
}

fn w(db: &Db, cy: &str) -> Result<u32, String> {
    let p = prepare(cy).map_err(|e| e.to_string())?;
    let snap = db.snapshot();
    let mut txn = db.begin_write();
    let (_r, n) = p
        .execute_mixed(&snap, &mut txn, &Params::new())
        .map_err(|e| e.to_string())?;
    txn.commit().map_err(|e| e.to_string())?;
    Ok(n)
}

fn report(name: &str, reproduced: bool, detail: String) {
    println!(
        "WITNESS {} {} {}",
        name,
        if reproduced { "REPRODUCED" } else { "NOT-REPRODUCED" },
        detail
    );
}

fn hex(s: &str) -> Vec<u8> {
    let s: String = s.chars().filter(|c| c.is_ascii_hexdigit()).collect();
    (0..s.len() / 2)
        .map(|i| u8::from_str_radix(&s[2 * i..2 * i + 2], 16).unwrap())
        .collect()
}

/// index-eq <lit_a> <lit_b>: `a = b` in Cypher, both stored under an index; `WHERE n.x = a` with and without index.
fn index_eq(a: &str, b: &str) {
    let d = tempfile::tempdir().unwrap();
    let with = Db::open(d.path().join("with")).unwrap();
    with.create_index("A", "x").unwrap();
    let without = Db::open(d.path().join("without")).unwrap();
    for db in [&with, &without] {
        w(db, &format!("CREATE (:A {{x: {a}}})")).unwrap();
        w(db, &format!("CREATE (:A {{x: {b}}})")).unwrap();
    }
    let qy = format!("MATCH (n:A) WHERE n.x = {a} RETURN count(n) AS c");
    let r1 = q(&with, &qy);
    let r2 = q(&without, &qy);
    report("index-eq", r1 != r2, format!("with index {:?} / without {:?}", r1, r2));
}

/// index-diff <label> <prop> <query> <stmt>...: the statements run against a database with an index on (label, prop) created
/// first and against one without; the query must answer the same on both.
fn index_diff(label: &str, prop: &str, query: &str, stmts: &[String]) {
    let d = tempfile::tempdir().unwrap();
    let with = Db::open(d.path().join("with")).unwrap();
    with.create_index(label, prop).unwrap();
    let without = Db::open(d.path().join("without")).unwrap();
    for db in [&with, &without] {
        for s in stmts {
            w(db, s).unwrap();
        }
    }
    let r1 = q(&with, query);
    let r2 = q(&without, query);
    report("index-diff", r1 != r2, format!("with index {:?} / without {:?}", r1, r2));
}

/// wal-tail <hex>: committed transaction, then these bytes appended to the log, then open.
fn wal_tail(tail: &str) {
    let d = tempfile::tempdir().unwrap();
    let p = d.path().join("g");
    {
        let db = Db::open(&p).unwrap();
        w(&db, "CREATE (:A {x:1})").unwrap();
    }
    let mut f = std::fs::OpenOptions::new()
        .append(true)
        .open(d.path().join("g.wal"))
        .unwrap();
    f.write_all(&hex(tail)).unwrap();
    drop(f);
    match Db::open(&p) {
        Err(e) => report("wal-tail", true, format!("open failed: {e}")),
        Ok(db) => {
            let r = q(&db, "MATCH (n:A) RETURN count(n) AS c");
            let ok = matches!(&r, Ok(rows) if rows.len() == 1 && rows[0][0].1 == Value::Int(1));
            report("wal-tail", !ok, format!("open ok, committed content {:?}", r));
        }
    }
}

/// wal-append-after-tail <hex>: committed tx, garbage tail, reopen, commit again (acknowledged), reopen.
fn wal_append_after_tail(tail: &str) {
    let d = tempfile::tempdir().unwrap();
    let p = d.path().join("g");
    {
        let db = Db::open(&p).unwrap();
        w(&db, "CREATE (:A {x:1})").unwrap();
    }
    let mut f = std::fs::OpenOptions::new()
        .append(true)
        .open(d.path().join("g.wal"))
        .unwrap();
    f.write_all(&hex(tail)).unwrap();
    drop(f);
    match Db::open(&p) {
        Err(e) => return report("wal-append-after-tail", true, format!("first reopen failed: {e}")),
        Ok(db) => {
            if let Err(e) = w(&db, "CREATE (:B {y:2})") {
                return report("wal-append-after-tail", true, format!("commit failed: {e}"));
            }
        }
    }
    match Db::open(&p) {
        Err(e) => report("wal-append-after-tail", true, format!("second reopen failed: {e}")),
        Ok(db) => {
            let r = q(&db, "MATCH (n:B) WHERE n.y = 2 RETURN count(n) AS c");
            let ok = matches!(&r, Ok(rows) if rows.len() == 1 && rows[0][0].1 == Value::Int(1));
            report("wal-append-after-tail", !ok, format!("acknowledged commit after reopen: {:?}", r));
        }
    }
}

/// edge-free-incoming: node-only commit, compact(), then an incoming traversal (C05); and the same through bulkload (C30).
fn edge_free_incoming(bulk: bool) {
    let d = tempfile::tempdir().unwrap();
    let p = d.path().join("g");
    let db = if bulk {
        let nodes = vec![nervusdb::BulkNode {
            external_id: 1,
            label: "A".to_string(),
            properties: Default::default(),
        }];
        nervusdb::bulkload(&p, nodes, Vec::new()).unwrap();
        Db::open(&p).unwrap()
    } else {
        let db = Db::open(&p).unwrap();
        w(&db, "CREATE (:A {x:1})").unwrap();
        db.compact().unwrap();
        db
    };
    let r = std::panic::catch_unwind(std::panic::AssertUnwindSafe(|| {
        q(&db, "MATCH (a)<-[r]-(b) RETURN count(r) AS c")
    }));
    match r {
        Err(_) => report("edge-free-incoming", true, "incoming traversal panicked".into()),
        Ok(rows) => {
            let ok = matches!(&rows, Ok(rs) if rs.len() == 1 && rs[0][0].1 == Value::Int(0));
            report("edge-free-incoming", !ok, format!("{:?}", rows));
        }
    }
}

/// id-collision <c1>: statement A creates c1+1 nodes, statement B creates one more (run under the clock shim).
fn id_collision(c1: &str) {
    let d = tempfile::tempdir().unwrap();
    let db = Db::open(d.path().join("g")).unwrap();
    let a = w(&db, &format!("UNWIND range(0, {c1}) AS i CREATE (:A)"));
    let b = w(&db, "CREATE (:B)");
    let n = q(&db, "MATCH (n) RETURN count(n) AS c");
    let failed = a.is_err() || b.is_err();
    report(
        "id-collision",
        failed,
        format!("statement A => {:?}, statement B => {:?}, nodes => {:?}", a, b, n),
    );
}

/// pv-decode <hex>: PropertyValue::decode on raw bytes (an abort of the process is the reproduction; the caller sees the signal).
fn pv_decode(h: &str) {
    let bytes = hex(h);
    let r = nervusdb_api::PropertyValue::decode(&bytes);
    report("pv-decode", false, format!("returned {:?}", r.map(|_| "Ok").map_err(|e| e.to_string())));
}

/// wal-body <hex>: a committed log followed by one checksummed record with this body, then open (decode_body on untrusted bytes).
fn wal_body(h: &str) {
    let body = hex(h);
    let mut crc = 0xFFFF_FFFFu32;
    for &b in &body {
        crc ^= b as u32;
        for _ in 0..8 {
            crc = if crc & 1 != 0 { (crc >> 1) ^ 0xEDB8_8320 } else { crc >> 1 };
        }
    }
    let crc = !crc;
    let mut tail = Vec::new();
    tail.extend_from_slice(&(body.len() as u32).to_le_bytes());
    tail.extend_from_slice(&crc.to_le_bytes());
    tail.extend_from_slice(&body);
    let d = tempfile::tempdir().unwrap();
    let p = d.path().join("g");
    {
        let db = Db::open(&p).unwrap();
        w(&db, "CREATE (:A {x:1})").unwrap();
    }
    let mut f = std::fs::OpenOptions::new().append(true).open(d.path().join("g.wal")).unwrap();
    f.write_all(&tail).unwrap();
    drop(f);
    let r = std::panic::catch_unwind(|| Db::open(&p).map(|_| ()).map_err(|e| e.to_string()));
    match r {
        Err(_) => report("wal-body", true, "Db::open panicked while decoding the record".into()),
        Ok(x) => report("wal-body", false, format!("open returned {:?}", x)),
    }
}

/// multilabel-reopen <n>: create a node with n labels, compact (checkpoint), close, reopen, compare labels(n).
fn multilabel_reopen(n: &str) {
    let n: usize = n.parse().unwrap_or(2);
    let labels: String = (0..n).map(|i| format!(":L{i}")).collect();
    let d = tempfile::tempdir().unwrap();
    let p = d.path().join("g");
    let before;
    {
        let db = Db::open(&p).unwrap();
        w(&db, &format!("CREATE ({labels} {{x:1}})")).unwrap();
        before = q(&db, "MATCH (n) RETURN size(labels(n)) AS c");
        db.compact().unwrap();
        db.close().unwrap();
    }
    let db = Db::open(&p).unwrap();
    let after = q(&db, "MATCH (n) RETURN size(labels(n)) AS c");
    report("multilabel-reopen", before != after, format!("label count before {:?}, after compact+reopen {:?}", before, after));
}

/// vacuum-after-compaction: one relationship, compact(), close(), vacuum(), reopen and traverse both ways.
fn vacuum_after_compaction() {
    let d = tempfile::tempdir().unwrap();
    let p = d.path().join("g");
    {
        let db = Db::open(&p).unwrap();
        w(&db, "CREATE (:A {x:1})-[:R]->(:B {y:2})").unwrap();
        db.compact().unwrap();
        db.close().unwrap();
    }
    match nervusdb::vacuum(&p) {
        Err(e) => report("vacuum-after-compaction", true, format!("vacuum failed: {e}")),
        Ok(_) => {
            let db = Db::open(&p).unwrap();
            let out = q(&db, "MATCH (a:A)-[r:R]->(b:B) RETURN count(r) AS c");
            let inc = q(&db, "MATCH (b:B)<-[r:R]-(a:A) RETURN count(r) AS c");
            let ok = |r: &Result<Rows, String>| matches!(r, Ok(rs) if rs.len() == 1 && rs[0][0].1 == Value::Int(1));
            report("vacuum-after-compaction", !(ok(&out) && ok(&inc)), format!("outgoing {:?}, incoming {:?}", out, inc));
        }
    }
}

/// dangling <segment|run>: a relationship stored in a compacted segment (or in an older run), then one end node is DETACH
/// DELETEd in a newer transaction; no traversal from the surviving end may still return the relationship.
fn dangling(older: &str) {
    let mut detail = Vec::new();
    let mut bad = false;
    for victim in ["A", "B"] {
        let d = tempfile::tempdir().unwrap();
        let db = Db::open(d.path().join("g")).unwrap();
        w(&db, "CREATE (:A {x:1})-[:R]->(:B {y:2})").unwrap();
        if older == "segment" {
            db.compact().unwrap();
        }
        w(&db, &format!("MATCH (n:{victim}) DETACH DELETE n")).unwrap();
        let qs = if victim == "A" {
            "MATCH (b:B)<-[r]-(x) RETURN count(r) AS c"
        } else {
            "MATCH (a:A)-[r]->(x) RETURN count(r) AS c"
        };
        let r = q(&db, qs);
        let zero = matches!(&r, Ok(rs) if rs.len() == 1 && rs[0][0].1 == Value::Int(0));
        bad |= !zero;
        detail.push(format!("delete {victim}: `{qs}` => {:?}", r));
    }
    report("dangling", bad, detail.join("; "));
}

/// compaction-visible: histories whose newest run holds a relationship together with a tombstone (delete + re-create of the
/// same relationship in one statement; create + delete of an end node in one statement); every read must return the same before
/// and after compact().
fn compaction_visible() {
    let mut detail = Vec::new();
    let mut bad = false;
    let histories: [&[&str]; 3] = [
        &["CREATE (:A {x:1})-[:R]->(:B {y:2})", "MATCH (a:A)-[r:R]->(b:B) DELETE r CREATE (a)-[:R]->(b)"],
        &["CREATE (a:A {x:1})-[:R]->(b:B {y:2}) WITH b DETACH DELETE b"],
        &["CREATE (a:A {x:1})-[:R]->(b:B {y:2}) WITH a DETACH DELETE a"],
    ];
    for h in histories {
        let d = tempfile::tempdir().unwrap();
        let db = Db::open(d.path().join("g")).unwrap();
        for s in h {
            w(&db, s).unwrap();
        }
        let qs = ["MATCH (a:A)-[r]->(x) RETURN count(r) AS c", "MATCH (b:B)<-[r]-(x) RETURN count(r) AS c", "MATCH ()-[r]->() RETURN count(r) AS c"];
        let before: Vec<_> = qs.iter().map(|x| q(&db, x)).collect();
        db.compact().unwrap();
        let after: Vec<_> = qs.iter().map(|x| q(&db, x)).collect();
        if before != after {
            bad = true;
            detail.push(format!("{:?}: before {:?} after {:?}", h, before, after));
        }
    }
    report("compaction-visible", bad, detail.join("; "));
}

unsafe extern "C" {
    fn fdatasync(fd: i32) -> i32;
}

/// commit-fault <index|nodetable> <k>: with witness/faultshim.c preloaded, the (k+1)-th fdatasync/fsync after arming fails once.
/// index: two nodes share an indexed value, `SET n1.p = 2` is committed with the log fsync failing: commit must report the error
/// and the index lookup for the old value must still return both nodes.
/// nodetable: `CREATE (:A:B {x:1})` with a node-table flush failing after the log is durable: the running process must not see
/// the node.
fn commit_fault(kind: &str, k: i32) {
    let d = tempfile::tempdir().unwrap();
    let db = Db::open(d.path().join("g")).unwrap();
    if kind == "index" {
        db.create_index("L", "p").unwrap();
        w(&db, "CREATE (:L {p: 1, name: 'n1'})").unwrap();
        w(&db, "CREATE (:L {p: 1, name: 'n2'})").unwrap();
        let qy = "MATCH (n:L {p: 1}) RETURN count(n) AS c";
        let before = q(&db, qy);
        unsafe { fdatasync(-424242 - k) };
        let r = w(&db, "MATCH (n:L {name: 'n1'}) SET n.p = 2");
        let after = q(&db, qy);
        let scan = q(&db, "MATCH (n:L) WHERE n.p = 1 RETURN count(n) AS c");
        report(
            "commit-fault",
            r.is_err() && before != after,
            format!("commit => {:?}; `{}` before {:?} after {:?}; same count without the inline seek {:?}", r, qy, before, after, scan),
        );
    } else {
        w(&db, "CREATE (:Z {x: 0})").unwrap();
        let qy = "MATCH (n) RETURN count(n) AS c";
        let before = q(&db, qy);
        unsafe { fdatasync(-424242 - k) };
        let r = w(&db, "CREATE (:A:B {x: 1})");
        let after = q(&db, qy);
        let labelled = q(&db, "MATCH (n:A) RETURN count(n) AS c");
        report(
            "commit-fault",
            r.is_err() && before != after,
            format!("commit => {:?}; `{}` before {:?} after {:?}; MATCH (n:A) {:?}", r, qy, before, after, labelled),
        );
    }
}

/// query <cypher>: prints rows (used by several E2 replays that only need one read query on an empty db).
fn query(cy: &str) {
    let d = tempfile::tempdir().unwrap();
    let db = Db::open(d.path().join("g")).unwrap();
    println!("ROWS {:?}", q(&db, cy));
}

fn main() {
    let a: Vec<String> = std::env::args().collect();
    let arg = |i: usize| a.get(i).cloned().unwrap_or_default();
    let r = std::panic::catch_unwind(|| match arg(1).as_str() {
        "index-eq" => index_eq(&arg(2), &arg(3)),
        "index-diff" => index_diff(&arg(2), &arg(3), &arg(4), &std::env::args().skip(5).collect::<Vec<_>>()),
        "wal-tail" => wal_tail(&arg(2)),
        "wal-append-after-tail" => wal_append_after_tail(&arg(2)),
        "edge-free-incoming" => edge_free_incoming(arg(2) == "bulk"),
        "id-collision" => id_collision(&arg(2)),
        "pv-decode" => pv_decode(&arg(2)),
        "wal-body" => wal_body(&arg(2)),
        "multilabel-reopen" => multilabel_reopen(&arg(2)),
        "vacuum-after-compaction" => vacuum_after_compaction(),
        "dangling" => dangling(&arg(2)),
        "commit-fault" => commit_fault(&arg(2), arg(3).parse().unwrap_or(0)),
        "compaction-visible" => compaction_visible(),
        "query" => query(&arg(2)),
        _ => {
            eprintln!("unknown witness");
            std::process::exit(3)
        }
    });
    if r.is_err() {
        println!("WITNESS {} REPRODUCED panic", arg(1));
    }
}
