#[kani::proof]
#[kani::unwind(8)]
fn s4_pv_decode_len5() {
    let bytes: [u8; 5] = kani::any();
    let r = super::PropertyValue::decode(&bytes);
    std::mem::forget(r);
}
#[kani::proof]
#[kani::unwind(8)]
fn s4_pv_decode_len5_list() {
    let mut bytes: [u8; 5] = kani::any();
    bytes[0] = 7;
    let r = super::PropertyValue::decode(&bytes);
    std::mem::forget(r);
}

static mut INPUT_LEN: usize = 0;
fn with_capacity_stub<T>(cap: usize) -> Vec<T> {
    unsafe { assert!(cap <= INPUT_LEN, "allocation request exceeds input length"); }
    Vec::new()
}
#[kani::proof]
#[kani::unwind(8)]
#[kani::stub(std::vec::Vec::with_capacity, with_capacity_stub)]
fn s4_pv_decode_list_alloc_bounded() {
    let mut bytes: [u8; 5] = kani::any();
    bytes[0] = 7;
    unsafe { INPUT_LEN = 5; }
    let r = super::PropertyValue::decode(&bytes);
    std::mem::forget(r);
}

#[kani::proof]
#[kani::unwind(24)]
fn s4b_pv_roundtrip_list2() {
    let v = super::PropertyValue::List(vec![super::PropertyValue::Int(kani::any()), super::PropertyValue::Bool(kani::any())]);
    let b = v.encode();
    let d = super::PropertyValue::decode(&b);
    let ok = match &d { Ok(x) => *x == v, Err(_) => false };
    std::mem::forget((v, b, d));
    assert!(ok);
}
#[kani::proof]
#[kani::unwind(12)]
fn s4b_pv_roundtrip_float_bits() {
    let f: f64 = kani::any();
    let v = super::PropertyValue::Float(f);
    let b = v.encode();
    let d = super::PropertyValue::decode(&b);
    let ok = match &d { Ok(super::PropertyValue::Float(g)) => g.to_bits() == f.to_bits(), _ => false };
    std::mem::forget((v, b, d));
    assert!(ok);
}

macro_rules! dec_tag { ($name:ident, $tag:expr, $n:expr) => {
    #[kani::proof]
    #[kani::unwind(12)]
    fn $name() { let mut b: [u8; $n] = kani::any(); b[0] = $tag; let r = super::PropertyValue::decode(&b); std::mem::forget(r); }
} }
dec_tag!(s4c_dec_tag4_len7, 4, 7);
dec_tag!(s4c_dec_tag8_len10, 8, 10);
dec_tag!(s4c_dec_tag6_len6, 6, 6);
dec_tag!(s4c_dec_tag2_len9, 2, 9);
