#[kani::proof]
#[kani::unwind(8)]
fn s4_pv_decode_len5() {
    let bytes: [u8; 5] = kani::any();
    let r = super::PropertyValue::decode(&bytes);
    std::mem::forget(r);
}
#[kani::proof]
#[kani::unwind(8)]
fn s4_pv_decode_len5_list() {
    let mut bytes: [u8; 5] = kani::any();
    bytes[0] = 7;
    let r = super::PropertyValue::decode(&bytes);
    std::mem::forget(r);
}

static mut INPUT_LEN: usize = 0;
fn with_capacity_stub<T>(cap: usize) -> Vec<T> {
    unsafe { assert!(cap <= INPUT_LEN, "allocation request exceeds input length"); }
    Vec::new()
}
#[kani::proof]
#[kani::unwind(8)]
#[kani::stub(std::vec::Vec::with_capacity, with_capacity_stub)]
fn s4_pv_decode_list_alloc_bounded() {
    let mut bytes: [u8; 5] = kani::any();
    bytes[0] = 7;
    unsafe { INPUT_LEN = 5; }
    let r = super::PropertyValue::decode(&bytes);
    std::mem::forget(r);
}
