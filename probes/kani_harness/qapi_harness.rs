use super::*;
#[kani::proof]
#[kani::unwind(4)]
fn q_check_collection_size_rule() {
    let mut opts = ExecuteOptions::default();
    opts.max_collection_items = kani::any();
    opts.soft_timeout_ms = 0;
    kani::assume(opts.max_collection_items != ExecuteOptions::default().max_collection_items);
    let p = Params::with_execute_options(opts.clone());
    let observed: usize = kani::any();
    let r = p.check_collection_size("Unwind.list", observed);
    let ok = r.is_err() == (observed > opts.max_collection_items);
    std::mem::forget((p, r));
    assert!(ok);
}
