use super::*;

fn small_string<const N: usize>() -> String {
    let a: [u8; N] = kani::any();
    let mut i = 0;
    while i < N { kani::assume(a[i] < 0x80); i += 1; }
    String::from_utf8(a.to_vec()).unwrap()
}
fn check(a: String, b: String) {
    let ea = encode_ordered_value(&PropertyValue::String(a.clone()));
    let eb = encode_ordered_value(&PropertyValue::String(b.clone()));
    let lt = a.as_bytes() < b.as_bytes();
    let eq = a.as_bytes() == b.as_bytes();
    let ok1 = lt == (ea < eb);
    let ok2 = eq == (ea == eb);
    let ok3 = eq || !(ea.starts_with(&eb));
    std::mem::forget((a, b, ea, eb));
    assert!(ok1); assert!(ok2); assert!(ok3);
}
#[kani::proof]
#[kani::unwind(8)]
fn s2_okey_str_2_1() { check(small_string::<2>(), small_string::<1>()); }
#[kani::proof]
#[kani::unwind(8)]
fn s2_okey_str_2_2() { check(small_string::<2>(), small_string::<2>()); }

fn check_bytes<const A: usize, const B: usize>() {
    let a: [u8; A] = kani::any(); let b: [u8; B] = kani::any();
    let mut i = 0; while i < A { kani::assume(a[i] < 0x80); i += 1; }
    let mut i = 0; while i < B { kani::assume(b[i] < 0x80); i += 1; }
    let sa = unsafe { String::from_utf8_unchecked(a.to_vec()) };
    let sb = unsafe { String::from_utf8_unchecked(b.to_vec()) };
    let ea = encode_ordered_value(&PropertyValue::String(sa));
    let eb = encode_ordered_value(&PropertyValue::String(sb));
    let lt = a[..] < b[..]; let eq = a[..] == b[..];
    let ok = (lt == (ea < eb)) && (eq == (ea == eb)) && (eq || !ea.starts_with(&eb));
    std::mem::forget((ea, eb));
    assert!(ok);
}
#[kani::proof]
#[kani::unwind(8)]
fn s2b_okey_str_1_1() { check_bytes::<1, 1>(); }
#[kani::proof]
#[kani::unwind(8)]
fn s2b_okey_str_2_1() { check_bytes::<2, 1>(); }
