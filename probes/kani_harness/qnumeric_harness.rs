use super::*;
#[kani::proof]
fn q_add_int_exact_or_float() {
    let a: i64 = kani::any(); let b: i64 = kani::any();
    let r = numeric_binop(&Value::Int(a), &Value::Int(b), |l, r| l + r, |l, r| l + r);
    let ok = match (&r, a.checked_add(b)) {
        (Value::Int(v), Some(e)) => *v == e,
        (Value::Float(_), None) => true,
        _ => false,
    };
    std::mem::forget(r);
    assert!(ok);
}
#[kani::proof]
fn q_value_as_i64_roundtrip() {
    let f: f64 = kani::any();
    let r = value_as_i64(&Value::Float(f));
    if let Some(i) = r { assert!(i as f64 == f); }
}

#[kani::proof]
fn q_mul_int_exact_or_float() {
    let a: i64 = kani::any(); let b: i64 = kani::any();
    let r = numeric_binop(&Value::Int(a), &Value::Int(b), |l, r| l * r, |l, r| l * r);
    let ok = match (&r, a.checked_mul(b)) {
        (Value::Int(v), Some(e)) => *v == e,
        (Value::Float(_), None) => true,
        _ => false,
    };
    std::mem::forget(r);
    assert!(ok);
}
