use super::*;
#[kani::proof]
#[kani::unwind(3)]
#[kani::stub(std::path::Path::exists, never_exists)]
fn p_pager_open_alloc() {
    let mut pager = Pager::open("p1").unwrap();
    let a = pager.allocate_page().unwrap();
    let b = pager.allocate_page().unwrap();
    let ok = a.as_u64() == 2 && b.as_u64() == 3;
    std::mem::forget(pager);
    assert!(ok);
}
fn never_exists(_p: &std::path::Path) -> bool { false }

#[kani::proof]
#[kani::unwind(70)]
fn c18_o3_bitmap_kernels() {
    let mut bm = Bitmap::new();
    let w: [u8; 8] = kani::any();
    bm.data[0] = w[0] | 3; bm.data[1] = w[1]; bm.data[2] = w[2]; bm.data[3] = w[3];
    let n: u64 = kani::any(); kani::assume(n >= 2 && n <= 32);
    let r = bm.find_free_in_range(2, n);
    match r {
        Some(i) => { assert!(i >= 2 && i < n && !bm.get_bit(i)); }
        None => { let j: u64 = kani::any(); kani::assume(j >= 2 && j < n); assert!(bm.get_bit(j)); }
    }
    let i: u64 = kani::any(); kani::assume(i < 65536);
    let j: u64 = kani::any(); kani::assume(j < 65536 && j != i);
    let before = bm.get_bit(j);
    bm.set_bit(i, true);
    assert!(bm.get_bit(i) && bm.get_bit(j) == before);
}
