use super::*;
#[kani::proof]
#[kani::unwind(3)]
#[kani::stub(std::path::Path::exists, never_exists)]
fn p_pager_open_alloc() {
    let mut pager = Pager::open("p1").unwrap();
    let a = pager.allocate_page().unwrap();
    let b = pager.allocate_page().unwrap();
    let ok = a.as_u64() == 2 && b.as_u64() == 3;
    std::mem::forget(pager);
    assert!(ok);
}
fn never_exists(_p: &std::path::Path) -> bool { false }
