use super::*;
use std::cmp::Ordering;

fn shaped(is_int: bool) -> Value {
    if is_int { Value::Int(kani::any()) } else {
        let f: f64 = kani::any();
        kani::assume(!f.is_nan());
        Value::Float(f)
    }
}
fn trans(a: Value, b: Value, c: Value) {
    let ab = order_compare_non_null(&a, &b).unwrap();
    let bc = order_compare_non_null(&b, &c).unwrap();
    let ac = order_compare_non_null(&a, &c).unwrap();
    std::mem::forget((a, b, c));
    if ab != Ordering::Greater && bc != Ordering::Greater { assert!(ac != Ordering::Greater); }
}
#[kani::proof] fn q_order_trans_iii() { trans(shaped(true), shaped(true), shaped(true)); }
#[kani::proof] fn q_order_trans_ifi() { trans(shaped(true), shaped(false), shaped(true)); }
#[kani::proof] fn q_order_trans_fif() { trans(shaped(false), shaped(true), shaped(false)); }
#[kani::proof] fn q_order_trans_fff() { trans(shaped(false), shaped(false), shaped(false)); }

#[kani::proof]
fn q_lt_ge_complement_if() {
    let a = shaped(true); let b = shaped(false);
    let lt = compare_values(&a, &b, |o| o.is_lt());
    let ge = compare_values(&a, &b, |o| o.is_gt() || o.is_eq());
    let ok = matches!((&lt, &ge), (Value::Bool(true), Value::Bool(false)) | (Value::Bool(false), Value::Bool(true)));
    std::mem::forget((a, b, lt, ge));
    assert!(ok);
}

// ---- C20-O1 extra shapes
fn shaped2(k: u8) -> Value {
    match k {
        0 => Value::Int(kani::any()),
        1 => Value::Float(kani::any()),        // NaN allowed
        2 => Value::Bool(kani::any()),
        3 => Value::DateTime(kani::any()),
        _ => Value::Null,
    }
}
fn laws(a: Value, b: Value, c: Value) {
    let ab = crate::evaluator::order_compare(&a, &b);
    let ba = crate::evaluator::order_compare(&b, &a);
    let bc = crate::evaluator::order_compare(&b, &c);
    let ac = crate::evaluator::order_compare(&a, &c);
    std::mem::forget((a, b, c));
    assert!(ab == ba.reverse());
    if ab != Ordering::Greater && bc != Ordering::Greater { assert!(ac != Ordering::Greater); }
    if ab == Ordering::Equal && bc == Ordering::Equal { assert!(ac == Ordering::Equal); }
}
#[kani::proof] fn q20_laws_f_f_f_nan() { laws(shaped2(1), shaped2(1), shaped2(1)); }
#[kani::proof] fn q20_laws_b_f_n() { laws(shaped2(2), shaped2(1), shaped2(4)); }
#[kani::proof] fn q20_laws_d_i_b() { laws(shaped2(3), shaped2(0), shaped2(2)); }
#[kani::proof] fn q20_laws_i_i_f_small() {
    let a = shaped2(0); let b = shaped2(0); let c = shaped2(1);
    if let (Value::Int(x), Value::Int(y)) = (&a, &b) { kani::assume(x.unsigned_abs() <= (1u64 << 53) && y.unsigned_abs() <= (1u64 << 53)); }
    laws(a, c, b);
}
