use super::*;
use std::cmp::Ordering;

fn shaped(is_int: bool) -> Value {
    if is_int { Value::Int(kani::any()) } else {
        let f: f64 = kani::any();
        kani::assume(!f.is_nan());
        Value::Float(f)
    }
}
fn trans(a: Value, b: Value, c: Value) {
    let ab = order_compare_non_null(&a, &b).unwrap();
    let bc = order_compare_non_null(&b, &c).unwrap();
    let ac = order_compare_non_null(&a, &c).unwrap();
    std::mem::forget((a, b, c));
    if ab != Ordering::Greater && bc != Ordering::Greater { assert!(ac != Ordering::Greater); }
}
#[kani::proof] fn q_order_trans_iii() { trans(shaped(true), shaped(true), shaped(true)); }
#[kani::proof] fn q_order_trans_ifi() { trans(shaped(true), shaped(false), shaped(true)); }
#[kani::proof] fn q_order_trans_fif() { trans(shaped(false), shaped(true), shaped(false)); }
#[kani::proof] fn q_order_trans_fff() { trans(shaped(false), shaped(false), shaped(false)); }

#[kani::proof]
fn q_lt_ge_complement_if() {
    let a = shaped(true); let b = shaped(false);
    let lt = compare_values(&a, &b, |o| o.is_lt());
    let ge = compare_values(&a, &b, |o| o.is_gt() || o.is_eq());
    let ok = matches!((&lt, &ge), (Value::Bool(true), Value::Bool(false)) | (Value::Bool(false), Value::Bool(true)));
    std::mem::forget((a, b, lt, ge));
    assert!(ok);
}
