#[cfg(kani)]
mod h {
    use nervusdb_query::ast::{BinaryExpression, BinaryOperator, Expression, Literal, Direction, AggregateFunction};
    use nervusdb_query::evaluator::{evaluate_expression_value, order_compare};
    use nervusdb_query::executor::{Plan, execute_plan};
    use nervusdb_query::{Params, Row, Value, ExecuteOptions};
    use nervusdb_api::{GraphSnapshot, EdgeKey, InternalNodeId, RelTypeId};
    use std::cmp::Ordering;

    struct Empty;
    impl GraphSnapshot for Empty {
        type Neighbors<'a> = std::iter::Empty<EdgeKey>;
        fn neighbors(&self, _s: InternalNodeId, _r: Option<RelTypeId>) -> Self::Neighbors<'_> { std::iter::empty() }
        fn incoming_neighbors(&self, _s: InternalNodeId, _r: Option<RelTypeId>) -> Self::Neighbors<'_> { std::iter::empty() }
    }

    fn any_num() -> Value {
        if kani::any() { Value::Int(kani::any()) } else {
            let f: f64 = kani::any();
            kani::assume(!f.is_nan());
            Value::Float(f)
        }
    }
    fn lit(v: &Value) -> Expression {
        match v {
            Value::Int(i) => Expression::Literal(Literal::Integer(*i)),
            Value::Float(f) => Expression::Literal(Literal::Float(*f)),
            Value::Bool(b) => Expression::Literal(Literal::Boolean(*b)),
            _ => Expression::Literal(Literal::Null),
        }
    }
    fn bin(op: BinaryOperator, a: &Value, b: &Value) -> Value {
        let e = Expression::Binary(Box::new(BinaryExpression { left: lit(a), operator: op, right: lit(b) }));
        let p = Params::new();
        evaluate_expression_value(&e, &Row::default(), &Empty, &p)
    }

    #[kani::proof]
    #[kani::unwind(4)]
    fn order_transitive_num() {
        let a = any_num(); let b = any_num(); let c = any_num();
        let ab = order_compare(&a, &b);
        let bc = order_compare(&b, &c);
        let ac = order_compare(&a, &c);
        if ab != Ordering::Greater && bc != Ordering::Greater {
            assert!(ac != Ordering::Greater);
        }
        std::mem::forget(a); std::mem::forget(b); std::mem::forget(c);
    }

    #[kani::proof]
    fn order_transitive_num2() {
        let a = any_num(); let b = any_num(); let c = any_num();
        let ab = order_compare(&a, &b);
        let bc = order_compare(&b, &c);
        let ac = order_compare(&a, &c);
        std::mem::forget(a); std::mem::forget(b); std::mem::forget(c);
        if ab != Ordering::Greater && bc != Ordering::Greater {
            assert!(ac != Ordering::Greater);
        }
    }

    fn shaped(is_int: bool) -> Value {
        if is_int { Value::Int(kani::any()) } else {
            let f: f64 = kani::any();
            kani::assume(!f.is_nan());
            Value::Float(f)
        }
    }
    #[kani::proof]
    fn order_transitive_ifi() {
        let a = shaped(true); let b = shaped(false); let c = shaped(true);
        let ab = order_compare(&a, &b);
        let bc = order_compare(&b, &c);
        let ac = order_compare(&a, &c);
        if ab != Ordering::Greater && bc != Ordering::Greater {
            assert!(ac != Ordering::Greater);
        }
    }
    #[kani::proof]
    fn eq_transitive_ifi() {
        let a = shaped(true); let b = shaped(false); let c = shaped(true);
        let ab = bin(BinaryOperator::Equals, &a, &b);
        let bc = bin(BinaryOperator::Equals, &b, &c);
        let ac = bin(BinaryOperator::Equals, &a, &c);
        if ab == Value::Bool(true) && bc == Value::Bool(true) {
            assert!(ac == Value::Bool(true));
        }
    }

    fn bin2(p: &Params, op: BinaryOperator, a: &Value, b: &Value) -> Value {
        let e = Expression::Binary(Box::new(BinaryExpression { left: lit(a), operator: op, right: lit(b) }));
        let row = Row::default();
        let r = evaluate_expression_value(&e, &row, &Empty, p);
        std::mem::forget(e); std::mem::forget(row);
        r
    }
    #[kani::proof]
    fn eq_transitive_ifi2() {
        let p = Params::new();
        let a = shaped(true); let b = shaped(false); let c = shaped(true);
        let ab = bin2(&p, BinaryOperator::Equals, &a, &b);
        let bc = bin2(&p, BinaryOperator::Equals, &b, &c);
        let ac = bin2(&p, BinaryOperator::Equals, &a, &c);
        let ok = !(matches!(ab, Value::Bool(true)) && matches!(bc, Value::Bool(true))) || matches!(ac, Value::Bool(true));
        std::mem::forget((p, a, b, c, ab, bc, ac));
        assert!(ok);
    }
    #[kani::proof]
    fn eq_one_ifi() {
        let p = Params::new();
        let a = shaped(true); let b = shaped(false);
        let ab = bin2(&p, BinaryOperator::Equals, &a, &b);
        let ok = matches!(ab, Value::Bool(_));
        std::mem::forget((p, a, b, ab));
        assert!(ok);
    }

    #[kani::proof]
    #[kani::unwind(4)]
    fn eq_transitive_num() {
        let a = any_num(); let b = any_num(); let c = any_num();
        let ab = bin(BinaryOperator::Equals, &a, &b);
        let bc = bin(BinaryOperator::Equals, &b, &c);
        let ac = bin(BinaryOperator::Equals, &a, &c);
        if ab == Value::Bool(true) && bc == Value::Bool(true) {
            assert!(ac == Value::Bool(true));
        }
    }

    #[kani::proof]
    #[kani::unwind(4)]
    fn lt_ge_complement() {
        let a = any_num(); let b = any_num();
        let lt = bin(BinaryOperator::LessThan, &a, &b);
        let ge = bin(BinaryOperator::GreaterEqual, &a, &b);
        assert!(matches!((lt, ge), (Value::Bool(true), Value::Bool(false)) | (Value::Bool(false), Value::Bool(true))));
    }
}
