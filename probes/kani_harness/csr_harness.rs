use super::*;
#[kani::proof]
#[kani::unwind(4)]
fn s7_csr_incoming_on_edge_free_segment() {
    let seg = CsrSegment { id: SegmentId(1), meta_page_id: 0, min_src: 0, max_src: 0, min_dst: 0, max_dst: 0,
        offsets: vec![0, 0], edges: Vec::new(), in_offsets: Vec::new(), in_edges: Vec::new() };
    let dst: u32 = kani::any();
    let n = seg.incoming_neighbors(dst, None).count();
    std::mem::forget(seg);
    assert!(n == 0);
}
pub(crate) fn make_meta(o: &[u64], e: &[u64], io: &[u64], ie: &[u64]) -> [u8; PAGE_SIZE] {
    let mut out = [0u8; PAGE_SIZE];
    encode_meta(&mut out, SegmentId(1), 0, 0, 0, 0, 2, 1, 2, 1, o, e, io, ie).unwrap();
    out
}
