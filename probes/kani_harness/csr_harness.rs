use super::*;
#[kani::proof]
#[kani::unwind(4)]
fn s7_csr_incoming_on_edge_free_segment() {
    // exactly what build_segment_from_runs returns for an edge-free compaction
    let seg = CsrSegment { id: SegmentId(1), meta_page_id: 0, min_src: 0, max_src: 0, min_dst: 0, max_dst: 0,
        offsets: vec![0, 0], edges: Vec::new(), in_offsets: Vec::new(), in_edges: Vec::new() };
    let dst: u32 = kani::any();
    let n = seg.incoming_neighbors(dst, None).count();
    std::mem::forget(seg);
    assert!(n == 0);
}
