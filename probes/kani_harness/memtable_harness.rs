use super::*;
#[kani::proof]
#[kani::unwind(6)]
fn m_memtable_delete_then_recreate_edge() {
    let s: u32 = kani::any(); let d: u32 = kani::any(); let r: u32 = kani::any();
    kani::assume(s < 4 && d < 4 && r < 2);
    let mut m = MemTable::default();
    m.tombstone_edge(s, r, d);
    m.create_edge(s, r, d);
    let run = m.freeze_into_run(1);
    let n = run.edges_for_src(s).len();
    std::mem::forget(run);
    assert!(n == 1);
}
