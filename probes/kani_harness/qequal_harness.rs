use super::*;
fn shaped(is_int: bool) -> Value {
    if is_int { Value::Int(kani::any()) } else {
        let f: f64 = kani::any();
        kani::assume(!f.is_nan());
        Value::Float(f)
    }
}
#[kani::proof]
fn q_eq_trans_ifi() {
    let a = shaped(true); let b = shaped(false); let c = shaped(true);
    let ab = matches!(cypher_equals(&a, &b), Value::Bool(true));
    let bc = matches!(cypher_equals(&b, &c), Value::Bool(true));
    let ac = matches!(cypher_equals(&a, &c), Value::Bool(true));
    std::mem::forget((a, b, c));
    if ab && bc { assert!(ac); }
}
#[kani::proof]
fn q_eq_symmetric_if() {
    let a = shaped(true); let b = shaped(false);
    let ab = matches!(cypher_equals(&a, &b), Value::Bool(true));
    let ba = matches!(cypher_equals(&b, &a), Value::Bool(true));
    std::mem::forget((a, b));
    assert!(ab == ba);
}
