use super::*;
use crate::kani_fs::FS;

fn crc32_bitwise(bytes: &[u8]) -> u32 {
    let mut crc: u32 = 0xFFFF_FFFF;
    let mut i = 0;
    while i < bytes.len() {
        crc ^= bytes[i] as u32;
        let mut k = 0;
        while k < 8 {
            crc = if crc & 1 != 0 { (crc >> 1) ^ 0xEDB8_8320 } else { crc >> 1 };
            k += 1;
        }
        i += 1;
    }
    !crc
}

#[kani::proof]
#[kani::unwind(20)]
fn s1_wal_rt_createnode() {
    let r = WalRecord::CreateNode { external_id: kani::any(), label_id: kani::any(), internal_id: kani::any() };
    let b = r.encode_body().unwrap();
    let d = WalRecord::decode_body(&b).unwrap();
    let ok = d == r;
    std::mem::forget((b, d, r));
    assert!(ok);
}

#[kani::proof]
#[kani::unwind(22)]
fn s3_wal_decode_ty5_len17() {
    let mut bytes: [u8; 17] = kani::any();
    bytes[0] = 5;
    let r = WalRecord::decode_body(&bytes);
    let ok = r.is_ok();
    std::mem::forget(r);
    assert!(ok);
}

#[kani::proof]
#[kani::unwind(22)]
fn s3_wal_decode_ty15_len11() {
    let mut bytes: [u8; 11] = kani::any();
    bytes[0] = 15;
    let r = WalRecord::decode_body(&bytes);
    std::mem::forget(r);
}

fn reader_on(tail: &[u8]) -> WalReader {
    unsafe {
        let mut i = 0;
        while i < tail.len() { FS.data[0][i] = tail[i]; i += 1; }
        FS.len[0] = tail.len();
    }
    let file = OpenOptions::new().read(true).open("w0").unwrap();
    WalReader { file, offset: 0 }
}

#[kani::proof]
#[kani::unwind(14)]
#[kani::stub(crc32, crc32_bitwise)]
fn s5_wal_reader_tail8() {
    let tail: [u8; 8] = kani::any();
    let lenfield = u32::from_le_bytes([tail[0], tail[1], tail[2], tail[3]]);
    kani::assume(lenfield <= 12 || lenfield > 1024 * 1024);
    let mut rd = reader_on(&tail);
    let r = rd.next_record();
    let ok = r.is_ok();
    std::mem::forget((rd, r));
    assert!(ok);
}

#[kani::proof]
#[kani::unwind(14)]
#[kani::stub(crc32, crc32_bitwise)]
fn s5_wal_reader_tail8_lenle8() {
    let tail: [u8; 8] = kani::any();
    let lenfield = u32::from_le_bytes([tail[0], tail[1], tail[2], tail[3]]);
    kani::assume(lenfield <= 8);
    let mut rd = reader_on(&tail);
    let r = rd.next_record();
    let ok = r.is_ok();
    std::mem::forget((rd, r));
    assert!(ok);
}


// ---- C17 classes
#[kani::proof]
#[kani::unwind(10)]
#[kani::stub(crc32, crc32_bitwise)]
fn t_tail_len_gt_1mb() {
    let tail: [u8; 8] = kani::any();
    let lenfield = u32::from_le_bytes([tail[0], tail[1], tail[2], tail[3]]);
    kani::assume(lenfield > 1024 * 1024);
    let mut rd = reader_on(&tail);
    let r = rd.next_record();
    let ok = r.is_ok();
    std::mem::forget((rd, r));
    assert!(ok);
}
#[kani::proof]
#[kani::unwind(10)]
#[kani::stub(crc32, crc32_bitwise)]
fn t_tail_len0() {
    let mut tail: [u8; 8] = kani::any();
    tail[0] = 0; tail[1] = 0; tail[2] = 0; tail[3] = 0;
    let mut rd = reader_on(&tail);
    let r = rd.next_record();
    let ok = r.is_ok();
    std::mem::forget((rd, r));
    assert!(ok);
}
#[kani::proof]
#[kani::unwind(12)]
#[kani::stub(crc32, crc32_bitwise)]
fn t_tail_len4_short() {
    // length field says 4 but only 2 body bytes present: short read must be end-of-log
    let mut tail: [u8; 10] = kani::any();
    tail[0] = 4; tail[1] = 0; tail[2] = 0; tail[3] = 0;
    let mut rd = reader_on(&tail);
    let r = rd.next_record();
    let ok = matches!(r, Ok(None));
    std::mem::forget((rd, r));
    assert!(ok);
}
#[kani::proof]
#[kani::unwind(12)]
#[kani::stub(crc32, crc32_bitwise)]
fn t_tail_len1_full() {
    // complete 1-byte record with arbitrary crc and arbitrary type byte
    let mut tail: [u8; 9] = kani::any();
    tail[0] = 1; tail[1] = 0; tail[2] = 0; tail[3] = 0;
    let mut rd = reader_on(&tail);
    let r = rd.next_record();
    let ok = r.is_ok();
    std::mem::forget((rd, r));
    assert!(ok);
}
