use super::*;

#[kani::proof]
#[kani::unwind(6)]
fn btree_leaf_lower_bound() {
    let mut buf = [0u8; PAGE_SIZE];
    let mut p = Page::new(&mut buf);
    p.init_leaf();
    let k0: u8 = kani::any(); let k1: u8 = kani::any(); let k2: u8 = kani::any();
    kani::assume(k0 <= k1 && k1 <= k2);
    p.leaf_insert_at(0, &[k0], 10).unwrap();
    p.leaf_insert_at(1, &[k1], 11).unwrap();
    p.leaf_insert_at(2, &[k2], 12).unwrap();
    let t: u8 = kani::any();
    let i = p.leaf_lower_bound(&[t]).unwrap();
    let expect = (k0 < t) as usize + (k1 < t) as usize + (k2 < t) as usize;
    assert_eq!(i, expect);
}

/// Two leaves + one internal page in the shape BTree::insert's split produces
/// (left = entries[..mid], right = entries[mid..], separator = right[0].key).
/// Property: descending for key t reaches the leaf holding the first entry >= t.
#[kani::proof]
#[kani::unwind(6)]
fn btree_descent_finds_lower_bound() {
    let k: [u8; 4] = kani::any();
    kani::assume(k[0] <= k[1] && k[1] <= k[2] && k[2] <= k[3]);
    let mut lb = [0u8; PAGE_SIZE];
    let mut rb = [0u8; PAGE_SIZE];
    let mut ib = [0u8; PAGE_SIZE];
    let mut l = Page::new(&mut lb); l.init_leaf();
    l.leaf_insert_at(0, &[k[0]], 0).unwrap(); l.leaf_insert_at(1, &[k[1]], 1).unwrap();
    let mut r = Page::new(&mut rb); r.init_leaf();
    r.leaf_insert_at(0, &[k[2]], 2).unwrap(); r.leaf_insert_at(1, &[k[3]], 3).unwrap();
    let mut ip = Page::new(&mut ib); ip.init_internal(PageId::new(2));
    ip.internal_insert_at(0, &[k[2]], PageId::new(3)).unwrap();
    let t: u8 = kani::any();
    let (child, _) = ip.internal_child_for_key(&[t]).unwrap();
    // global lower bound position over the 4 sorted entries
    let pos = (k[0] < t) as usize + (k[1] < t) as usize + (k[2] < t) as usize + (k[3] < t) as usize;
    // the entry at global position `pos` lives in the left leaf iff pos < 2
    if pos < 2 { assert!(child.as_u64() == 2); }
}

#[kani::proof]
#[kani::unwind(6)]
fn btree_leaf_lb_concrete_keys() {
    let mut buf = [0u8; PAGE_SIZE];
    let mut p = Page::new(&mut buf);
    p.init_leaf();
    p.leaf_insert_at(0, &[3], 10).unwrap();
    p.leaf_insert_at(1, &[5], 11).unwrap();
    p.leaf_insert_at(2, &[5], 12).unwrap();
    let t: u8 = kani::any();
    let i = p.leaf_lower_bound(&[t]).unwrap();
    let expect = (3 < t) as usize + (5 < t) as usize + (5 < t) as usize;
    assert_eq!(i, expect);
}

#[kani::proof]
fn btree_init_only() {
    let mut buf = [0u8; PAGE_SIZE];
    let mut p = Page::new(&mut buf);
    p.init_leaf();
    assert!(p.cell_count() == 0);
}

/// C26-O4 with a concrete duplicate layout [1,2 | 2,3] (separator 2), symbolic probe.
#[kani::proof]
#[kani::unwind(6)]
fn c26_o4_descent_dup_layout() {
    let mut lb = [0u8; PAGE_SIZE];
    let mut rb = [0u8; PAGE_SIZE];
    let mut ib = [0u8; PAGE_SIZE];
    Page::new(&mut lb).rebuild_leaf(PageId::new(3), &[(vec![1u8], 10), (vec![2u8], 11)]);
    Page::new(&mut rb).rebuild_leaf(PageId::new(0), &[(vec![2u8], 12), (vec![3u8], 13)]);
    let mut ip = Page::new(&mut ib); ip.init_internal(PageId::new(2));
    ip.internal_insert_at(0, &[2u8], PageId::new(3)).unwrap();
    let t: u8 = kani::any();
    let (child, _) = ip.internal_child_for_key(&[t]).unwrap();
    let pos = (1 < t) as usize + (2 < t) as usize + (2 < t) as usize + (3 < t) as usize;
    if pos < 2 { assert!(child.as_u64() == 2); } else { assert!(child.as_u64() == 3); }
}

/// C26-O5: delete's search finds every stored (key,payload) pair among equal keys kept newest-first.
#[kani::proof]
#[kani::unwind(8)]
fn c26_o5_delete_search_among_equal_keys() {
    let mut b = [0u8; PAGE_SIZE];
    let mut p = Page::new(&mut b); p.init_leaf();
    // inserted in time order payload 1 then 2 => slot order [2,1] because insert goes to the lower bound
    let i = p.leaf_lower_bound(&[5u8]).unwrap(); p.leaf_insert_at(i, &[5u8], 1).unwrap();
    let i = p.leaf_lower_bound(&[5u8]).unwrap(); p.leaf_insert_at(i, &[5u8], 2).unwrap();
    let want: u64 = kani::any();
    kani::assume(want == 1 || want == 2);
    let key = [5u8];
    let found = (0..p.cell_count()).collect::<Vec<_>>().binary_search_by(|&i| {
        let (k, v) = p.leaf_cell_key_and_payload(i).unwrap();
        (k, v).cmp(&(&key[..], want))
    }).is_ok();
    assert!(found);
}

#[kani::proof]
#[kani::unwind(7)]
fn c26_o3_varint_roundtrip() {
    let v: u32 = kani::any();
    let mut buf = [0u8; 5];
    let n = write_varint_u32(v, &mut buf);
    assert!(n == varint_u32_len(v));
    let (got, used) = read_varint_u32(&buf).unwrap();
    assert!(got == v && used == n);
}
