use super::*;

#[kani::proof]
#[kani::unwind(6)]
fn btree_leaf_lower_bound() {
    let mut buf = [0u8; PAGE_SIZE];
    let mut p = Page::new(&mut buf);
    p.init_leaf();
    let k0: u8 = kani::any(); let k1: u8 = kani::any(); let k2: u8 = kani::any();
    kani::assume(k0 <= k1 && k1 <= k2);
    p.leaf_insert_at(0, &[k0], 10).unwrap();
    p.leaf_insert_at(1, &[k1], 11).unwrap();
    p.leaf_insert_at(2, &[k2], 12).unwrap();
    let t: u8 = kani::any();
    let i = p.leaf_lower_bound(&[t]).unwrap();
    let expect = (k0 < t) as usize + (k1 < t) as usize + (k2 < t) as usize;
    assert_eq!(i, expect);
}

/// Two leaves + one internal page in the shape BTree::insert's split produces
/// (left = entries[..mid], right = entries[mid..], separator = right[0].key).
/// Property: descending for key t reaches the leaf holding the first entry >= t.
#[kani::proof]
#[kani::unwind(6)]
fn btree_descent_finds_lower_bound() {
    let k: [u8; 4] = kani::any();
    kani::assume(k[0] <= k[1] && k[1] <= k[2] && k[2] <= k[3]);
    let mut lb = [0u8; PAGE_SIZE];
    let mut rb = [0u8; PAGE_SIZE];
    let mut ib = [0u8; PAGE_SIZE];
    let mut l = Page::new(&mut lb); l.init_leaf();
    l.leaf_insert_at(0, &[k[0]], 0).unwrap(); l.leaf_insert_at(1, &[k[1]], 1).unwrap();
    let mut r = Page::new(&mut rb); r.init_leaf();
    r.leaf_insert_at(0, &[k[2]], 2).unwrap(); r.leaf_insert_at(1, &[k[3]], 3).unwrap();
    let mut ip = Page::new(&mut ib); ip.init_internal(PageId::new(2));
    ip.internal_insert_at(0, &[k[2]], PageId::new(3)).unwrap();
    let t: u8 = kani::any();
    let (child, _) = ip.internal_child_for_key(&[t]).unwrap();
    // global lower bound position over the 4 sorted entries
    let pos = (k[0] < t) as usize + (k[1] < t) as usize + (k[2] < t) as usize + (k[3] < t) as usize;
    // the entry at global position `pos` lives in the left leaf iff pos < 2
    if pos < 2 { assert!(child.as_u64() == 2); }
}

#[kani::proof]
#[kani::unwind(6)]
fn btree_leaf_lb_concrete_keys() {
    let mut buf = [0u8; PAGE_SIZE];
    let mut p = Page::new(&mut buf);
    p.init_leaf();
    p.leaf_insert_at(0, &[3], 10).unwrap();
    p.leaf_insert_at(1, &[5], 11).unwrap();
    p.leaf_insert_at(2, &[5], 12).unwrap();
    let t: u8 = kani::any();
    let i = p.leaf_lower_bound(&[t]).unwrap();
    let expect = (3 < t) as usize + (5 < t) as usize + (5 < t) as usize;
    assert_eq!(i, expect);
}

#[kani::proof]
fn btree_init_only() {
    let mut buf = [0u8; PAGE_SIZE];
    let mut p = Page::new(&mut buf);
    p.init_leaf();
    assert!(p.cell_count() == 0);
}
