use super::*;
fn never_exists(_p: &std::path::Path) -> bool { false }
static mut META: [u8; PAGE_SIZE] = [0; PAGE_SIZE];
fn stub_read_page(_p: &Pager, _id: PageId) -> Result<[u8; PAGE_SIZE]> { unsafe { Ok(META) } }

#[kani::proof]
#[kani::unwind(6)]
#[kani::stub(std::path::Path::exists, never_exists)]
#[kani::stub(crate::pager::Pager::read_page, stub_read_page)]
fn c28_o1b_layout_agreement_stubbed_pager() {
    let pager = Pager::open("p1").unwrap();
    let a: u64 = kani::any(); let b: u64 = kani::any(); let c: u64 = kani::any(); let d: u64 = kani::any();
    kani::assume(a >= 2 && a < 100 && b >= 2 && b < 100 && c >= 2 && c < 100 && d >= 2 && d < 100);
    kani::assume(a != b && a != c && a != d && b != c && b != d && c != d);
    unsafe { META = crate::csr::kani_harness::make_meta(&[a], &[b], &[c], &[d]); }
    let mut reach = BTreeSet::new();
    let r = mark_csr_segment_pages(&pager, PageId::new(9), &mut reach);
    let ok = r.is_ok() && reach.len() == 4;
    std::mem::forget((pager, reach, r));
    assert!(ok);
}
