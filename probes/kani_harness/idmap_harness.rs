use super::*;

/// C18 kernel: the page that record `id` is written to must be a page the node table owns.
/// The node table owns exactly one allocated page (`start`); any other page id >= start+1 may
/// belong to another structure.
#[kani::proof]
fn i2e_location_stays_in_owned_pages() {
    let start: u64 = kani::any();
    kani::assume(start >= 2 && start < 60000);
    let id: u64 = kani::any();
    kani::assume(id < u32::MAX as u64);
    let (page, off) = i2e_location(PageId::new(start), id).unwrap();
    assert!(off + I2E_RECORD_SIZE <= PAGE_SIZE);
    assert!(page.as_u64() == start); // only `start` was ever obtained from the allocator
}
