use super::*;

#[kani::proof]
fn i2e_location_stays_in_owned_pages() {
    let start: u64 = kani::any();
    kani::assume(start >= 2 && start < 60000);
    let id: u64 = kani::any();
    kani::assume(id < u32::MAX as u64);
    let (page, off) = i2e_location(PageId::new(start), id).unwrap();
    assert!(off + I2E_RECORD_SIZE <= PAGE_SIZE);
    assert!(page.as_u64() == start);
}

fn never_exists(_p: &std::path::Path) -> bool { false }

/// C18-O2: node-table write never touches a page the allocator handed to someone else.
#[kani::proof]
#[kani::unwind(3)]
#[kani::stub(std::path::Path::exists, never_exists)]
fn c18_o2_node_record_vs_foreign_page() {
    let mut pager = Pager::open("p1").unwrap();
    let p = pager.allocate_page().unwrap();          // node table start
    pager.set_i2e_start_page(Some(p)).unwrap();
    let q = pager.allocate_page().unwrap();          // somebody else's page
    let mut x = [0u8; PAGE_SIZE];
    let marker: u8 = kani::any();
    x[0] = marker; x[15] = marker;
    pager.write_page(q, &x).unwrap();
    let id: u64 = 512;
    let rec = I2eRecord { external_id: kani::any(), label_id: kani::any(), flags: 0 };
    write_i2e_record(&mut pager, p, id, rec).unwrap();
    let back = pager.read_page(q).unwrap();
    let ok = back[0] == marker && back[15] == marker;
    std::mem::forget(pager);
    assert!(ok);
}
