use super::*;
struct Collect(Vec<u8>);
impl Hasher for Collect {
    fn finish(&self) -> u64 { 0 }
    fn write(&mut self, b: &[u8]) { self.0.extend_from_slice(b); }
}
fn h(v: &Value) -> [u8; 16] {
    let mut c = Collect(Vec::new()); v.hash(&mut c);
    let mut out = [0u8; 16]; let n = if c.0.len() < 16 { c.0.len() } else { 16 };
    out[..n].copy_from_slice(&c.0[..n]); std::mem::forget(c); out
}
#[kani::proof]
#[kani::unwind(20)]
fn q21_hash_eq_float_float() {
    let a = Value::Float(kani::any()); let b = Value::Float(kani::any());
    let eq = a == b; let ha = h(&a); let hb = h(&b);
    std::mem::forget((a, b));
    if eq { assert!(ha == hb); }
}
#[kani::proof]
#[kani::unwind(20)]
fn q21_hash_eq_int_int() {
    let a = Value::Int(kani::any()); let b = Value::Int(kani::any());
    let eq = a == b; let ha = h(&a); let hb = h(&b);
    std::mem::forget((a, b));
    if eq { assert!(ha == hb); }
}
