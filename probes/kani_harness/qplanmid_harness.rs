use super::*;
#[kani::proof]
fn q33_estimate_range_len_small() {
    let s: i64 = kani::any(); let e: i64 = kani::any(); let st: i64 = kani::any();
    kani::assume(st != 0);
    kani::assume(s > -1000 && s < 1000 && e > -1000 && e < 1000 && st > -50 && st < 50);
    let got = estimate_range_len(s, e, st);
    // exact count of s, s+st, ... within [s..=e] (or [e..=s] for negative step)
    let want: i128 = if st > 0 { if s > e { 0 } else { ((e as i128 - s as i128) / st as i128) + 1 } }
                     else { if s < e { 0 } else { ((s as i128 - e as i128) / (-(st as i128))) + 1 } };
    assert!(got as i128 == want);
}
#[kani::proof]
fn q33_estimate_range_len_full_no_panic() {
    let s: i64 = kani::any(); let e: i64 = kani::any(); let st: i64 = kani::any();
    kani::assume(st != 0);
    let _ = estimate_range_len(s, e, st);
}
