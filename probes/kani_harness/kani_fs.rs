//! In-memory file-system model used only under cfg(kani).
use std::io::{self, Read, Seek, SeekFrom, Write};
use std::path::Path;

pub const NFILES: usize = 2;
pub const CAP: usize = 4 * 8192;

pub struct Store {
    pub data: [[u8; CAP]; NFILES],
    pub len: [usize; NFILES],
    /// remaining bytes that may still reach the medium before the simulated process death
    pub budget: usize,
}
pub static mut FS: Store = Store { data: [[0; CAP]; NFILES], len: [0; NFILES], budget: usize::MAX };

fn slot_of(path: &Path) -> usize {
    // harness convention: file name ends in '0'..'1'
    let b = path.as_os_str().as_encoded_bytes();
    (b[b.len() - 1] - b'0') as usize % NFILES
}

pub struct OpenOptions;
impl OpenOptions {
    pub fn new() -> Self { OpenOptions }
    pub fn read(&mut self, _: bool) -> &mut Self { self }
    pub fn write(&mut self, _: bool) -> &mut Self { self }
    pub fn create(&mut self, _: bool) -> &mut Self { self }
    pub fn create_new(&mut self, _: bool) -> &mut Self { self }
    pub fn truncate(&mut self, _: bool) -> &mut Self { self }
    pub fn append(&mut self, _: bool) -> &mut Self { self }
    pub fn open<P: AsRef<Path>>(&self, path: P) -> io::Result<File> {
        Ok(File { slot: slot_of(path.as_ref()), pos: 0 })
    }
}
#[derive(Debug)]
pub struct File { slot: usize, pos: usize }
pub struct Metadata { len: u64 }
impl Metadata { pub fn len(&self) -> u64 { self.len } }
impl File {
    pub fn metadata(&self) -> io::Result<Metadata> { unsafe { Ok(Metadata { len: FS.len[self.slot] as u64 }) } }
    pub fn sync_data(&self) -> io::Result<()> { Ok(()) }
    pub fn read_at(&self, out: &mut [u8], off: u64) -> io::Result<usize> {
        unsafe {
            let len = FS.len[self.slot]; let off = off as usize;
            let avail = if off < len { len - off } else { 0 };
            let n = if out.len() < avail { out.len() } else { avail };
            out[..n].copy_from_slice(&FS.data[self.slot][off..off + n]);
            Ok(n)
        }
    }
    pub fn write_at(&self, src: &[u8], off: u64) -> io::Result<usize> {
        unsafe {
            let off = off as usize;
            FS.data[self.slot][off..off + src.len()].copy_from_slice(src);
            if off + src.len() > FS.len[self.slot] { FS.len[self.slot] = off + src.len(); }
            Ok(src.len())
        }
    }
    pub fn set_len(&self, n: u64) -> io::Result<()> { unsafe { FS.len[self.slot] = n as usize; } Ok(()) }
}
impl Read for File {
    fn read(&mut self, out: &mut [u8]) -> io::Result<usize> {
        unsafe {
            let len = FS.len[self.slot];
            let avail = if self.pos < len { len - self.pos } else { 0 };
            let n = if out.len() < avail { out.len() } else { avail };
            out[..n].copy_from_slice(&FS.data[self.slot][self.pos..self.pos + n]);
            self.pos += n;
            Ok(n)
        }
    }
}
impl Write for File {
    fn write(&mut self, src: &[u8]) -> io::Result<usize> {
        unsafe {
            // bytes that still reach the medium before the simulated process death
            let n = if src.len() <= FS.budget { src.len() } else { FS.budget };
            if self.pos + n > CAP { return Err(io::Error::from(io::ErrorKind::StorageFull)); }
            FS.data[self.slot][self.pos..self.pos + n].copy_from_slice(&src[..n]);
            FS.budget -= n;
            if self.pos + n > FS.len[self.slot] { FS.len[self.slot] = self.pos + n; }
            self.pos += src.len();
            Ok(src.len())
        }
    }
    fn flush(&mut self) -> io::Result<()> { Ok(()) }
}
impl Seek for File {
    fn seek(&mut self, p: SeekFrom) -> io::Result<u64> {
        unsafe {
            match p {
                SeekFrom::Start(n) => self.pos = n as usize,
                SeekFrom::End(d) => self.pos = (FS.len[self.slot] as i64 + d) as usize,
                SeekFrom::Current(d) => self.pos = (self.pos as i64 + d) as usize,
            }
        }
        Ok(self.pos as u64)
    }
}
