#!/usr/bin/env python3-vt
"""Prototype 2: path-wise symbolic execution of a MIR function (text of -Zunpretty=mir) with z3.

Scalars are z3 bit-vectors; enums/tuples/structs are Python objects whose *shape* is concrete on a path
(callee models fork into alternatives), so discriminants are concrete and payload scalars symbolic.
Unknown statements abort (never silently skipped)."""
import re, sys, z3, itertools

INT_W = {'u8': 8, 'u16': 16, 'u32': 32, 'u64': 64, 'usize': 64, 'i8': 8, 'i16': 16, 'i32': 32, 'i64': 64,
         'isize': 64, 'bool': 1, 'u128': 128, 'i128': 128}

class Unsupported(Exception): pass

class Enum:
    def __init__(self, variant, fields=()): self.variant, self.fields = variant, list(fields)
    def __repr__(self): return f'{self.variant}({", ".join(map(repr, self.fields))})' if self.fields else self.variant
class Tup:
    def __init__(self, fields): self.fields = list(fields)
    def __repr__(self): return '(' + ', '.join(map(repr, self.fields)) + ')'
class Opaque:
    def __init__(self, name): self.name = name
    def __repr__(self): return f'<{self.name}>'
class Ref:
    def __init__(self, place): self.place = place
    def __repr__(self): return f'&{self.place}'

def load_fn(mir_path, header_re):
    lines = open(mir_path).read().split('\n')
    for i, l in enumerate(lines):
        if re.match(header_re, l):
            j = i
            while lines[j] != '}': j += 1
            return lines[i:j + 1]
    raise SystemExit('function not found')

def parse(fn_lines):
    blocks, cur, types = {}, None, {}
    for l in fn_lines:
        m = re.match(r'\s+let (?:mut )?(_\d+): (.*);', l)
        if m: types[m.group(1)] = m.group(2)
        m = re.match(r'\s+(bb\d+)( \(cleanup\))?: \{', l)
        if m: cur = m.group(1); blocks[cur] = []; continue
        if cur and l.strip() == '}': cur = None; continue
        if cur: blocks[cur].append(l.strip())
    hdr = fn_lines[0]
    for m in re.finditer(r'(_\d+): ([^,)]+(?:<[^>]*>)?)', hdr[hdr.index('('):]): types.setdefault(m.group(1), m.group(2))
    return blocks, types

VARIANT_IDX = {'Int': 3, 'Float': 4, 'OtherValue': 7, 'Ok': 0, 'Err': 1, 'None': 0, 'Some': 1, 'Continue': 0, 'Break': 1, 'BeginTx': 0, 'CommitTx': 1, 'OtherRecord': 5}

class State:
    def __init__(self): self.env, self.pc, self.trace, self.visits, self.mem, self.events = {}, [], [], {}, {}, []
    def fork(self):
        s = State(); s.env = dict(self.env); s.pc = list(self.pc); s.trace = list(self.trace)
        s.visits = dict(self.visits); s.mem = dict(self.mem); s.events = list(self.events); return s

class Exec:
    def __init__(self, blocks, types, models, consts, bound=3, abstract=False):
        self.blocks, self.types, self.models, self.consts, self.bound = blocks, types, models, consts, bound
        self.abstract = abstract
        self.n, self.done = 0, []
    def fresh(self, name, w): self.n += 1; return z3.BitVec(f'{name}#{self.n}', w)
    def width(self, local):
        return INT_W.get(self.types.get(local, ''), None)
    # ---- places
    def read_place(self, st, p):
        p = p.strip()
        m = re.match(r'^\((.+)\.(\d+): [^()]*(?:\([^()]*\))?[^()]*\)$', p)      # (BASE.N: T)  -- BASE may be nested
        if m and balanced(m.group(1)):
            base, idx = m.group(1).strip(), int(m.group(2))
            dm = re.match(r'^\((.+) as (\w+)\)$', base)
            if dm and balanced(dm.group(1)):                                   # ((X as Variant).N: T)
                v = self.read_place(st, dm.group(1))
                if not isinstance(v, Enum) or v.variant != dm.group(2): raise Unsupported(f'downcast {p} on {v!r}')
                return v.fields[idx]
            dm = re.match(r'^\(\*(_\d+)\)$', base)
            if dm and (not isinstance(st.env.get(dm.group(1)), Ref) or st.env[dm.group(1)].place == 'closure_env'):            # ((*_1).N: T) on an argument
                key = f'{dm.group(1)}.{idx}'
                if key not in st.mem:
                    w = INT_W.get(p.rsplit(': ', 1)[1].rstrip(')'), None)
                    st.mem[key] = self.fresh('arg' + key, w) if w else Opaque(key)
                return st.mem[key]
            v = self.read_place(st, base)
            return v.fields[idx]
        m = re.match(r'^\(\*(_\d+)\)$', p)
        if m:
            r = st.env[m.group(1)]
            return self.read_place(st, r.place) if isinstance(r, Ref) else r
        if re.match(r'^_\d+$', p):
            if p not in st.env:
                w = self.width(p)
                st.env[p] = self.fresh(p, w) if w else Opaque(p)
            return st.env[p]
        raise Unsupported('place ' + p)
    def write_place(self, st, p, v):
        p = p.strip()
        m = re.match(r'^\(\(\*(_\d+)\)\.(\d+): [^)]*\)$', p)
        if m: st.mem[f'{m.group(1)}.{m.group(2)}'] = v; return
        if re.match(r'^_\d+$', p): st.env[p] = v; return
        raise Unsupported('write place ' + p)
    def operand(self, st, o):
        o = o.strip()
        o = re.sub(r'^no_retag ', '', o)
        if o.startswith('move ') or o.startswith('copy '): return self.read_place(st, o[5:])
        if o.startswith('const '):
            c = o[6:]
            if c in ('true', 'false'): return z3.BitVecVal(1 if c == 'true' else 0, 1)
            m = re.match(r'^(-?\d+)_(\w+)$', c)
            if m: return z3.BitVecVal(int(m.group(1)), INT_W[m.group(2)])
            if re.match(r'^-?[\d.]+f(32|64)$', c): return Opaque('float')
            for k, (val, w) in self.consts.items():
                if c.endswith(k): return z3.BitVecVal(val, w) if w else val
            return Opaque('const ' + c)
        return self.read_place(st, o)
    # ---- rvalues
    def rvalue(self, st, dst, rhs):
        rhs = rhs.strip()
        m = re.match(r'^(Gt|Lt|Ge|Le|Eq|Ne|Add|Sub|BitAnd|BitOr)\((.+), (.+)\)$', rhs)
        if m:
            a, b = self.operand(st, m.group(2)), self.operand(st, m.group(3)); op = m.group(1)
            if isinstance(a, Opaque) or isinstance(b, Opaque): return Opaque('float')
            f = {'Gt': z3.UGT, 'Lt': z3.ULT, 'Ge': z3.UGE, 'Le': z3.ULE, 'Eq': lambda x, y: x == y, 'Ne': lambda x, y: x != y}
            if op in f: return z3.If(f[op](a, b), z3.BitVecVal(1, 1), z3.BitVecVal(0, 1))
            return {'Add': a + b, 'Sub': a - b, 'BitAnd': a & b, 'BitOr': a | b}[op]
        m = re.match(r'^(Add|Sub|Mul)WithOverflow\((.+), (.+)\)$', rhs)
        if m:
            a, b = self.operand(st, m.group(2)), self.operand(st, m.group(3)); w = a.size()
            signed = self.types.get(dst, '').startswith('(i')
            ext = z3.SignExt if signed else z3.ZeroExt
            ea, eb = ext(w, a), ext(w, b)
            wide = {'Add': ea + eb, 'Sub': ea - eb, 'Mul': ea * eb}[m.group(1)]
            res = z3.Extract(w - 1, 0, wide)
            ovf = z3.If(ext(w, res) != wide, z3.BitVecVal(1, 1), z3.BitVecVal(0, 1))
            return Tup([res, ovf])
        m = re.match(r'^(.+) as (\w+) \(IntToInt\)$', rhs)
        if m:
            v = self.operand(st, m.group(1)); w = INT_W[m.group(2)]
            src = re.sub(r'^(move|copy) ', '', m.group(1).strip())
            signed_src = self.types.get(src, 'u').startswith('i')
            if v.size() == w: return v
            if v.size() < w: return (z3.SignExt if signed_src else z3.ZeroExt)(w - v.size(), v)
            return z3.Extract(w - 1, 0, v)
        if re.search(r'\((IntToFloat|FloatToInt|FloatToFloat)\)$', rhs): return Opaque('float')
        m = re.match(r'^(Add|Sub|Mul|Div)\((.+), (.+)\)$', rhs)
        if m and (isinstance(self.operand(st, m.group(2)), Opaque) or isinstance(self.operand(st, m.group(3)), Opaque)): return Opaque('float')
        m = re.match(r'^discriminant\((.+)\)$', rhs)
        if m:
            v = self.read_place(st, m.group(1))
            if isinstance(v, Enum): return z3.BitVecVal(VARIANT_IDX[v.variant], 64)
            if self.abstract: return self.fresh('discr', 64)
            raise Unsupported(f'discriminant of {v!r}')
        m = re.match(r'^&(?:mut )?(.+)$', rhs)
        if m: return Ref(m.group(1))
        m = re.match(r'^(?:[\w:]+::)?(?:<[^>]*>::)?(\w+)::<.*>::(\w+)(?:\((.*)\))?$', rhs) or re.match(r'^[\w:]*?(\w+)::(\w+)\((.*)\)$', rhs)
        if m and m.group(2)[0].isupper():                                       # enum aggregate  Result::<..>::Ok(move _3)
            args = [self.operand(st, a) for a in split_args(m.group(3) or '')]
            return Enum(m.group(2), args)
        m = re.match(r'^[\w:]*::<.*>::(None)$', rhs)
        if m: return Enum('None')
        if rhs.startswith('(') and rhs.endswith(')') and ':' not in rhs.split(',')[0]:
            return Tup([self.operand(st, a) for a in split_args(rhs[1:-1])])
        m = re.match(r'^(\w+) \{ (.*) \}$', rhs)
        if m:
            return Enum(m.group(1), [self.operand(st, f.split(': ', 1)[1]) for f in split_args(m.group(2))])
        if re.match(r'^(no_retag )?(move |copy |const )', rhs): return self.operand(st, rhs)
        raise Unsupported('rvalue ' + rhs)
    # ---- main loop
    def run(self, bb, st):
        if bb in getattr(self, 'stop_at', ()): self.done.append(st); return
        if getattr(self, 'memo', None) is not None:
            flags = tuple(sorted((k, v.as_long()) for k, v in st.env.items() if z3.is_bv_value(v) and v.size() == 1))
            ghost = tuple(e for e in st.events if e[0] in ('io', 'publish') and (e[0] == 'publish' or e[2] == 'ERR'))
            r = st.env.get('_0'); rv = r.variant if isinstance(r, Enum) else None
            variants = tuple(sorted((k, v.variant, tuple(f.variant for f in v.fields if isinstance(f, Enum))) for k, v in st.env.items() if isinstance(v, Enum)))
            key = (bb, flags, variants, ghost[:1] + tuple(sorted(set(g for g in ghost if g[0] == 'publish'))), rv)
            if key in self.memo: return
            self.memo.add(key)
        st.visits[bb] = st.visits.get(bb, 0) + 1
        if st.visits[bb] > self.bound: return
        st.trace.append(bb)
        for s in self.blocks[bb]:
            md = re.match(r'^StorageDead\((_\d+)\);', s)
            if md: st.env.pop(md.group(1), None); continue
            if re.match(r'^(StorageLive|nop|//|FakeRead|PlaceMention|Retag)', s): continue
            m = re.match(r'^switchInt\((.*)\) -> \[(.*)\];$', s)
            if m:
                try: v = self.operand(st, m.group(1))
                except (Unsupported, KeyError, AttributeError, IndexError): v = Opaque('abs')
                if not z3.is_bv(v): v = self.fresh('sw', 64)
                seen = []
                for arm in m.group(2).split(', '):
                    k, tgt = arm.split(': ')
                    cond = z3.And([v != o for o in seen]) if k == 'otherwise' else (v == z3.BitVecVal(int(k), v.size()))
                    if k != 'otherwise': seen.append(z3.BitVecVal(int(k), v.size()))
                    sol = z3.Solver(); sol.add(st.pc + [cond])
                    if sol.check() == z3.sat:
                        n = st.fork(); n.pc.append(cond); self.run(tgt, n)
                return
            m = re.match(r'^goto -> (bb\d+);$', s)
            if m: self.run(m.group(1), st); return
            if s == 'return;': self.done.append(st); return
            if s in ('unreachable;', 'resume;'): return
            m = re.match(r'^assert\((!?)(.+?), ".*\) -> \[success: (bb\d+), unwind.*\];$', s)
            if m:
                v = self.operand(st, m.group(2)); ok = (v == 0) if m.group(1) else (v == 1)
                sol = z3.Solver(); sol.add(st.pc + [z3.Not(ok)])
                if sol.check() == z3.sat: st.events.append(('PANIC-POSSIBLE', s[:60], sol.model()))
                st.pc.append(ok); self.run(m.group(3), st); return
            m = re.match(r'^drop\(.*\) -> \[return: (bb\d+), unwind.*\];$', s)
            if m: self.run(m.group(1), st); return
            m = re.match(r'^(?:(.+?) = )?(.+)\((.*)\) -> \[return: (bb\d+), unwind.*\];$', s)
            if m:
                dst, callee, args, nxt = m.group(1), m.group(2), m.group(3), m.group(4)
                model = next((f for pat, f in self.models if re.search(pat, callee)), None)
                if model is None:
                    if not self.abstract: raise Unsupported('call ' + callee)
                    model = lambda ex, st, argv, c=callee: [(Opaque('ret:' + c[:40]), [], ('call', c))]
                argv = []
                for a in split_args(args):
                    try: argv.append(self.operand(st, a))
                    except (Unsupported, KeyError, AttributeError, IndexError):
                        if not self.abstract: raise
                        argv.append(Opaque('arg'))
                for val, cons, ev in model(self, st, argv):
                    n = st.fork(); n.pc += cons
                    if ev: n.events.append(ev)
                    if dst: self.write_place(n, dst, val)
                    self.run(nxt, n)
                return
            m = re.match(r'^(.+?) = (.*);$', s)
            if m:
                try: val = self.rvalue(st, m.group(1), m.group(2))
                except (Unsupported, KeyError, AttributeError, IndexError, TypeError, z3.Z3Exception):
                    if not self.abstract: raise
                    val = Opaque('abs')
                try: self.write_place(st, m.group(1), val)
                except Unsupported:
                    if not self.abstract: raise
                continue
            raise Unsupported('statement ' + s)
        raise Unsupported('block without terminator ' + bb)

def balanced(t):
    d = 0
    for ch in t:
        if ch == '(': d += 1
        if ch == ')':
            d -= 1
            if d < 0: return False
    return d == 0

def split_args(a):
    out, depth, cur = [], 0, ''
    for ch in a:
        if ch in '(<[': depth += 1
        if ch in ')>]': depth -= 1
        if ch == ',' and depth == 0: out.append(cur.strip()); cur = ''
        else: cur += ch
    if cur.strip(): out.append(cur.strip())
    return out

# ---------------- target: engine::WriteTxn::commit (C08-O1), control-flow abstraction
def m_wal_io(name):
    def f(ex, st, a): return [(Enum('Ok', [Opaque('off')]), [], ('io', name, 'ok')), (Enum('Err', [Enum('Io')]), [], ('io', name, 'ERR'))]
    return f
def m_branch(ex, st, a):
    v = a[0]
    if isinstance(v, Enum):
        if v.variant in ('Ok', 'Some'): return [(Enum('Continue', v.fields), [], None)]
        return [(Enum('Break', [v]), [], None)]
    return [(Enum('Continue', [Opaque('v')]), [], None), (Enum('Break', [Opaque('residual')]), [], ('q', 'other-error'))]
def m_from_residual(ex, st, a): return [(Enum('Err', [a[0]]), [], None)]
def m_next(ex, st, a): return [(Enum('Some', [Opaque('item')]), [], None), (Enum('None'), [], None)]
def m_unwrap(ex, st, a): return [(Opaque('guard'), [], None)]
def mark(name):
    def f(ex, st, a): return [(Opaque('r'), [], ('publish', name))]
    return f
def m_res_mark(name):
    def f(ex, st, a): return [(Enum('Ok', [Tup([])]), [], ('publish', name)), (Enum('Err', [Enum('E')]), [], ('publish', name))]
    return f
MODELS = [(r'Wal::append', m_wal_io('append')), (r'Wal::fsync', m_wal_io('fsync')), (r'as Try>::branch', m_branch),
          (r'FromResidual', m_from_residual), (r'as Iterator>::next', m_next), (r'Result::<.*>::unwrap|::unwrap\(', m_unwrap),
          (r'IdMap::apply_', m_res_mark('idmap.apply')), (r'update_published_node_labels', mark('update_published_node_labels')),
          (r'publish_run', mark('publish_run'))]

if __name__ == '__main__':
    import time
    lines = open(sys.argv[1]).read().split('\n')
    blocks, types = parse(lines)
    for l in lines:
        m = re.match(r'\s+let (?:mut )?(_\d+): (.*);', l)
        if m: types[m.group(1)] = m.group(2)
    ex = Exec(blocks, types, MODELS, {}, bound=int(sys.argv[2]) if len(sys.argv) > 2 else 2, abstract=True)
    ex.memo = set()
    sys.setrecursionlimit(100000)
    t0 = time.time(); st = State(); ex.run('bb0', st)
    print(f'{len(ex.done)} paths to return in {time.time()-t0:.1f}s')
    bad = 0; waldead = 0
    for p in ex.done:
        ios = [e for e in p.events if e[0] == 'io']; pubs = [e[1] for e in p.events if e[0] == 'publish']
        failed = [e for e in ios if e[2] == 'ERR']
        if failed:
            waldead += 1
            ret = p.env.get('_0')
            ok = isinstance(ret, Enum) and ret.variant == 'Err' and not pubs
            if not ok: bad += 1; print('  BAD PATH: io fault', failed[0][1], 'after', len(ios) - 1, 'ok appends; returned', ret, 'publications', pubs)
    print(f'paths with an injected WAL fault: {waldead}; violating (no Err return, or publication happened): {bad}')
    print('memo states:', len(ex.memo), 'distinct blocks reached:', len({k[0] for k in ex.memo}), 'of', len(blocks))
    reached = {k[0] for k in ex.memo}
    for bb, sts in blocks.items():
        for s_ in sts:
            if re.search(r'publish_run|update_published_node_labels|IdMap::apply_create_node|Wal::fsync', s_):
                print('  ', bb, 'reached' if bb in reached else 'NOT reached', s_[:90])
    for p in ex.done: print('  return path: events', [e for e in p.events if e[0] != 'call'][:6], 'ret', p.env.get('_0'))
