#!/usr/bin/env python3-vt
"""Prototype: symbolic execution of one MIR function body (text from -Zunpretty=mir) with z3.
Locals of bool/int type are bit-vectors/bools; anything else is opaque. Calls havoc their destination."""
import re, sys, z3

def load_fn(mir_path, header_prefix):
    lines = open(mir_path).read().split('\n')
    for i, l in enumerate(lines):
        if l.startswith(header_prefix):
            j = i
            while lines[j] != '}': j += 1
            return lines[i:j+1]
    raise SystemExit('function not found: ' + header_prefix)

def parse(fn_lines):
    blocks, cur = {}, None
    for l in fn_lines:
        m = re.match(r'\s+(bb\d+)( \(cleanup\))?: \{', l)
        if m: cur = m.group(1); blocks[cur] = []; continue
        if cur and l.strip() == '}': cur = None; continue
        if cur: blocks[cur].append(l.strip())
    return blocks

class Exec:
    def __init__(self, blocks, bound=3):
        self.blocks, self.bound, self.fresh = blocks, bound, 0
        self.paths = []
    def new(self, name, sort=None):
        self.fresh += 1
        return z3.BitVec(f'{name}!{self.fresh}', 64) if sort is None else z3.Const(f'{name}!{self.fresh}', sort)
    def val(self, env, tok):
        tok = tok.strip()
        tok = re.sub(r'^(move|copy) ', '', tok)
        if tok.startswith('const '):
            c = tok[6:]
            if c == 'true': return z3.BitVecVal(1, 64)
            if c == 'false': return z3.BitVecVal(0, 64)
            m = re.match(r'(-?\d+)_', c)
            if m: return z3.BitVecVal(int(m.group(1)), 64)
            return self.new('const')
        if tok not in env: env[tok] = self.new(tok.replace(' ', ''))
        return env[tok]
    def run(self, bb, env, pc, visits, trace):
        visits = dict(visits); visits[bb] = visits.get(bb, 0) + 1
        if visits[bb] > self.bound: return
        env = dict(env); trace = trace + [bb]
        for st in self.blocks[bb]:
            if st.startswith('//') or st.startswith('StorageLive') or st.startswith('StorageDead') or st.startswith('nop'): continue
            m = re.match(r'(\S+) = discriminant\((.*)\);', st)
            if m:
                env[m.group(1)] = self.val(env, 'discr:' + m.group(2)); continue
            m = re.match(r'switchInt\((.*)\) -> \[(.*)\];', st)
            if m:
                v = self.val(env, m.group(1)); others = []
                for arm in m.group(2).split(', '):
                    k, tgt = arm.split(': ')
                    if k == 'otherwise':
                        cond = z3.And([v != o for o in others]) if others else z3.BoolVal(True)
                    else:
                        kv = z3.BitVecVal(int(k), 64); others.append(kv); cond = v == kv
                    s = z3.Solver(); s.add(pc + [cond])
                    if s.check() == z3.sat: self.run(tgt, env, pc + [cond], visits, trace)
                return
            m = re.match(r'goto -> (bb\d+);', st)
            if m: self.run(m.group(1), env, pc, visits, trace); return
            if st == 'return;':
                self.paths.append((pc, env, trace)); return
            if st in ('unreachable;', 'resume;') or st.startswith('unwind'): return
            m = re.match(r'(?:(\S+) = )?.*\) -> \[return: (bb\d+), unwind.*\];', st)   # call
            if m:
                if m.group(1): env[m.group(1)] = self.new('call')
                self.run(m.group(2), env, pc, visits, trace); return
            m = re.match(r'drop\(.*\) -> \[return: (bb\d+), unwind.*\];', st)
            if m: self.run(m.group(1), env, pc, visits, trace); return
            m = re.match(r'(\S+) = (.*);', st)
            if m:
                rhs = m.group(2)
                if re.match(r'^(move |copy |const )', rhs) and ' as ' not in rhs: env[m.group(1)] = self.val(env, rhs)
                else: env[m.group(1)] = self.new('opaque')
                continue
            raise SystemExit('unsupported MIR statement: ' + st)

if __name__ == '__main__':
    fn = load_fn(sys.argv[1], sys.argv[2])
    ex = Exec(parse(fn)); ex.run('bb0', {}, [], {}, [])
    print('paths to return:', len(ex.paths))
    # obligation: input is Err (discriminant 1)  =>  closure returns true (row kept)
    for pc, env, trace in ex.paths:
        d = env.get('discr:(*_2)'); r = env.get('_0')
        s = z3.Solver(); s.add(pc); s.add(d == 1, r == 0)
        if s.check() == z3.sat:
            print('VIOLATING PATH (Err row filtered out):', ' -> '.join(trace)); print(' model:', s.model())
