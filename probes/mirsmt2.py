#!/usr/bin/env python3-vt
"""Prototype 2: path-wise symbolic execution of a MIR function (text of -Zunpretty=mir) with z3.

Scalars are z3 bit-vectors; enums/tuples/structs are Python objects whose *shape* is concrete on a path
(callee models fork into alternatives), so discriminants are concrete and payload scalars symbolic.
Unknown statements abort (never silently skipped)."""
import re, sys, z3, itertools

INT_W = {'u8': 8, 'u16': 16, 'u32': 32, 'u64': 64, 'usize': 64, 'i8': 8, 'i16': 16, 'i32': 32, 'i64': 64,
         'isize': 64, 'bool': 1, 'u128': 128, 'i128': 128}

class Unsupported(Exception): pass

class Enum:
    def __init__(self, variant, fields=()): self.variant, self.fields = variant, list(fields)
    def __repr__(self): return f'{self.variant}({", ".join(map(repr, self.fields))})' if self.fields else self.variant
class Tup:
    def __init__(self, fields): self.fields = list(fields)
    def __repr__(self): return '(' + ', '.join(map(repr, self.fields)) + ')'
class Opaque:
    def __init__(self, name): self.name = name
    def __repr__(self): return f'<{self.name}>'
class Ref:
    def __init__(self, place): self.place = place
    def __repr__(self): return f'&{self.place}'

def load_fn(mir_path, header_re):
    lines = open(mir_path).read().split('\n')
    for i, l in enumerate(lines):
        if re.match(header_re, l):
            j = i
            while lines[j] != '}': j += 1
            return lines[i:j + 1]
    raise SystemExit('function not found')

def parse(fn_lines):
    blocks, cur, types = {}, None, {}
    for l in fn_lines:
        m = re.match(r'\s+let (?:mut )?(_\d+): (.*);', l)
        if m: types[m.group(1)] = m.group(2)
        m = re.match(r'\s+(bb\d+)( \(cleanup\))?: \{', l)
        if m: cur = m.group(1); blocks[cur] = []; continue
        if cur and l.strip() == '}': cur = None; continue
        if cur: blocks[cur].append(l.strip())
    hdr = fn_lines[0]
    for m in re.finditer(r'(_\d+): ([^,)]+(?:<[^>]*>)?)', hdr[hdr.index('('):]): types.setdefault(m.group(1), m.group(2))
    return blocks, types

VARIANT_IDX = {'Ok': 0, 'Err': 1, 'None': 0, 'Some': 1, 'Continue': 0, 'Break': 1}

class State:
    def __init__(self): self.env, self.pc, self.trace, self.visits, self.mem, self.events = {}, [], [], {}, {}, []
    def fork(self):
        s = State(); s.env = dict(self.env); s.pc = list(self.pc); s.trace = list(self.trace)
        s.visits = dict(self.visits); s.mem = dict(self.mem); s.events = list(self.events); return s

class Exec:
    def __init__(self, blocks, types, models, consts, bound=3):
        self.blocks, self.types, self.models, self.consts, self.bound = blocks, types, models, consts, bound
        self.n, self.done = 0, []
    def fresh(self, name, w): self.n += 1; return z3.BitVec(f'{name}#{self.n}', w)
    def width(self, local):
        return INT_W.get(self.types.get(local, ''), None)
    # ---- places
    def read_place(self, st, p):
        p = p.strip()
        m = re.match(r'^\(\((.+) as (\w+)\)\.(\d+): [^)]*\)$', p)           # ((_5 as Continue).0: T)
        if m:
            v = self.read_place(st, m.group(1))
            if not isinstance(v, Enum) or v.variant != m.group(2): raise Unsupported(f'downcast {p} on {v!r}')
            return v.fields[int(m.group(3))]
        m = re.match(r'^\(\(\*(_\d+)\)\.(\d+): [^)]*\)$', p)                  # ((*_1).1: u64)
        if m:
            key = f'{m.group(1)}.{m.group(2)}'
            if key not in st.mem:
                w = INT_W.get(p.rsplit(': ', 1)[1].rstrip(')'), None)
                st.mem[key] = self.fresh('arg' + key, w) if w else Opaque(key)
            return st.mem[key]
        m = re.match(r'^\((_\d+)\.(\d+): [^)]*\)$', p)                         # (_44.1: bool)
        if m:
            v = st.env[m.group(1)]
            return v.fields[int(m.group(2))]
        m = re.match(r'^\(\*(_\d+)\)$', p)
        if m:
            r = st.env[m.group(1)]
            return self.read_place(st, r.place) if isinstance(r, Ref) else r
        if re.match(r'^_\d+$', p):
            if p not in st.env:
                w = self.width(p)
                st.env[p] = self.fresh(p, w) if w else Opaque(p)
            return st.env[p]
        raise Unsupported('place ' + p)
    def write_place(self, st, p, v):
        p = p.strip()
        m = re.match(r'^\(\(\*(_\d+)\)\.(\d+): [^)]*\)$', p)
        if m: st.mem[f'{m.group(1)}.{m.group(2)}'] = v; return
        if re.match(r'^_\d+$', p): st.env[p] = v; return
        raise Unsupported('write place ' + p)
    def operand(self, st, o):
        o = o.strip()
        if o.startswith('move ') or o.startswith('copy '): return self.read_place(st, o[5:])
        if o.startswith('const '):
            c = o[6:]
            if c in ('true', 'false'): return z3.BitVecVal(1 if c == 'true' else 0, 1)
            m = re.match(r'^(-?\d+)_(\w+)$', c)
            if m: return z3.BitVecVal(int(m.group(1)), INT_W[m.group(2)])
            for k, (val, w) in self.consts.items():
                if c.endswith(k): return z3.BitVecVal(val, w) if w else val
            return Opaque('const ' + c)
        return self.read_place(st, o)
    # ---- rvalues
    def rvalue(self, st, dst, rhs):
        rhs = rhs.strip()
        m = re.match(r'^(Gt|Lt|Ge|Le|Eq|Ne|Add|Sub|BitAnd|BitOr)\((.+), (.+)\)$', rhs)
        if m:
            a, b = self.operand(st, m.group(2)), self.operand(st, m.group(3)); op = m.group(1)
            f = {'Gt': z3.UGT, 'Lt': z3.ULT, 'Ge': z3.UGE, 'Le': z3.ULE, 'Eq': lambda x, y: x == y, 'Ne': lambda x, y: x != y}
            if op in f: return z3.If(f[op](a, b), z3.BitVecVal(1, 1), z3.BitVecVal(0, 1))
            return {'Add': a + b, 'Sub': a - b, 'BitAnd': a & b, 'BitOr': a | b}[op]
        m = re.match(r'^(Add|Sub|Mul)WithOverflow\((.+), (.+)\)$', rhs)
        if m:
            a, b = self.operand(st, m.group(2)), self.operand(st, m.group(3)); w = a.size()
            ea, eb = z3.ZeroExt(w, a), z3.ZeroExt(w, b)
            wide = {'Add': ea + eb, 'Sub': ea - eb, 'Mul': ea * eb}[m.group(1)]
            res = z3.Extract(w - 1, 0, wide)
            ovf = z3.If(z3.Extract(2 * w - 1, w, wide) != 0, z3.BitVecVal(1, 1), z3.BitVecVal(0, 1))
            return Tup([res, ovf])
        m = re.match(r'^(.+) as (\w+) \(IntToInt\)$', rhs)
        if m:
            v = self.operand(st, m.group(1)); w = INT_W[m.group(2)]
            return v if v.size() == w else (z3.ZeroExt(w - v.size(), v) if v.size() < w else z3.Extract(w - 1, 0, v))
        m = re.match(r'^discriminant\((.+)\)$', rhs)
        if m:
            v = self.read_place(st, m.group(1))
            if isinstance(v, Enum): return z3.BitVecVal(VARIANT_IDX[v.variant], 64)
            raise Unsupported(f'discriminant of {v!r}')
        m = re.match(r'^&(?:mut )?(.+)$', rhs)
        if m: return Ref(m.group(1))
        m = re.match(r'^(?:[\w:]+::)?(?:<[^>]*>::)?(\w+)::<.*>::(\w+)(?:\((.*)\))?$', rhs) or re.match(r'^[\w:]*?(\w+)::(\w+)\((.*)\)$', rhs)
        if m and m.group(2)[0].isupper():                                       # enum aggregate  Result::<..>::Ok(move _3)
            args = [self.operand(st, a) for a in split_args(m.group(3) or '')]
            return Enum(m.group(2), args)
        m = re.match(r'^[\w:]*::<.*>::(None)$', rhs)
        if m: return Enum('None')
        if rhs.startswith('(') and rhs.endswith(')') and ':' not in rhs.split(',')[0]:
            return Tup([self.operand(st, a) for a in split_args(rhs[1:-1])])
        if re.match(r'^(move |copy |const )', rhs): return self.operand(st, rhs)
        raise Unsupported('rvalue ' + rhs)
    # ---- main loop
    def run(self, bb, st):
        st.visits[bb] = st.visits.get(bb, 0) + 1
        if st.visits[bb] > self.bound: return
        st.trace.append(bb)
        for s in self.blocks[bb]:
            if re.match(r'^(StorageLive|StorageDead|nop|//|FakeRead|PlaceMention|Retag)', s): continue
            m = re.match(r'^switchInt\((.*)\) -> \[(.*)\];$', s)
            if m:
                v = self.operand(st, m.group(1)); seen = []
                for arm in m.group(2).split(', '):
                    k, tgt = arm.split(': ')
                    cond = z3.And([v != o for o in seen]) if k == 'otherwise' else (v == z3.BitVecVal(int(k), v.size()))
                    if k != 'otherwise': seen.append(z3.BitVecVal(int(k), v.size()))
                    sol = z3.Solver(); sol.add(st.pc + [cond])
                    if sol.check() == z3.sat:
                        n = st.fork(); n.pc.append(cond); self.run(tgt, n)
                return
            m = re.match(r'^goto -> (bb\d+);$', s)
            if m: self.run(m.group(1), st); return
            if s == 'return;': self.done.append(st); return
            if s in ('unreachable;', 'resume;'): return
            m = re.match(r'^assert\((!?)(.+?), ".*\) -> \[success: (bb\d+), unwind.*\];$', s)
            if m:
                v = self.operand(st, m.group(2)); ok = (v == 0) if m.group(1) else (v == 1)
                sol = z3.Solver(); sol.add(st.pc + [z3.Not(ok)])
                if sol.check() == z3.sat: st.events.append(('PANIC-POSSIBLE', s[:60], sol.model()))
                st.pc.append(ok); self.run(m.group(3), st); return
            m = re.match(r'^drop\(.*\) -> \[return: (bb\d+), unwind.*\];$', s)
            if m: self.run(m.group(1), st); return
            m = re.match(r'^(?:(.+?) = )?(.+)\((.*)\) -> \[return: (bb\d+), unwind.*\];$', s)
            if m:
                dst, callee, args, nxt = m.group(1), m.group(2), m.group(3), m.group(4)
                model = next((f for pat, f in self.models if re.search(pat, callee)), None)
                if model is None: raise Unsupported('call ' + callee)
                argv = [self.operand(st, a) for a in split_args(args)]
                for val, cons, ev in model(self, st, argv):
                    n = st.fork(); n.pc += cons
                    if ev: n.events.append(ev)
                    if dst: self.write_place(n, dst, val)
                    self.run(nxt, n)
                return
            m = re.match(r'^(.+?) = (.*);$', s)
            if m: self.write_place(st, m.group(1), self.rvalue(st, m.group(1), m.group(2))); continue
            raise Unsupported('statement ' + s)

def split_args(a):
    out, depth, cur = [], 0, ''
    for ch in a:
        if ch in '(<[': depth += 1
        if ch in ')>]': depth -= 1
        if ch == ',' and depth == 0: out.append(cur.strip()); cur = ''
        else: cur += ch
    if cur.strip(): out.append(cur.strip())
    return out

# ---------------- target: WalReader::next_record
def m_try_read_u32(ex, st, a):
    return [(Enum('Ok', [Enum('Some', [ex.fresh('read_u32', 32)])]), [], ('read', 'u32')),
            (Enum('Ok', [Enum('None')]), [], ('read', 'eof')),
            (Enum('Err', [Enum('Io', [Opaque('ioerr')])]), [], ('read', 'ioerror'))]
def m_branch(ex, st, a):
    v = a[0]
    if v.variant in ('Ok', 'Some'): return [(Enum('Continue', v.fields), [], None)]
    return [(Enum('Break', [v]), [], None)]
def m_from_residual(ex, st, a): return [(a[0], [], None)]
def m_from_elem(ex, st, a): return [(Opaque('vec_of_len'), [], ('alloc', a[1]))]
def m_alias(ex, st, a): return [(a[0], [], None)]
def m_read_exact(ex, st, a):
    return [(Enum('Ok', [Tup([])]), [], ('body', 'complete')),
            (Enum('Err', [Enum('IoError', [Enum('UnexpectedEof')])]), [], ('body', 'short')),
            (Enum('Err', [Enum('IoError', [Enum('OtherKind')])]), [], ('body', 'ioerror'))]
def m_kind(ex, st, a):
    e = a[0]; e = ex.read_place(st, e.place) if isinstance(e, Ref) else e
    return [(e.fields[0], [], None)]
def m_kind_eq(ex, st, a):
    l = [ex.read_place(st, x.place) if isinstance(x, Ref) else x for x in a]
    lk = l[0].variant if isinstance(l[0], Enum) else None
    return [(z3.BitVecVal(1 if lk == 'UnexpectedEof' else 0, 1), [], None)]   # rhs is the promoted const UnexpectedEof
def m_crc32(ex, st, a): return [(ex.fresh('crc32_of_body', 32), [], None)]
def m_decode(ex, st, a):
    return [(Enum('Ok', [Opaque('record')]), [], ('decode', 'ok')), (Enum('Err', [Enum('WalProtocol')]), [], ('decode', 'error'))]

MODELS = [(r'try_read_u32', m_try_read_u32), (r'as Try>::branch', m_branch), (r'FromResidual', m_from_residual),
          (r'from_elem', m_from_elem), (r'as Deref(Mut)?>::deref', m_alias), (r'read_exact', m_read_exact),
          (r'io::Error::kind', m_kind), (r'ErrorKind as PartialEq>::eq', m_kind_eq), (r'^crc32$', m_crc32),
          (r'decode_body', m_decode)]
CONSTS = {'MAX_WAL_RECORD_LEN': (1024 * 1024, 32), 'promoted[0]': (Enum('UnexpectedEof'), None)}

if __name__ == '__main__':
    fn = load_fn(sys.argv[1], r'^fn wal::<impl at .*>::next_record\(')
    blocks, types = parse(fn)
    ex = Exec(blocks, types, MODELS, CONSTS)
    st = State(); st.env['_1'] = Ref('self')
    ex.run('bb0', st)
    print(f'{len(ex.done)} feasible paths to return')
    off0 = None
    for p in ex.done:
        ret = p.env['_0']
        reads = [e for e in p.events if e[0] in ('read', 'body', 'decode')]
        env_fault = any(e[1] == 'ioerror' for e in reads)
        verdict = 'ok'
        if isinstance(ret, Enum) and ret.variant == 'Err' and not env_fault: verdict = 'VIOLATES "any tail is tolerated"'
        s = z3.Solver(); s.add(p.pc); assert s.check() == z3.sat
        mdl = s.model()
        vals = {str(d): mdl[d] for d in mdl.decls() if 'read_u32' in str(d) or 'crc32' in str(d)}
        print(f'  {ret!r:<46} events={[e[1] for e in reads]} offset={p.mem.get("_1.1", "unchanged")!s:<40.40} {verdict}  witness={vals}')
        for e in p.events:
            if e[0] == 'PANIC-POSSIBLE': print('     arithmetic panic possible:', e[1], e[2])
