#!/usr/bin/env python3-vt
"""Prototype 2: path-wise symbolic execution of a MIR function (text of -Zunpretty=mir) with z3.

Scalars are z3 bit-vectors; enums/tuples/structs are Python objects whose *shape* is concrete on a path
(callee models fork into alternatives), so discriminants are concrete and payload scalars symbolic.
Unknown statements abort (never silently skipped)."""
import re, sys, z3, itertools

INT_W = {'u8': 8, 'u16': 16, 'u32': 32, 'u64': 64, 'usize': 64, 'i8': 8, 'i16': 16, 'i32': 32, 'i64': 64,
         'isize': 64, 'bool': 1, 'u128': 128, 'i128': 128}

class Unsupported(Exception): pass

class Enum:
    def __init__(self, variant, fields=()): self.variant, self.fields = variant, list(fields)
    def __repr__(self): return f'{self.variant}({", ".join(map(repr, self.fields))})' if self.fields else self.variant
class Tup:
    def __init__(self, fields): self.fields = list(fields)
    def __repr__(self): return '(' + ', '.join(map(repr, self.fields)) + ')'
class Opaque:
    def __init__(self, name): self.name = name
    def __repr__(self): return f'<{self.name}>'
class Ref:
    def __init__(self, place): self.place = place
    def __repr__(self): return f'&{self.place}'

def load_fn(mir_path, header_re):
    lines = open(mir_path).read().split('\n')
    for i, l in enumerate(lines):
        if re.match(header_re, l):
            j = i
            while lines[j] != '}': j += 1
            return lines[i:j + 1]
    raise SystemExit('function not found')

def parse(fn_lines):
    blocks, cur, types = {}, None, {}
    for l in fn_lines:
        m = re.match(r'\s+let (?:mut )?(_\d+): (.*);', l)
        if m: types[m.group(1)] = m.group(2)
        m = re.match(r'\s+(bb\d+)( \(cleanup\))?: \{', l)
        if m: cur = m.group(1); blocks[cur] = []; continue
        if cur and l.strip() == '}': cur = None; continue
        if cur: blocks[cur].append(l.strip())
    hdr = fn_lines[0]
    for m in re.finditer(r'(_\d+): ([^,)]+(?:<[^>]*>)?)', hdr[hdr.index('('):]): types.setdefault(m.group(1), m.group(2))
    return blocks, types

VARIANT_IDX = {'Ok': 0, 'Err': 1, 'None': 0, 'Some': 1, 'Continue': 0, 'Break': 1, 'BeginTx': 0, 'CommitTx': 1, 'OtherRecord': 5}

class State:
    def __init__(self): self.env, self.pc, self.trace, self.visits, self.mem, self.events = {}, [], [], {}, {}, []
    def fork(self):
        s = State(); s.env = dict(self.env); s.pc = list(self.pc); s.trace = list(self.trace)
        s.visits = dict(self.visits); s.mem = dict(self.mem); s.events = list(self.events); return s

class Exec:
    def __init__(self, blocks, types, models, consts, bound=3):
        self.blocks, self.types, self.models, self.consts, self.bound = blocks, types, models, consts, bound
        self.n, self.done = 0, []
    def fresh(self, name, w): self.n += 1; return z3.BitVec(f'{name}#{self.n}', w)
    def width(self, local):
        return INT_W.get(self.types.get(local, ''), None)
    # ---- places
    def read_place(self, st, p):
        p = p.strip()
        m = re.match(r'^\((.+)\.(\d+): [^()]*(?:\([^()]*\))?[^()]*\)$', p)      # (BASE.N: T)  -- BASE may be nested
        if m and balanced(m.group(1)):
            base, idx = m.group(1).strip(), int(m.group(2))
            dm = re.match(r'^\((.+) as (\w+)\)$', base)
            if dm and balanced(dm.group(1)):                                   # ((X as Variant).N: T)
                v = self.read_place(st, dm.group(1))
                if not isinstance(v, Enum) or v.variant != dm.group(2): raise Unsupported(f'downcast {p} on {v!r}')
                return v.fields[idx]
            dm = re.match(r'^\(\*(_\d+)\)$', base)
            if dm and not isinstance(st.env.get(dm.group(1)), Ref):            # ((*_1).N: T) on an argument
                key = f'{dm.group(1)}.{idx}'
                if key not in st.mem:
                    w = INT_W.get(p.rsplit(': ', 1)[1].rstrip(')'), None)
                    st.mem[key] = self.fresh('arg' + key, w) if w else Opaque(key)
                return st.mem[key]
            v = self.read_place(st, base)
            return v.fields[idx]
        m = re.match(r'^\(\*(_\d+)\)$', p)
        if m:
            r = st.env[m.group(1)]
            return self.read_place(st, r.place) if isinstance(r, Ref) else r
        if re.match(r'^_\d+$', p):
            if p not in st.env:
                w = self.width(p)
                st.env[p] = self.fresh(p, w) if w else Opaque(p)
            return st.env[p]
        raise Unsupported('place ' + p)
    def write_place(self, st, p, v):
        p = p.strip()
        m = re.match(r'^\(\(\*(_\d+)\)\.(\d+): [^)]*\)$', p)
        if m: st.mem[f'{m.group(1)}.{m.group(2)}'] = v; return
        if re.match(r'^_\d+$', p): st.env[p] = v; return
        raise Unsupported('write place ' + p)
    def operand(self, st, o):
        o = o.strip()
        if o.startswith('move ') or o.startswith('copy '): return self.read_place(st, o[5:])
        if o.startswith('const '):
            c = o[6:]
            if c in ('true', 'false'): return z3.BitVecVal(1 if c == 'true' else 0, 1)
            m = re.match(r'^(-?\d+)_(\w+)$', c)
            if m: return z3.BitVecVal(int(m.group(1)), INT_W[m.group(2)])
            for k, (val, w) in self.consts.items():
                if c.endswith(k): return z3.BitVecVal(val, w) if w else val
            return Opaque('const ' + c)
        return self.read_place(st, o)
    # ---- rvalues
    def rvalue(self, st, dst, rhs):
        rhs = rhs.strip()
        m = re.match(r'^(Gt|Lt|Ge|Le|Eq|Ne|Add|Sub|BitAnd|BitOr)\((.+), (.+)\)$', rhs)
        if m:
            a, b = self.operand(st, m.group(2)), self.operand(st, m.group(3)); op = m.group(1)
            f = {'Gt': z3.UGT, 'Lt': z3.ULT, 'Ge': z3.UGE, 'Le': z3.ULE, 'Eq': lambda x, y: x == y, 'Ne': lambda x, y: x != y}
            if op in f: return z3.If(f[op](a, b), z3.BitVecVal(1, 1), z3.BitVecVal(0, 1))
            return {'Add': a + b, 'Sub': a - b, 'BitAnd': a & b, 'BitOr': a | b}[op]
        m = re.match(r'^(Add|Sub|Mul)WithOverflow\((.+), (.+)\)$', rhs)
        if m:
            a, b = self.operand(st, m.group(2)), self.operand(st, m.group(3)); w = a.size()
            ea, eb = z3.ZeroExt(w, a), z3.ZeroExt(w, b)
            wide = {'Add': ea + eb, 'Sub': ea - eb, 'Mul': ea * eb}[m.group(1)]
            res = z3.Extract(w - 1, 0, wide)
            ovf = z3.If(z3.Extract(2 * w - 1, w, wide) != 0, z3.BitVecVal(1, 1), z3.BitVecVal(0, 1))
            return Tup([res, ovf])
        m = re.match(r'^(.+) as (\w+) \(IntToInt\)$', rhs)
        if m:
            v = self.operand(st, m.group(1)); w = INT_W[m.group(2)]
            return v if v.size() == w else (z3.ZeroExt(w - v.size(), v) if v.size() < w else z3.Extract(w - 1, 0, v))
        m = re.match(r'^discriminant\((.+)\)$', rhs)
        if m:
            v = self.read_place(st, m.group(1))
            if isinstance(v, Enum): return z3.BitVecVal(VARIANT_IDX[v.variant], 64)
            raise Unsupported(f'discriminant of {v!r}')
        m = re.match(r'^&(?:mut )?(.+)$', rhs)
        if m: return Ref(m.group(1))
        m = re.match(r'^(?:[\w:]+::)?(?:<[^>]*>::)?(\w+)::<.*>::(\w+)(?:\((.*)\))?$', rhs) or re.match(r'^[\w:]*?(\w+)::(\w+)\((.*)\)$', rhs)
        if m and m.group(2)[0].isupper():                                       # enum aggregate  Result::<..>::Ok(move _3)
            args = [self.operand(st, a) for a in split_args(m.group(3) or '')]
            return Enum(m.group(2), args)
        m = re.match(r'^[\w:]*::<.*>::(None)$', rhs)
        if m: return Enum('None')
        if rhs.startswith('(') and rhs.endswith(')') and ':' not in rhs.split(',')[0]:
            return Tup([self.operand(st, a) for a in split_args(rhs[1:-1])])
        m = re.match(r'^(\w+) \{ (.*) \}$', rhs)
        if m:
            return Enum(m.group(1), [self.operand(st, f.split(': ', 1)[1]) for f in split_args(m.group(2))])
        if re.match(r'^(move |copy |const )', rhs): return self.operand(st, rhs)
        raise Unsupported('rvalue ' + rhs)
    # ---- main loop
    def run(self, bb, st):
        st.visits[bb] = st.visits.get(bb, 0) + 1
        if st.visits[bb] > self.bound: return
        st.trace.append(bb)
        for s in self.blocks[bb]:
            if re.match(r'^(StorageLive|StorageDead|nop|//|FakeRead|PlaceMention|Retag)', s): continue
            m = re.match(r'^switchInt\((.*)\) -> \[(.*)\];$', s)
            if m:
                v = self.operand(st, m.group(1)); seen = []
                for arm in m.group(2).split(', '):
                    k, tgt = arm.split(': ')
                    cond = z3.And([v != o for o in seen]) if k == 'otherwise' else (v == z3.BitVecVal(int(k), v.size()))
                    if k != 'otherwise': seen.append(z3.BitVecVal(int(k), v.size()))
                    sol = z3.Solver(); sol.add(st.pc + [cond])
                    if sol.check() == z3.sat:
                        n = st.fork(); n.pc.append(cond); self.run(tgt, n)
                return
            m = re.match(r'^goto -> (bb\d+);$', s)
            if m: self.run(m.group(1), st); return
            if s == 'return;': self.done.append(st); return
            if s in ('unreachable;', 'resume;'): return
            m = re.match(r'^assert\((!?)(.+?), ".*\) -> \[success: (bb\d+), unwind.*\];$', s)
            if m:
                v = self.operand(st, m.group(2)); ok = (v == 0) if m.group(1) else (v == 1)
                sol = z3.Solver(); sol.add(st.pc + [z3.Not(ok)])
                if sol.check() == z3.sat: st.events.append(('PANIC-POSSIBLE', s[:60], sol.model()))
                st.pc.append(ok); self.run(m.group(3), st); return
            m = re.match(r'^drop\(.*\) -> \[return: (bb\d+), unwind.*\];$', s)
            if m: self.run(m.group(1), st); return
            m = re.match(r'^(?:(.+?) = )?(.+)\((.*)\) -> \[return: (bb\d+), unwind.*\];$', s)
            if m:
                dst, callee, args, nxt = m.group(1), m.group(2), m.group(3), m.group(4)
                model = next((f for pat, f in self.models if re.search(pat, callee)), None)
                if model is None: raise Unsupported('call ' + callee)
                argv = [self.operand(st, a) for a in split_args(args)]
                for val, cons, ev in model(self, st, argv):
                    n = st.fork(); n.pc += cons
                    if ev: n.events.append(ev)
                    if dst: self.write_place(n, dst, val)
                    self.run(nxt, n)
                return
            m = re.match(r'^(.+?) = (.*);$', s)
            if m: self.write_place(st, m.group(1), self.rvalue(st, m.group(1), m.group(2))); continue
            raise Unsupported('statement ' + s)

def balanced(t):
    d = 0
    for ch in t:
        if ch == '(': d += 1
        if ch == ')':
            d -= 1
            if d < 0: return False
    return d == 0

def split_args(a):
    out, depth, cur = [], 0, ''
    for ch in a:
        if ch in '(<[': depth += 1
        if ch in ')>]': depth -= 1
        if ch == ',' and depth == 0: out.append(cur.strip()); cur = ''
        else: cur += ch
    if cur.strip(): out.append(cur.strip())
    return out

# ---------------- target: Wal::replay_committed_from_path
class PyVec:
    def __init__(self, items=()): self.items = list(items)
    def __repr__(self): return 'vec' + repr(self.items)

def deref(ex, st, x): return ex.read_place(st, x.place) if isinstance(x, Ref) else x
def m_as_ref(ex, st, a): return [(Opaque('path'), [], None)]
def m_open(ex, st, a): return [(Enum('Ok', [Opaque('reader')]), [], None), (Enum('Err', [Enum('Io')]), [], ('open', 'ioerror'))]
def m_branch(ex, st, a):
    v = a[0]
    if v.variant in ('Ok', 'Some'): return [(Enum('Continue', v.fields), [], None)]
    return [(Enum('Break', [v]), [], None)]
def m_from_residual(ex, st, a): return [(a[0], [], None)]
def m_vec_new(ex, st, a): return [(PyVec(), [], None)]
def m_vec_clear(ex, st, a):
    ex.write_place(st, a[0].place, PyVec()); return [(Tup([]), [], None)]
def m_vec_push(ex, st, a):
    v = deref(ex, st, a[0]); ex.write_place(st, a[0].place, PyVec(v.items + [a[1]])); return [(Tup([]), [], None)]
def m_take(ex, st, a):
    v = deref(ex, st, a[0]); ex.write_place(st, a[0].place, PyVec()); return [(v, [], None)]
def m_is_none(ex, st, a):
    v = deref(ex, st, a[0]); return [(z3.BitVecVal(1 if v.variant == 'None' else 0, 1), [], None)]
def m_opt_ne(ex, st, a):
    l, r = deref(ex, st, a[0]), deref(ex, st, a[1])
    if l.variant != r.variant: return [(z3.BitVecVal(1, 1), [], None)]
    if l.variant == 'None': return [(z3.BitVecVal(0, 1), [], None)]
    return [(z3.If(l.fields[0] != r.fields[0], z3.BitVecVal(1, 1), z3.BitVecVal(0, 1)), [], None)]
def m_next_record(ex, st, a):
    off = ex.fresh('off', 64)
    alts = [(Enum('Ok', [Enum('None')]), [], ('rec', 'END'))]
    for kind in ('BeginTx', 'CommitTx'):
        t = ex.fresh('txid', 64)
        alts.append((Enum('Ok', [Enum('Some', [Tup([off, Enum(kind, [t])])])]), [z3.ULE(t, 3), z3.UGE(t, 1)], ('rec', (kind, t))))
    alts.append((Enum('Ok', [Enum('Some', [Tup([off, Enum('OtherRecord', [ex.fresh('op', 64)])])])]), [], ('rec', ('Op', None))))
    alts.append((Enum('Err', [Enum('Io')]), [], ('rec', 'IOERR')))
    return alts

MODELS = [(r'AsRef<Path>>::as_ref', m_as_ref), (r'WalReader::open', m_open), (r'as Try>::branch', m_branch),
          (r'FromResidual', m_from_residual), (r'Vec::<\w+>::new', m_vec_new), (r'Vec::<\w+>::clear', m_vec_clear),
          (r'Vec::<\w+>::push', m_vec_push), (r'mem::take', m_take), (r'Option::<u64>::is_none', m_is_none),
          (r'Option<u64> as PartialEq>::ne', m_opt_ne), (r'WalReader::next_record', m_next_record)]
CONSTS = {}

def entails(pc, f):
    s = z3.Solver(); s.add(pc + [z3.Not(f)]); return s.check() == z3.unsat

def reference(pc, recs):
    """Reference bracket parser over a record sequence whose kinds are concrete and txids symbolic (decided under pc)."""
    out, cur, pend = [], None, []
    for r in recs:
        if r == 'END': return ('Ok', out)
        if r == 'IOERR': return ('Err', 'io')
        kind, t = r
        if kind == 'BeginTx': cur, pend = t, []
        elif kind == 'CommitTx':
            if cur is None or not entails(pc, cur == t):
                assert cur is None or entails(pc, cur != t), 'path did not decide txid equality'
                return ('Err', 'CommitTx without matching BeginTx')
            out.append((t, len(pend))); cur, pend = None, []
        else:
            if cur is None: return ('Err', 'op outside tx')
            pend.append(r)
    return None   # sequence not terminated within the bound

if __name__ == '__main__':
    bound = int(sys.argv[2]) if len(sys.argv) > 2 else 4
    fn = load_fn(sys.argv[1], r'^fn wal::<impl at .*>::replay_committed_from_path\(')
    blocks, types = parse(fn)
    ex = Exec(blocks, types, MODELS, CONSTS, bound=bound + 1)
    st = State(); ex.run('bb0', st)
    print(f'{len(ex.done)} feasible terminated paths (<= {bound} records each)')
    bad = agree = 0
    for p in ex.done:
        if any(e == ('open', 'ioerror') for e in p.events): continue
        recs = [e[1] for e in p.events if e[0] == 'rec']
        ret = p.env['_0']; want = reference(p.pc, recs)
        if ret.variant == 'Ok':
            got = ('Ok', [(tx.fields[0], len(tx.fields[1].items)) for tx in ret.fields[0].items])
            same = want[0] == 'Ok' and len(want[1]) == len(got[1]) and all(entails(p.pc, a[0] == b[0]) and a[1] == b[1] for a, b in zip(want[1], got[1]))
        else:
            same = want is not None and want[0] == 'Err'
        agree += same; bad += (not same)
        if not same: print('  DISAGREE', recs, ret, want)
    print(f'agree with the reference bracket parser on {agree} paths, disagree on {bad}')
    wf_err = 0
    for p in ex.done:
        recs = [e[1] for e in p.events if e[0] == 'rec']
        ret = p.env['_0']
        if ret.variant == 'Err' and 'IOERR' not in recs and not any(e == ('open', 'ioerror') for e in p.events): wf_err += 1
    print(f'paths returning a protocol error without any I/O fault: {wf_err} (each is a log shape that makes open fail)')
