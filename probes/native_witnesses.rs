use nervusdb::Db;
use nervusdb::query::{prepare, Params, Value};
use std::io::Write;

fn q(db: &Db, cy: &str) -> Result<Vec<Vec<(String, Value)>>, String> {
    let p = prepare(cy).map_err(|e| e.to_string())?;
    let snap = db.snapshot();
    let params = Params::new();
    let mut out = Vec::new();
    for r in p.execute_streaming(&snap, &params) {
        let r = r.map_err(|e| e.to_string())?;
        out.push(r.columns().to_vec());
    }
    Ok(out)
}
fn w(db: &Db, cy: &str) -> Result<u32, String> {
    let p = prepare(cy).map_err(|e| e.to_string())?;
    let snap = db.snapshot();
    let mut txn = db.begin_write();
    let (_r, n) = p.execute_mixed(&snap, &mut txn, &Params::new()).map_err(|e| e.to_string())?;
    txn.commit().map_err(|e| e.to_string())?;
    Ok(n)
}

#[test]
fn c17_zero_tail() {
    let d = tempfile::tempdir().unwrap();
    let p = d.path().join("g");
    { let db = Db::open(&p).unwrap(); w(&db, "CREATE (:A {x:1})").unwrap(); }
    let mut f = std::fs::OpenOptions::new().append(true).open(d.path().join("g.wal")).unwrap();
    f.write_all(&[0u8; 8]).unwrap(); drop(f);
    let r = Db::open(&p);
    println!("C17 zero tail: open => {:?}", r.as_ref().map(|_| "ok").map_err(|e| e.to_string()));
}
#[test]
fn c17_big_len_tail() {
    let d = tempfile::tempdir().unwrap();
    let p = d.path().join("g");
    { let db = Db::open(&p).unwrap(); w(&db, "CREATE (:A {x:1})").unwrap(); }
    let mut f = std::fs::OpenOptions::new().append(true).open(d.path().join("g.wal")).unwrap();
    f.write_all(&[0xFF, 0xFF, 0xFF, 0x7F]).unwrap(); drop(f);
    let r = Db::open(&p);
    println!("C17 big len tail: open => {:?}", r.as_ref().map(|_| "ok").map_err(|e| e.to_string()));
}
#[test]
fn c17_commit_after_garbage() {
    let d = tempfile::tempdir().unwrap();
    let p = d.path().join("g");
    { let db = Db::open(&p).unwrap(); w(&db, "CREATE (:A {x:1})").unwrap(); }
    let mut f = std::fs::OpenOptions::new().append(true).open(d.path().join("g.wal")).unwrap();
    f.write_all(&[0x01, 0x02]).unwrap(); drop(f);
    { let db = Db::open(&p).unwrap(); w(&db, "CREATE (:B {y:2})").unwrap();
      println!("C17 after garbage, same process: {:?}", q(&db, "MATCH (n) RETURN n.x AS x, n.y AS y, labels(n) AS l")); }
    let r = Db::open(&p);
    match r { Ok(db) => println!("C17 after garbage, reopened: {:?}", q(&db, "MATCH (n) RETURN n.x AS x, n.y AS y, labels(n) AS l")), Err(e) => println!("C17 after garbage reopen ERR {e}") }
}
#[test]
fn c22_distinct_swallows() {
    let d = tempfile::tempdir().unwrap();
    let db = Db::open(d.path().join("g")).unwrap();
    println!("C22 plain   : {:?}", q(&db, "UNWIND [true, 1] AS x RETURN toBoolean(x) AS b"));
    println!("C22 distinct: {:?}", q(&db, "UNWIND [true, 1] AS x RETURN DISTINCT toBoolean(x) AS b"));
    println!("C22 union   : {:?}", q(&db, "RETURN 1 AS b UNION UNWIND [1] AS x RETURN toBoolean(x) AS b"));
}
#[test]
fn c21_sum_wraps() {
    let d = tempfile::tempdir().unwrap();
    let db = Db::open(d.path().join("g")).unwrap();
    println!("C21 sum: {:?}", q(&db, "UNWIND [9223372036854775807, 1] AS x RETURN sum(x) AS s"));
    println!("C21 add: {:?}", q(&db, "RETURN 9223372036854775807 + 1 AS s"));
    println!("C21 group 0.0/-0.0: {:?}", q(&db, "UNWIND [0.0, -0.0] AS x RETURN x AS k, count(*) AS c"));
}
#[test]
fn c20_c23_boundary() {
    let d = tempfile::tempdir().unwrap();
    let db = Db::open(d.path().join("g")).unwrap();
    println!("C23 eq: {:?}", q(&db, "RETURN 9007199254740993 = 9007199254740992.0 AS a, 9007199254740992 = 9007199254740992.0 AS b, 9007199254740993 = 9007199254740992 AS c"));
    println!("C20 order: {:?}", q(&db, "UNWIND [9007199254740993, 9007199254740992.0, 9007199254740992] AS x RETURN x ORDER BY x"));
}
#[test]
fn c18_spill() {
    let d = tempfile::tempdir().unwrap();
    let p = d.path().join("g");
    {
        let db = Db::open(&p).unwrap();
        w(&db, "CREATE (:A {x:0})").unwrap();
        db.create_index("A", "x").unwrap();
        w(&db, "CREATE (:A {x:424242})").unwrap();   // index page(s) allocated right after the node table page
        for i in 0..6 { w(&db, &format!("UNWIND range(1,100) AS i CREATE (:A {{x: i + {}}})", i * 1000)).unwrap(); }
        println!("C18 before reopen count: {:?}", q(&db, "MATCH (n:A) RETURN count(n) AS c"));
        println!("C18 index lookup before: {:?}", q(&db, "MATCH (n:A) WHERE n.x = 424242 RETURN count(n) AS c"));
    }
    match Db::open(&p) {
        Ok(db) => {
            println!("C18 after reopen count: {:?}", q(&db, "MATCH (n:A) RETURN count(n) AS c"));
            println!("C18 index lookup after: {:?}", q(&db, "MATCH (n:A) WHERE n.x = 424242 RETURN count(n) AS c"));
        }
        Err(e) => println!("C18 reopen ERR: {e}"),
    }
}
#[test]
fn c28_vacuum_after_compaction() {
    let d = tempfile::tempdir().unwrap();
    let p = d.path().join("g");
    { let db = Db::open(&p).unwrap(); w(&db, "CREATE (:A)-[:R]->(:B)").unwrap(); db.compact().unwrap(); db.close().unwrap(); }
    println!("C28 vacuum: {:?}", nervusdb::vacuum(&p).map(|r| r.copied_data_pages).map_err(|e| e.to_string()));
}
#[test]
fn c05_incoming_after_edge_free_compaction() {
    let d = tempfile::tempdir().unwrap();
    let db = Db::open(d.path().join("g")).unwrap();
    w(&db, "CREATE (:A {x:1})").unwrap();
    db.compact().unwrap();
    let r = std::panic::catch_unwind(std::panic::AssertUnwindSafe(|| q(&db, "MATCH (a)<-[r]-(b) RETURN count(r) AS c")));
    println!("C05 incoming after edge-free compaction: {:?}", r.map_err(|_| "PANIC"));
}
#[test]
fn c04_multilabel_compact_reopen() {
    let d = tempfile::tempdir().unwrap();
    let p = d.path().join("g");
    { let db = Db::open(&p).unwrap(); w(&db, "CREATE (:A:B {x:1})").unwrap();
      println!("C04 labels before: {:?}", q(&db, "MATCH (n) RETURN labels(n) AS l"));
      db.compact().unwrap(); db.close().unwrap(); }
    let db = Db::open(&p).unwrap();
    println!("C04 labels after : {:?}", q(&db, "MATCH (n) RETURN labels(n) AS l"));
}
#[test]
fn c15_int_float_index() {
    let d = tempfile::tempdir().unwrap();
    let db = Db::open(d.path().join("g")).unwrap();
    db.create_index("A", "x").unwrap();
    w(&db, "CREATE (:A {x:1.0})").unwrap();
    w(&db, "CREATE (:A {x:2})").unwrap();
    println!("C15 with index   x=1: {:?}", q(&db, "MATCH (n:A) WHERE n.x = 1 RETURN count(n) AS c"));
    println!("C15 with index   x=2: {:?}", q(&db, "MATCH (n:A) WHERE n.x = 2 RETURN count(n) AS c"));
    let db2 = Db::open(d.path().join("h")).unwrap();
    w(&db2, "CREATE (:A {x:1.0})").unwrap();
    println!("C15 without index x=1: {:?}", q(&db2, "MATCH (n:A) WHERE n.x = 1 RETURN count(n) AS c"));
}

#[test]
fn c18_spill_props() {
    let d = tempfile::tempdir().unwrap();
    let p = d.path().join("g");
    let db = Db::open(&p).unwrap();
    w(&db, "CREATE (:A {x:0, name:'first'})-[:R]->(:A {x:1, name:'second'})").unwrap();
    db.compact().unwrap();      // segment, property B-tree and blobs are allocated right after the node-table page
    println!("C18p before growth: {:?}", q(&db, "MATCH (n:A) WHERE n.x < 2 RETURN n.x AS x, n.name AS name ORDER BY x"));
    println!("C18p edges before: {:?}", q(&db, "MATCH (a)-[r:R]->(b) RETURN count(r) AS c"));
    for i in 0..6 { w(&db, &format!("UNWIND range(1,100) AS i CREATE (:B {{y: i + {}}})", i * 1000)).unwrap(); }
    println!("C18p after growth : {:?}", q(&db, "MATCH (n:A) RETURN n.x AS x, n.name AS name ORDER BY x"));
    drop(db);
    match Db::open(&p) {
        Ok(db) => { println!("C18p after reopen : {:?}", q(&db, "MATCH (n:A) RETURN n.x AS x, n.name AS name ORDER BY x"));
                    println!("C18p edges after reopen: {:?}", q(&db, "MATCH (a)-[r:R]->(b) RETURN count(r) AS c")); }
        Err(e) => println!("C18p reopen ERR: {e}"),
    }
}
