// C18-O1: node-table record addressing. C04: record encode/decode round trip.
// Included from /repo/nervusdb-storage/src/idmap.rs under cfg(kani).
use super::*;

/// every record lies inside one page, page index is start + id / records_per_page, no arithmetic overflow
#[kani::proof]
#[kani::unwind(4)]
fn c18_o1_q_location_in_bounds() {
    let start: u64 = kani::any();
    kani::assume(start >= 2 && start < 65536);
    let id: u64 = kani::any();
    kani::assume(id <= u32::MAX as u64);
    let (page, off) = i2e_location(PageId::new(start), id).unwrap();
    kani::cover!(id >= 512, "witness: ids beyond the first page reachable");
    assert!(off + I2E_RECORD_SIZE <= PAGE_SIZE, "node table: record inside its page");
    assert!(off % I2E_RECORD_SIZE == 0, "node table: records do not overlap inside a page");
    assert!(page.as_u64() == start + id / (PAGE_SIZE as u64 / I2E_RECORD_SIZE as u64), "node table: page = start + id / 512");
}

/// two different node ids never share bytes
#[kani::proof]
#[kani::unwind(4)]
fn c18_o1_q_location_injective() {
    let start: u64 = kani::any();
    kani::assume(start >= 2 && start < 65536);
    let a: u64 = kani::any();
    let b: u64 = kani::any();
    kani::assume(a <= u32::MAX as u64 && b <= u32::MAX as u64 && a != b);
    let (pa, oa) = i2e_location(PageId::new(start), a).unwrap();
    let (pb, ob) = i2e_location(PageId::new(start), b).unwrap();
    kani::cover!(pa == pb, "witness: same page reachable");
    assert!(pa != pb || oa != ob, "node table: distinct ids have distinct slots");
}

/// ownership, part 1 (must pass): ids of the first page stay in the one page the allocator handed to the node table
#[kani::proof]
#[kani::unwind(4)]
fn c18_o2_q_first_page_ids_stay_in_owned_page() {
    let start: u64 = kani::any();
    kani::assume(start >= 2 && start < 65536);
    let id: u64 = kani::any();
    kani::assume(id < 512);
    let (page, _off) = i2e_location(PageId::new(start), id).unwrap();
    kani::cover!(id == 511, "witness: last slot of the first page reachable");
    assert!(page.as_u64() == start, "node table: record lies in the page allocate_page() returned for the table");
}

/// ownership, part 2 (known finding on the pinned commit): the node table owns exactly one allocated page
/// (apply_create_node_multi_label calls allocate_page once, when i2e_start is None), so every record must lie in it.
#[kani::proof]
#[kani::unwind(4)]
fn c18_o2_q_all_ids_stay_in_owned_page() {
    let start: u64 = kani::any();
    kani::assume(start >= 2 && start < 65536);
    let id: u64 = kani::any();
    kani::assume(id >= 512 && id <= u32::MAX as u64);
    let (page, _off) = i2e_location(PageId::new(start), id).unwrap();
    kani::cover!(true, "witness: reached");
    assert!(page.as_u64() == start, "node table: record lies in the page allocate_page() returned for the table");
}

/// C04-O2: the persisted node record round-trips bit-exactly
#[kani::proof]
#[kani::unwind(20)]
fn c04_o2_q_i2e_record_roundtrip() {
    let r = I2eRecord { external_id: kani::any(), label_id: kani::any(), flags: kani::any() };
    let bytes = r.encode();
    let back = I2eRecord::decode(&bytes);
    kani::cover!(true, "witness: reached");
    assert!(back == r, "node record: decode(encode(r)) == r");
}
