// C26: on-disk B-tree page kernels (real Page methods over real 8 KiB buffers).
// Included from /repo/nervusdb-storage/src/index/btree.rs under cfg(kani).
// Key layouts are concrete (1-byte keys over {1,2,3}, <= 4 cells); the probed key and payload are symbolic.
use super::*;

/// Build a leaf holding 1-byte keys `keys` (payload 100+i) with the real init_leaf + leaf_insert_at — the same calls
/// rebuild_leaf makes (init_leaf; set_right_sibling; leaf_insert_at(i, k, v) for i in order), without heap vectors,
/// which keeps the page image concrete for CBMC.
fn leaf_with(buf: &mut [u8; PAGE_SIZE], keys: &[u8]) {
    let mut page = Page::new(buf);
    page.init_leaf();
    let mut i = 0;
    while i < keys.len() {
        page.leaf_insert_at(i, &[keys[i]], 100 + i as u64).unwrap();
        i += 1;
    }
}

fn count_less(keys: &[u8], t: u8) -> usize {
    let mut n = 0;
    let mut i = 0;
    while i < keys.len() {
        if keys[i] < t {
            n += 1;
        }
        i += 1;
    }
    n
}

// ------------------------------------------------------------------ O1: lower bound
fn lower_bound_on(keys: &[u8]) {
    let mut buf = [0u8; PAGE_SIZE];
    leaf_with(&mut buf, keys);
    let t: u8 = kani::any();
    let page = Page::new(&mut buf);
    let lb = page.leaf_lower_bound(&[t]).unwrap();
    kani::cover!(lb > 0 && lb < keys.len(), "witness: interior position reachable");
    assert!(lb == count_less(keys, t), "btree: lower_bound = number of cells with key < target");
}
macro_rules! lb {
    ($name:ident, $keys:expr) => {
        #[kani::proof]
        #[kani::unwind(8)]
        fn $name() {
            lower_bound_on(&$keys);
        }
    };
}
lb!(c26_o1_t_lb_1223, [1u8, 2, 2, 3]);
lb!(c26_o1_t_lb_1133, [1u8, 1, 3, 3]);
lb!(c26_o1_a_lb_2222, [2u8, 2, 2, 2]);
lb!(c26_o1_t_lb_123, [1u8, 2, 3]);

#[kani::proof]
#[kani::unwind(8)]
fn c26_o1_t_lb_empty_and_single() {
    let mut buf = [0u8; PAGE_SIZE];
    Page::new(&mut buf).init_leaf();
    let t: u8 = kani::any();
    let lb0 = Page::new(&mut buf).leaf_lower_bound(&[t]).unwrap();
    leaf_with(&mut buf, &[2u8]);
    let lb1 = Page::new(&mut buf).leaf_lower_bound(&[t]).unwrap();
    kani::cover!(lb1 == 1, "witness: past-the-end reachable");
    assert!(lb0 == 0, "btree: lower_bound on an empty leaf is 0");
    assert!(lb1 == (t > 2) as usize, "btree: lower_bound on a single-cell leaf");
}

// ------------------------------------------------------------------ O2: insert at the lower bound
fn insert_on(keys: &[u8]) {
    let mut buf = [0u8; PAGE_SIZE];
    leaf_with(&mut buf, keys);
    let t: u8 = kani::any();
    let p: u64 = kani::any();
    let mut page = Page::new(&mut buf);
    let idx = page.leaf_lower_bound(&[t]).unwrap();
    page.leaf_insert_at(idx, &[t], p).unwrap();
    let n = keys.len();
    let ok_count = page.cell_count() == n + 1;
    // the new cell sits at idx (before older equal keys: newest first)
    let (k_new, p_new) = page.leaf_cell_key_and_payload(idx).unwrap();
    let ok_new = k_new.len() == 1 && k_new[0] == t && p_new == p;
    // every old cell is still there, in the old relative order, keys sorted
    let mut ok_old = true;
    let mut ok_sorted = true;
    let mut prev: u8 = 0;
    let mut i = 0;
    while i < n + 1 {
        let (k, v) = page.leaf_cell_key_and_payload(i).unwrap();
        ok_sorted &= k.len() == 1 && k[0] >= prev;
        prev = k[0];
        if i != idx {
            let j = if i < idx { i } else { i - 1 };
            ok_old &= k[0] == keys[j] && v == 100 + j as u64;
        }
        i += 1;
    }
    kani::cover!(idx > 0 && idx < n, "witness: interior insert reachable");
    kani::cover!(idx < n && keys[if idx < n { idx } else { 0 }] == t, "witness: duplicate key insert reachable");
    assert!(ok_count, "btree: insert adds exactly one cell");
    assert!(ok_new, "btree: the inserted pair is stored at its lower bound (newest first among equal keys)");
    assert!(ok_old, "btree: insert keeps every other pair and their order");
    assert!(ok_sorted, "btree: leaf keys stay sorted");
}
macro_rules! ins {
    ($name:ident, $keys:expr) => {
        #[kani::proof]
        #[kani::unwind(8)]
        fn $name() {
            insert_on(&$keys);
        }
    };
}
ins!(c26_o2_a_ins_123, [1u8, 2, 3]);
ins!(c26_o2_a_ins_22, [2u8, 2]);
ins!(c26_o2_a_ins_1223, [1u8, 2, 2, 3]);

// ------------------------------------------------------------------ O3: varint
#[kani::proof]
#[kani::unwind(7)]
fn c26_o3_q_varint_roundtrip() {
    let v: u32 = kani::any();
    let mut out = [0u8; 8];
    let n = write_varint_u32(v, &mut out);
    let r = read_varint_u32(&out);
    kani::cover!(v >= (1 << 28), "witness: 5-byte varint reachable");
    assert!(n == varint_u32_len(v), "varint: written length equals varint_u32_len");
    assert!(r == Some((v, n)), "varint: read(write(v)) == v");
}

// ------------------------------------------------------------------ O6: delete_from_leaf removes exactly one cell
fn delete_on(keys: &[u8]) {
    let mut buf = [0u8; PAGE_SIZE];
    leaf_with(&mut buf, keys);
    let n = keys.len();
    let idx: usize = kani::any();
    kani::assume(idx < n);
    let mut page = Page::new(&mut buf);
    page.delete_from_leaf(idx).unwrap();
    let ok_count = page.cell_count() == n - 1;
    let mut ok_rest = true;
    let mut i = 0;
    while i < n - 1 {
        let (k, v) = page.leaf_cell_key_and_payload(i).unwrap();
        let j = if i < idx { i } else { i + 1 };
        ok_rest &= k.len() == 1 && k[0] == keys[j] && v == 100 + j as u64;
        i += 1;
    }
    kani::cover!(idx > 0 && idx + 1 < n, "witness: interior delete reachable");
    assert!(ok_count, "btree: delete removes exactly one cell");
    assert!(ok_rest, "btree: delete keeps every other pair and their order");
}
#[kani::proof]
#[kani::unwind(8)]
fn c26_o6_a_delete_from_leaf_1223() {
    delete_on(&[1u8, 2, 2, 3]);
}

// ------------------------------------------------------------------ O4: descent after a split
/// Two-level tree built with the real rebuild_leaf/rebuild_internal exactly as BTree::insert's split does:
/// entries sorted, left = e[..mid], right = e[mid..], separator = right[0].key.
/// Obligation: internal_child_for_key(t) leads to the leaf that holds the first entry >= t (what
/// cursor_lower_bound and the next insert/delete of key t rely on).
fn descent_on(all: &[u8], in_left_expected: fn(u8) -> bool) {
    let mid = all.len() / 2;
    let sep = all[mid];
    let mut root = [0u8; PAGE_SIZE];
    {
        // what rebuild_internal does for one cell: init_internal(leftmost); internal_insert_at(0, sep, right)
        let mut r = Page::new(&mut root);
        r.init_internal(PageId::new(10));
        r.internal_insert_at(0, &[sep], PageId::new(11)).unwrap();
    }
    let t: u8 = kani::any();
    let (child, _pos) = Page::new(&mut root).internal_child_for_key(&[t]).unwrap();
    let goes_left = child.as_u64() == 10;
    kani::cover!(goes_left, "witness: left descent reachable");
    kani::cover!(!goes_left, "witness: right descent reachable");
    assert!(child.as_u64() == 10 || child.as_u64() == 11, "btree: descent returns one of the two children");
    assert!(goes_left == in_left_expected(t), "btree: descent reaches the leaf holding the first entry >= target");
}

/// distinct keys: separator 3, left [1,2], right [3,4]
#[kani::proof]
#[kani::unwind(8)]
fn c26_o4_t_descent_distinct_keys() {
    fn left(t: u8) -> bool {
        t <= 2
    }
    descent_on(&[1u8, 2, 3, 4], left);
}

/// duplicates straddling the split: [1,2 | 2,3], separator 2 — the first entry >= 2 is in the LEFT leaf
/// (known finding on the pinned commit: the descent goes right for t == separator)
#[kani::proof]
#[kani::unwind(8)]
fn c26_o4_t_descent_duplicates_straddle_split() {
    fn left(t: u8) -> bool {
        t <= 2
    }
    descent_on(&[1u8, 2, 2, 3], left);
}

/// complement of the finding: for targets different from the separator the descent is right
#[kani::proof]
#[kani::unwind(8)]
fn c26_o4_t_descent_duplicates_other_targets() {
    let mut root = [0u8; PAGE_SIZE];
    {
        let mut r = Page::new(&mut root);
        r.init_internal(PageId::new(10));
        r.internal_insert_at(0, &[2u8], PageId::new(11)).unwrap();
    }
    let t: u8 = kani::any();
    kani::assume(t != 2);
    let (child, _pos) = Page::new(&mut root).internal_child_for_key(&[t]).unwrap();
    kani::cover!(child.as_u64() == 10, "witness: left descent reachable");
    kani::cover!(child.as_u64() == 11, "witness: right descent reachable");
    assert!((child.as_u64() == 10) == (t < 2), "btree: descent for targets other than the separator");
}

// ------------------------------------------------------------------ O5: BTree::delete on a single-leaf tree
static mut PAGE0: [u8; PAGE_SIZE] = [0u8; PAGE_SIZE];
fn stub_read_page(_p: &Pager, _id: PageId) -> Result<[u8; PAGE_SIZE]> {
    Ok(unsafe { PAGE0 })
}
fn stub_write_page(_p: &mut Pager, _id: PageId, page: &[u8; PAGE_SIZE]) -> Result<()> {
    unsafe {
        PAGE0 = *page;
    }
    Ok(())
}
fn fake_pager() -> &'static mut Pager {
    // never dereferenced: read_page / write_page are stubbed in the harnesses below
    let layout = std::alloc::Layout::new::<Pager>();
    unsafe { &mut *(std::alloc::alloc(layout) as *mut Pager) }
}

/// two pairs with the SAME key, inserted through the real insert path (lower bound => newest first);
/// deleting either stored pair must find it and remove exactly that pair.
fn delete_equal_keys(p_old: u64, p_new: u64, delete_new: bool) {
    let mut buf = [0u8; PAGE_SIZE];
    {
        let mut page = Page::new(&mut buf);
        page.init_leaf();
        let i0 = page.leaf_lower_bound(&[7u8]).unwrap();
        page.leaf_insert_at(i0, &[7u8], p_old).unwrap();
        let i1 = page.leaf_lower_bound(&[7u8]).unwrap();
        page.leaf_insert_at(i1, &[7u8], p_new).unwrap();
    }
    unsafe {
        PAGE0 = buf;
    }
    let mut tree = BTree::load(PageId::new(5));
    let victim = if delete_new { p_new } else { p_old };
    let survivor = if delete_new { p_old } else { p_new };
    let r = tree.delete(fake_pager(), &[7u8], victim);
    let found = matches!(r, Ok(true));
    std::mem::forget(r);
    let mut after = unsafe { PAGE0 };
    let page = Page::new(&mut after);
    let left_one = page.cell_count() == 1;
    let survivor_ok = left_one && matches!(page.leaf_cell_key_and_payload(0), Ok((k, v)) if k.len() == 1 && k[0] == 7 && v == survivor);
    kani::cover!(true, "witness: reached");
    assert!(found, "btree: deleting a stored (key,payload) pair finds it");
    assert!(survivor_ok, "btree: delete removes exactly that pair");
}

/// payloads inserted in increasing order (the common case: growing node ids) — known finding on the pinned commit.
/// Quick tier: concrete payloads (10 then 20), the pair to delete is symbolic.
#[kani::proof]
#[kani::unwind(8)]
#[kani::stub(Pager::read_page, stub_read_page)]
#[kani::stub(Pager::write_page, stub_write_page)]
fn c26_o5_a_delete_equal_keys_increasing_payloads() {
    delete_equal_keys(10, 20, kani::any());
}

/// complement: payloads inserted in decreasing order are stored in ascending (key,payload) order — must pass
#[kani::proof]
#[kani::unwind(8)]
#[kani::stub(Pager::read_page, stub_read_page)]
#[kani::stub(Pager::write_page, stub_write_page)]
fn c26_o5_a_delete_equal_keys_decreasing_payloads() {
    delete_equal_keys(20, 10, kani::any());
}

/// thorough: symbolic payloads
#[kani::proof]
#[kani::unwind(8)]
#[kani::stub(Pager::read_page, stub_read_page)]
#[kani::stub(Pager::write_page, stub_write_page)]
fn c26_o5_a_delete_equal_keys_increasing_payloads_symbolic() {
    let a: u64 = kani::any();
    let b: u64 = kani::any();
    kani::assume(a < b);
    delete_equal_keys(a, b, kani::any());
}
#[kani::proof]
#[kani::unwind(8)]
#[kani::stub(Pager::read_page, stub_read_page)]
#[kani::stub(Pager::write_page, stub_write_page)]
fn c26_o5_a_delete_equal_keys_decreasing_payloads_symbolic() {
    let a: u64 = kani::any();
    let b: u64 = kani::any();
    kani::assume(a > b);
    delete_equal_keys(a, b, kani::any());
}

/// distinct keys: delete finds and removes exactly the pair — must pass
#[kani::proof]
#[kani::unwind(8)]
#[kani::stub(Pager::read_page, stub_read_page)]
#[kani::stub(Pager::write_page, stub_write_page)]
fn c26_o5_a_delete_distinct_keys() {
    let mut buf = [0u8; PAGE_SIZE];
    leaf_with(&mut buf, &[1u8, 2, 3]);
    unsafe {
        PAGE0 = buf;
    }
    let mut tree = BTree::load(PageId::new(5));
    let which: u8 = kani::any();
    kani::assume(which >= 1 && which <= 3);
    let r = tree.delete(fake_pager(), &[which], 100 + (which as u64 - 1));
    let found = matches!(r, Ok(true));
    std::mem::forget(r);
    let r2 = tree.delete(fake_pager(), &[which], 999);
    let not_found = matches!(r2, Ok(false));
    std::mem::forget(r2);
    let mut after = unsafe { PAGE0 };
    let page = Page::new(&mut after);
    let ok_count = page.cell_count() == 2;
    kani::cover!(which == 2, "witness: interior key reachable");
    assert!(found, "btree: deleting a stored (key,payload) pair finds it");
    assert!(not_found, "btree: deleting an absent pair reports false and changes nothing");
    assert!(ok_count, "btree: delete removes exactly that pair");
}

// ------------------------------------------------------------------ O7: the direct construction equals rebuild_*()
/// thorough: rebuild_leaf(entries) yields byte-for-byte the page that leaf_with() builds (so the quick harnesses above
/// run on exactly the page images BTree::insert's split writes)
#[kani::proof]
#[kani::unwind(8)]
fn c26_o7_a_rebuild_leaf_equals_direct_construction() {
    let mut a = [0u8; PAGE_SIZE];
    let mut b = [0u8; PAGE_SIZE];
    leaf_with(&mut a, &[1u8, 2]);
    let e = vec![(vec![1u8], 100u64), (vec![2u8], 101u64)];
    Page::new(&mut b).rebuild_leaf(PageId::new(0), &e);
    std::mem::forget(e);
    let i: usize = kani::any();
    kani::assume(i < PAGE_SIZE);
    kani::cover!(true, "witness: reached");
    assert!(a[i] == b[i], "btree: rebuild_leaf equals init_leaf + leaf_insert_at in order");
}

#[kani::proof]
#[kani::unwind(6)]
fn c26_o9_a_probe_style() {
    let mut buf = [0u8; PAGE_SIZE];
    let mut p = Page::new(&mut buf);
    p.init_leaf();
    p.leaf_insert_at(0, &[1], 100).unwrap();
    p.leaf_insert_at(1, &[2], 101).unwrap();
    p.leaf_insert_at(2, &[3], 102).unwrap();
    let t: u8 = kani::any();
    let i = p.leaf_lower_bound(&[t]).unwrap();
    let expect = (1 < t) as usize + (2 < t) as usize + (3 < t) as usize;
    kani::cover!(true, "witness: reached");
    assert!(i == expect, "btree: lower_bound = number of cells with key < target");
}
