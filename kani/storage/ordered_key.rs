// C27 (and the storage half of C15): index key encoding preserves order, equality, prefix-freeness.
// Included from /repo/nervusdb-storage/src/index/ordered_key.rs under cfg(kani).
// Naming: c<prop>_o<obligation>_<tier q|t|a>_<shape>; q = quick tier, t = thorough tier, a = attempt.
use super::*;

/// order/equality/prefix-freeness of two encodings against the value-level facts `lt`, `eq`.
fn laws(ea: Vec<u8>, eb: Vec<u8>, lt: bool, eq: bool) {
    let enc_lt = ea < eb;
    let enc_eq = ea == eb;
    let a_prefix_of_b = eb.starts_with(&ea);
    let b_prefix_of_a = ea.starts_with(&eb);
    std::mem::forget((ea, eb));
    kani::cover!(true, "witness: assertions reached");
    assert!(lt == enc_lt, "order: a<b iff enc(a)<enc(b)");
    assert!(eq == enc_eq, "equality: a==b iff enc(a)==enc(b)");
    assert!(eq || !a_prefix_of_b, "prefix: enc(a) not a proper prefix of enc(b)");
    assert!(eq || !b_prefix_of_a, "prefix: enc(b) not a proper prefix of enc(a)");
}

#[kani::proof]
#[kani::unwind(12)]
fn c27_o1_q_int_int() {
    let a: i64 = kani::any();
    let b: i64 = kani::any();
    laws(
        encode_ordered_value(&PropertyValue::Int(a)),
        encode_ordered_value(&PropertyValue::Int(b)),
        a < b,
        a == b,
    );
}

#[kani::proof]
#[kani::unwind(12)]
fn c27_o1_q_bool_bool() {
    let a: bool = kani::any();
    let b: bool = kani::any();
    laws(
        encode_ordered_value(&PropertyValue::Bool(a)),
        encode_ordered_value(&PropertyValue::Bool(b)),
        !a & b,
        a == b,
    );
}

#[kani::proof]
#[kani::unwind(12)]
fn c27_o1_q_datetime_datetime() {
    let a: i64 = kani::any();
    let b: i64 = kani::any();
    laws(
        encode_ordered_value(&PropertyValue::DateTime(a)),
        encode_ordered_value(&PropertyValue::DateTime(b)),
        a < b,
        a == b,
    );
}

#[kani::proof]
#[kani::unwind(12)]
fn c27_o2_q_float_float() {
    let a: f64 = kani::any();
    let b: f64 = kani::any();
    kani::assume(!a.is_nan() && !b.is_nan());
    laws(
        encode_ordered_value(&PropertyValue::Float(a)),
        encode_ordered_value(&PropertyValue::Float(b)),
        a < b,
        a == b,
    );
}

/// NaN keys: every NaN must at least encode to something that is not equal to / a prefix of a number's key.
#[kani::proof]
#[kani::unwind(12)]
fn c27_o2_q_float_nan_vs_number() {
    let a: f64 = kani::any();
    let b: f64 = kani::any();
    kani::assume(a.is_nan() && !b.is_nan());
    let ea = encode_ordered_value(&PropertyValue::Float(a));
    let eb = encode_ordered_value(&PropertyValue::Float(b));
    let same = ea == eb;
    let la = ea.len();
    let lb = eb.len();
    std::mem::forget((ea, eb));
    kani::cover!(true, "witness: reached");
    assert!(!same, "NaN key differs from every number key");
    assert!(la == 9 && lb == 9, "float keys have fixed width");
}

fn ascii_bytes<const N: usize>() -> [u8; N] {
    let a: [u8; N] = kani::any();
    let mut i = 0;
    while i < N {
        kani::assume(a[i] < 0x80);
        i += 1;
    }
    a
}

fn str_pair<const A: usize, const B: usize>() {
    let a = ascii_bytes::<A>();
    let b = ascii_bytes::<B>();
    // bytes < 0x80: every array is valid UTF-8, so from_utf8_unchecked is sound here.
    let sa = unsafe { String::from_utf8_unchecked(a.to_vec()) };
    let sb = unsafe { String::from_utf8_unchecked(b.to_vec()) };
    let ea = encode_ordered_value(&PropertyValue::String(sa));
    let eb = encode_ordered_value(&PropertyValue::String(sb));
    laws(ea, eb, a[..] < b[..], a[..] == b[..]);
}

fn blob_pair<const A: usize, const B: usize>() {
    let a: [u8; A] = kani::any();
    let b: [u8; B] = kani::any();
    let ea = encode_ordered_value(&PropertyValue::Blob(a.to_vec()));
    let eb = encode_ordered_value(&PropertyValue::Blob(b.to_vec()));
    laws(ea, eb, a[..] < b[..], a[..] == b[..]);
}

macro_rules! pair_harness {
    ($name:ident, $f:ident, $a:expr, $b:expr, $unwind:expr) => {
        #[kani::proof]
        #[kani::unwind($unwind)]
        fn $name() {
            $f::<$a, $b>();
        }
    };
}

// quick: lengths (0..2) x (0..2), symmetric pairs skipped (laws() is symmetric in a/b up to renaming
// except for the direction of `lt`; both directions are covered because a and b are both symbolic
// for equal lengths, and for unequal lengths both (A,B) and (B,A) are listed).
pair_harness!(c27_o3_q_str_0_0, str_pair, 0, 0, 10);
pair_harness!(c27_o3_q_str_0_1, str_pair, 0, 1, 10);
pair_harness!(c27_o3_q_str_1_0, str_pair, 1, 0, 10);
pair_harness!(c27_o3_q_str_1_1, str_pair, 1, 1, 10);
pair_harness!(c27_o3_q_str_1_2, str_pair, 1, 2, 10);
pair_harness!(c27_o3_q_str_2_1, str_pair, 2, 1, 10);
pair_harness!(c27_o3_q_str_2_2, str_pair, 2, 2, 10);
pair_harness!(c27_o3_q_str_0_2, str_pair, 0, 2, 10);
pair_harness!(c27_o3_q_str_2_0, str_pair, 2, 0, 10);
pair_harness!(c27_o3_q_blob_0_1, blob_pair, 0, 1, 10);
pair_harness!(c27_o3_q_blob_1_1, blob_pair, 1, 1, 10);
pair_harness!(c27_o3_q_blob_1_2, blob_pair, 1, 2, 10);
pair_harness!(c27_o3_q_blob_2_1, blob_pair, 2, 1, 10);
pair_harness!(c27_o3_q_blob_2_2, blob_pair, 2, 2, 10);
// thorough
pair_harness!(c27_o3_t_str_2_3, str_pair, 2, 3, 12);
pair_harness!(c27_o3_t_str_3_2, str_pair, 3, 2, 12);
pair_harness!(c27_o3_t_str_3_3, str_pair, 3, 3, 12);
pair_harness!(c27_o3_t_blob_3_3, blob_pair, 3, 3, 12);
pair_harness!(c27_o3_a_str_3_4, str_pair, 3, 4, 14);
pair_harness!(c27_o3_a_str_4_3, str_pair, 4, 3, 14);
pair_harness!(c27_o3_a_str_4_4, str_pair, 4, 4, 14);
pair_harness!(c27_o3_a_blob_4_4, blob_pair, 4, 4, 14);

/// O4: cross-kind — the first byte is a kind tag; tags are pairwise different and ordered
/// Null < Bool < Int < Float < String < DateTime < Blob, so no cross-kind prefix or equality.
fn tag_of(v: &PropertyValue) -> u8 {
    let e = encode_ordered_value(v);
    let t = e[0];
    let n = e.len();
    std::mem::forget(e);
    assert!(n >= 1);
    t
}

#[kani::proof]
#[kani::unwind(12)]
fn c27_o4_q_cross_kind_tags() {
    let t_null = tag_of(&PropertyValue::Null);
    let t_bool = tag_of(&PropertyValue::Bool(kani::any()));
    let t_int = tag_of(&PropertyValue::Int(kani::any()));
    let t_float = tag_of(&PropertyValue::Float(kani::any()));
    let s = ascii_bytes::<1>();
    let t_str = tag_of(&PropertyValue::String(unsafe {
        String::from_utf8_unchecked(s.to_vec())
    }));
    let t_dt = tag_of(&PropertyValue::DateTime(kani::any()));
    let b: [u8; 1] = kani::any();
    let t_blob = tag_of(&PropertyValue::Blob(b.to_vec()));
    kani::cover!(true, "witness: reached");
    assert!(t_null < t_bool, "tag order null<bool");
    assert!(t_bool < t_int, "tag order bool<int");
    assert!(t_int < t_float, "tag order int<float");
    assert!(t_float < t_str, "tag order float<string");
    assert!(t_str < t_dt, "tag order string<datetime");
    assert!(t_dt < t_blob, "tag order datetime<blob");
}

/// O5: the composite B-tree key `[index_id][enc(value)][node id]`: for one index and two Int values
/// the composite key order is (value, node id) order — needs prefix-freeness of enc(value).
#[kani::proof]
#[kani::unwind(24)]
fn c27_o5_q_composite_int() {
    let idx: u32 = kani::any();
    let a: i64 = kani::any();
    let b: i64 = kani::any();
    let na: u64 = kani::any();
    let nb: u64 = kani::any();
    let ka = encode_index_key(idx, &PropertyValue::Int(a), na);
    let kb = encode_index_key(idx, &PropertyValue::Int(b), nb);
    let lt = (a, na) < (b, nb);
    let eq = (a, na) == (b, nb);
    laws(ka, kb, lt, eq);
}

#[kani::proof]
#[kani::unwind(24)]
fn c27_o5_t_composite_str_1_2() {
    let idx: u32 = kani::any();
    let a = ascii_bytes::<1>();
    let b = ascii_bytes::<2>();
    let na: u64 = kani::any();
    let nb: u64 = kani::any();
    let sa = unsafe { String::from_utf8_unchecked(a.to_vec()) };
    let sb = unsafe { String::from_utf8_unchecked(b.to_vec()) };
    let ka = encode_index_key(idx, &PropertyValue::String(sa), na);
    let kb = encode_index_key(idx, &PropertyValue::String(sb), nb);
    let lt = a[..] < b[..];
    let enc_lt = ka < kb;
    std::mem::forget((ka, kb));
    kani::cover!(lt, "witness: a<b reachable");
    kani::cover!(!lt, "witness: a>b reachable");
    // values differ in length, hence differ; the node ids must never decide the order
    assert!(lt == enc_lt, "composite order decided by value, not by node id");
}
