// C18-O3: allocator bitmap kernels on the real 8 KiB bitmap.
// Included from /repo/nervusdb-storage/src/pager.rs under cfg(kani).
use super::*;

fn bitmap_with_window(base: usize) -> Bitmap {
    // bytes outside a symbolic 4-byte window are concrete zero (plus the two reserved bits set by new())
    let mut b = Bitmap::new();
    let w: [u8; 4] = kani::any();
    b.data[base] |= w[0];
    b.data[base + 1] = w[1];
    b.data[base + 2] = w[2];
    b.data[base + 3] = w[3];
    b
}

/// set_bit changes exactly bit i; get_bit reads it back
#[kani::proof]
#[kani::unwind(6)]
fn c18_o3_q_set_get_bit() {
    let mut b = bitmap_with_window(0);
    let i: u64 = kani::any();
    let j: u64 = kani::any();
    kani::assume(i < 64 && j < 64 && i != j);
    let v: bool = kani::any();
    let before_j = b.get_bit(j);
    b.set_bit(i, v);
    kani::cover!(true, "witness: reached");
    assert!(b.get_bit(i) == v, "bitmap: set_bit then get_bit reads the value");
    assert!(b.get_bit(j) == before_j, "bitmap: set_bit leaves every other bit unchanged");
}

/// set_bit / get_bit address arithmetic for any bit of the bitmap (byte index in range, mask single bit)
#[kani::proof]
#[kani::unwind(6)]
fn c18_o3_q_set_get_bit_any_index() {
    let mut b = Bitmap::new();
    let i: u64 = kani::any();
    kani::assume(i >= 2 && i < BITMAP_BITS);
    let j: u64 = kani::any();
    kani::assume(j < BITMAP_BITS && j != i);
    let before_j = b.get_bit(j);
    b.set_bit(i, true);
    kani::cover!(i == BITMAP_BITS - 1, "witness: last bit reachable");
    assert!(b.get_bit(i), "bitmap: set bit reads back");
    assert!(b.get_bit(j) == before_j, "bitmap: other bits unchanged");
    b.set_bit(i, false);
    assert!(!b.get_bit(i), "bitmap: cleared bit reads back");
}

/// find_free_in_range(2, n) returns the least clear bit in [2, n) or None
#[kani::proof]
#[kani::unwind(36)]
fn c18_o3_q_find_free_least() {
    let b = bitmap_with_window(0);
    let n: u64 = kani::any();
    kani::assume(n <= 32);
    let r = b.find_free_in_range(2, n);
    kani::cover!(r.is_some(), "witness: free bit found reachable");
    kani::cover!(r.is_none() && n > 2, "witness: full range reachable");
    match r {
        Some(k) => {
            assert!(k >= 2 && k < n, "allocator: candidate inside the scanned range (never page 0/1)");
            assert!(!b.get_bit(k), "allocator: candidate page was free");
            let m: u64 = kani::any();
            kani::assume(m >= 2 && m < k);
            assert!(b.get_bit(m), "allocator: candidate is the least free page");
        }
        None => {
            let m: u64 = kani::any();
            kani::assume(m >= 2 && m < n);
            assert!(b.get_bit(m), "allocator: None only if every page in range is allocated");
        }
    }
}

/// a fresh bitmap reserves exactly the meta and bitmap pages
#[kani::proof]
#[kani::unwind(6)]
fn c18_o3_q_new_bitmap_reserves_meta_pages() {
    let b = Bitmap::new();
    let i: u64 = kani::any();
    kani::assume(i < BITMAP_BITS);
    kani::cover!(i > 1, "witness: data page reachable");
    assert!(b.get_bit(i) == (i < 2), "bitmap: only pages 0 and 1 are allocated in a fresh file");
}
