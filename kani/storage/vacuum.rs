// (no Kani harnesses: std BTreeSet under symbolic inserts does not terminate in CBMC; C28 is handled by E2 or not at all)
