// C25-O4: WAL record encode_body/decode_body round trips; C17-O4 / C25-O5: decode_body never panics on any body.
// Included from /repo/nervusdb-storage/src/wal.rs under cfg(kani).
use super::*;

// Round trips compare field by field (pattern + condition) instead of the derived `==` on WalRecord, whose recursive
// PartialEq over PropertyValue / 8 KiB page boxes makes CBMC unroll code the obligation does not need.
macro_rules! rt {
    ($name:ident, $ty:expr, $n:expr, [$($v:ident : $t:ty),*], $mk:expr, $pat:pat => $cond:expr) => {
        #[kani::proof]
        #[kani::unwind(40)]
        fn $name() {
            $(let $v: $t = kani::any();)*
            let r = $mk;
            let body = r.encode_body();
            let enc = match &body {
                Ok(b) => b,
                Err(_) => {
                    assert!(false, "wal record: encode_body succeeds");
                    return;
                }
            };
            // move the encoding into a fixed array; the record type byte is asserted and then pinned to its constant so that
            // CBMC explores only the matching arm of decode_body (the other 16 arms are irrelevant to this record kind)
            assert!(enc.len() == $n, "wal record: encoded length");
            let mut buf = [0u8; $n];
            buf.copy_from_slice(enc);
            assert!(buf[0] == $ty, "wal record: encoded type byte");
            buf[0] = $ty;
            let d = WalRecord::decode_body(&buf);
            let ok = match &d {
                Ok($pat) => $cond,
                _ => false,
            };
            std::mem::forget(d);
            std::mem::forget((body, r));
            kani::cover!(true, "witness: reached");
            assert!(ok, "wal record: decode_body(encode_body(r)) == r");
        }
    };
}
rt!(c25_o4_q_rt_begin, 1, 9, [t: u64], WalRecord::BeginTx { txid: t }, WalRecord::BeginTx { txid } => *txid == t);
rt!(c25_o4_q_rt_commit, 2, 9, [t: u64], WalRecord::CommitTx { txid: t }, WalRecord::CommitTx { txid } => *txid == t);
rt!(c25_o4_q_rt_page_free, 4, 9, [p: u64], WalRecord::PageFree { page_id: p }, WalRecord::PageFree { page_id } => *page_id == p);
rt!(c25_o4_q_rt_create_node, 5, 17, [e: u64, l: u32, i: u32],
    WalRecord::CreateNode { external_id: e, label_id: l, internal_id: i },
    WalRecord::CreateNode { external_id, label_id, internal_id } => *external_id == e && *label_id == l && *internal_id == i);
rt!(c25_o4_q_rt_add_label, 16, 9, [n: u32, l: u32], WalRecord::AddNodeLabel { node: n, label_id: l },
    WalRecord::AddNodeLabel { node, label_id } => *node == n && *label_id == l);
rt!(c25_o4_q_rt_remove_label, 17, 9, [n: u32, l: u32], WalRecord::RemoveNodeLabel { node: n, label_id: l },
    WalRecord::RemoveNodeLabel { node, label_id } => *node == n && *label_id == l);
rt!(c25_o4_q_rt_create_edge, 6, 13, [a: u32, r0: u32, b0: u32], WalRecord::CreateEdge { src: a, rel: r0, dst: b0 },
    WalRecord::CreateEdge { src, rel, dst } => *src == a && *rel == r0 && *dst == b0);
rt!(c25_o4_q_rt_tombstone_node, 7, 5, [n: u32], WalRecord::TombstoneNode { node: n }, WalRecord::TombstoneNode { node } => *node == n);
rt!(c25_o4_q_rt_tombstone_edge, 8, 13, [a: u32, r0: u32, b0: u32], WalRecord::TombstoneEdge { src: a, rel: r0, dst: b0 },
    WalRecord::TombstoneEdge { src, rel, dst } => *src == a && *rel == r0 && *dst == b0);
rt!(c25_o4_q_rt_checkpoint, 10, 33, [u: u64, e: u64, p: u64, s0: u64],
    WalRecord::Checkpoint { up_to_txid: u, epoch: e, properties_root: p, stats_root: s0 },
    WalRecord::Checkpoint { up_to_txid, epoch, properties_root, stats_root } => *up_to_txid == u && *epoch == e && *properties_root == p && *stats_root == s0);
rt!(c25_o4_q_rt_manifest_0, 9, 29, [e: u64, p: u64, s0: u64],
    WalRecord::ManifestSwitch { epoch: e, segments: Vec::new(), properties_root: p, stats_root: s0 },
    WalRecord::ManifestSwitch { epoch, segments, properties_root, stats_root } => *epoch == e && segments.is_empty() && *properties_root == p && *stats_root == s0);
rt!(c25_o4_t_rt_manifest_1, 9, 45, [e: u64, p: u64, s0: u64, i: u64, m: u64],
    WalRecord::ManifestSwitch { epoch: e, segments: vec![SegmentPointer { id: i, meta_page_id: m }], properties_root: p, stats_root: s0 },
    WalRecord::ManifestSwitch { epoch, segments, properties_root, stats_root } =>
        *epoch == e && segments.len() == 1 && segments[0].id == i && segments[0].meta_page_id == m && *properties_root == p && *stats_root == s0);
rt!(c25_o4_t_rt_manifest_2, 9, 61, [e: u64, p: u64, s0: u64, i: u64, m: u64, i2: u64, m2: u64],
    WalRecord::ManifestSwitch { epoch: e, segments: vec![SegmentPointer { id: i, meta_page_id: m }, SegmentPointer { id: i2, meta_page_id: m2 }], properties_root: p, stats_root: s0 },
    WalRecord::ManifestSwitch { epoch, segments, properties_root, stats_root } =>
        *epoch == e && segments.len() == 2 && segments[0].id == i && segments[1].id == i2 && segments[1].meta_page_id == m2 && segments[0].meta_page_id == m
            && *properties_root == p && *stats_root == s0);

fn ascii<const N: usize>() -> String {
    let a: [u8; N] = kani::any();
    let mut i = 0;
    while i < N {
        kani::assume(a[i] < 0x80);
        i += 1;
    }
    unsafe { String::from_utf8_unchecked(a.to_vec()) }
}
rt!(c25_o4_a_rt_create_label_0, 15, 9, [l: u32], WalRecord::CreateLabel { name: String::new(), label_id: l },
    WalRecord::CreateLabel { name, label_id } => name.is_empty() && *label_id == l);
rt!(c25_o4_a_rt_create_label_1, 15, 10, [l: u32, c: u8], WalRecord::CreateLabel { name: { kani::assume(c < 0x80); unsafe { String::from_utf8_unchecked(vec![c]) } }, label_id: l },
    WalRecord::CreateLabel { name, label_id } => name.len() == 1 && name.as_bytes()[0] == c && *label_id == l);
rt!(c25_o4_a_rt_remove_node_prop_1, 13, 10, [n: u32, c: u8], WalRecord::RemoveNodeProperty { node: n, key: { kani::assume(c < 0x80); unsafe { String::from_utf8_unchecked(vec![c]) } } },
    WalRecord::RemoveNodeProperty { node, key } => *node == n && key.len() == 1 && key.as_bytes()[0] == c);
rt!(c25_o4_a_rt_set_node_prop_int, 11, 19, [n: u32, c: u8, v: i64],
    WalRecord::SetNodeProperty { node: n, key: { kani::assume(c < 0x80); unsafe { String::from_utf8_unchecked(vec![c]) } }, value: PropertyValue::Int(v) },
    WalRecord::SetNodeProperty { node, key, value } => *node == n && key.len() == 1 && key.as_bytes()[0] == c && matches!(value, PropertyValue::Int(x) if *x == v));

// ---------------------------------------------------------------- decode_body never panics
/// record type byte concrete, every other body byte symbolic
fn dec_body<const N: usize>(ty: u8) {
    let mut b: [u8; N] = kani::any();
    if N > 0 {
        b[0] = ty;
    }
    let r = WalRecord::decode_body(&b);
    std::mem::forget(r);
    kani::cover!(true, "witness: decode_body returned");
}
/// variable-length records: one embedded u32 length/count field at `off` (body offset) is concrete
fn dec_body_len<const N: usize>(ty: u8, off: usize, len: u32) {
    let mut b: [u8; N] = kani::any();
    b[0] = ty;
    let l = len.to_le_bytes();
    b[off] = l[0];
    b[off + 1] = l[1];
    b[off + 2] = l[2];
    b[off + 3] = l[3];
    let r = WalRecord::decode_body(&b);
    std::mem::forget(r);
    kani::cover!(true, "witness: decode_body returned");
}
macro_rules! dec {
    ($name:ident, $f:ident, $n:expr, $($arg:expr),*) => {
        #[kani::proof]
        #[kani::unwind(48)]
        fn $name() {
            $f::<$n>($($arg),*);
        }
    };
}

dec!(c17_o4_t_ty1_n0, dec_body, 0, 1);
dec!(c17_o4_q_ty1_n1, dec_body, 1, 1);
dec!(c17_o4_t_ty1_n2, dec_body, 2, 1);
dec!(c17_o4_q_ty1_n8, dec_body, 8, 1);
dec!(c17_o4_q_ty1_n9, dec_body, 9, 1);
dec!(c17_o4_q_ty1_n10, dec_body, 10, 1);
dec!(c17_o4_t_ty2_n0, dec_body, 0, 2);
dec!(c17_o4_q_ty2_n1, dec_body, 1, 2);
dec!(c17_o4_t_ty2_n2, dec_body, 2, 2);
dec!(c17_o4_q_ty2_n8, dec_body, 8, 2);
dec!(c17_o4_q_ty2_n9, dec_body, 9, 2);
dec!(c17_o4_q_ty2_n10, dec_body, 10, 2);
dec!(c17_o4_t_ty4_n0, dec_body, 0, 4);
dec!(c17_o4_q_ty4_n1, dec_body, 1, 4);
dec!(c17_o4_t_ty4_n2, dec_body, 2, 4);
dec!(c17_o4_q_ty4_n8, dec_body, 8, 4);
dec!(c17_o4_q_ty4_n9, dec_body, 9, 4);
dec!(c17_o4_q_ty4_n10, dec_body, 10, 4);
dec!(c17_o4_t_ty5_n0, dec_body, 0, 5);
dec!(c17_o4_q_ty5_n1, dec_body, 1, 5);
dec!(c17_o4_t_ty5_n2, dec_body, 2, 5);
dec!(c17_o4_q_ty5_n16, dec_body, 16, 5);
dec!(c17_o4_q_ty5_n17, dec_body, 17, 5);
dec!(c17_o4_q_ty5_n18, dec_body, 18, 5);
dec!(c17_o4_t_ty16_n0, dec_body, 0, 16);
dec!(c17_o4_q_ty16_n1, dec_body, 1, 16);
dec!(c17_o4_t_ty16_n2, dec_body, 2, 16);
dec!(c17_o4_q_ty16_n8, dec_body, 8, 16);
dec!(c17_o4_q_ty16_n9, dec_body, 9, 16);
dec!(c17_o4_q_ty16_n10, dec_body, 10, 16);
dec!(c17_o4_t_ty17_n0, dec_body, 0, 17);
dec!(c17_o4_q_ty17_n1, dec_body, 1, 17);
dec!(c17_o4_t_ty17_n2, dec_body, 2, 17);
dec!(c17_o4_q_ty17_n8, dec_body, 8, 17);
dec!(c17_o4_q_ty17_n9, dec_body, 9, 17);
dec!(c17_o4_q_ty17_n10, dec_body, 10, 17);
dec!(c17_o4_t_ty6_n0, dec_body, 0, 6);
dec!(c17_o4_q_ty6_n1, dec_body, 1, 6);
dec!(c17_o4_t_ty6_n2, dec_body, 2, 6);
dec!(c17_o4_q_ty6_n12, dec_body, 12, 6);
dec!(c17_o4_q_ty6_n13, dec_body, 13, 6);
dec!(c17_o4_q_ty6_n14, dec_body, 14, 6);
dec!(c17_o4_t_ty7_n0, dec_body, 0, 7);
dec!(c17_o4_q_ty7_n1, dec_body, 1, 7);
dec!(c17_o4_t_ty7_n2, dec_body, 2, 7);
dec!(c17_o4_q_ty7_n4, dec_body, 4, 7);
dec!(c17_o4_q_ty7_n5, dec_body, 5, 7);
dec!(c17_o4_q_ty7_n6, dec_body, 6, 7);
dec!(c17_o4_t_ty8_n0, dec_body, 0, 8);
dec!(c17_o4_q_ty8_n1, dec_body, 1, 8);
dec!(c17_o4_t_ty8_n2, dec_body, 2, 8);
dec!(c17_o4_q_ty8_n12, dec_body, 12, 8);
dec!(c17_o4_q_ty8_n13, dec_body, 13, 8);
dec!(c17_o4_q_ty8_n14, dec_body, 14, 8);
dec!(c17_o4_t_ty10_n0, dec_body, 0, 10);
dec!(c17_o4_q_ty10_n1, dec_body, 1, 10);
dec!(c17_o4_t_ty10_n2, dec_body, 2, 10);
dec!(c17_o4_q_ty10_n32, dec_body, 32, 10);
dec!(c17_o4_q_ty10_n33, dec_body, 33, 10);
dec!(c17_o4_q_ty10_n34, dec_body, 34, 10);
dec!(c17_o4_q_ty0_n1, dec_body, 1, 0);
dec!(c17_o4_t_ty0_n2, dec_body, 2, 0);
dec!(c17_o4_q_ty0_n9, dec_body, 9, 0);
dec!(c17_o4_t_ty0_n24, dec_body, 24, 0);
dec!(c17_o4_q_ty18_n1, dec_body, 1, 18);
dec!(c17_o4_t_ty18_n2, dec_body, 2, 18);
dec!(c17_o4_q_ty18_n9, dec_body, 9, 18);
dec!(c17_o4_t_ty18_n24, dec_body, 24, 18);
dec!(c17_o4_q_ty255_n1, dec_body, 1, 255);
dec!(c17_o4_t_ty255_n2, dec_body, 2, 255);
dec!(c17_o4_q_ty255_n9, dec_body, 9, 255);
dec!(c17_o4_t_ty255_n24, dec_body, 24, 255);
dec!(c17_o4_q_ty3_n1, dec_body, 1, 3);
dec!(c17_o4_t_ty3_n2, dec_body, 2, 3);
dec!(c17_o4_q_ty3_n9, dec_body, 9, 3);
dec!(c17_o4_t_ty3_n24, dec_body, 24, 3);
dec!(c17_o4_q_ty15_n1, dec_body, 1, 15);
dec!(c17_o4_q_ty15_n8, dec_body, 8, 15);
dec!(c17_o4_q_ty15_n9_len0, dec_body_len, 9, 15, 5, 0u32);
dec!(c17_o4_q_ty15_n10_len0, dec_body_len, 10, 15, 5, 0u32);
dec!(c17_o4_t_ty15_n12_len0, dec_body_len, 12, 15, 5, 0u32);
dec!(c17_o4_q_ty15_n9_len1, dec_body_len, 9, 15, 5, 1u32);
dec!(c17_o4_t_ty15_n10_len1, dec_body_len, 10, 15, 5, 1u32);
dec!(c17_o4_t_ty15_n11_len1, dec_body_len, 11, 15, 5, 1u32);
dec!(c17_o4_t_ty15_n12_len1, dec_body_len, 12, 15, 5, 1u32);
dec!(c17_o4_q_ty15_n9_len2, dec_body_len, 9, 15, 5, 2u32);
dec!(c17_o4_t_ty15_n11_len2, dec_body_len, 11, 15, 5, 2u32);
dec!(c17_o4_t_ty15_n12_len2, dec_body_len, 12, 15, 5, 2u32);
dec!(c17_o4_q_ty15_n9_len3, dec_body_len, 9, 15, 5, 3u32);
dec!(c17_o4_a_ty15_n12_len3, dec_body_len, 12, 15, 5, 3u32);
dec!(c17_o4_a_ty15_n13_len3, dec_body_len, 13, 15, 5, 3u32);
dec!(c17_o4_t_ty15_n9_len2147483648, dec_body_len, 9, 15, 5, 2147483648u32);
dec!(c17_o4_t_ty15_n10_len2147483648, dec_body_len, 10, 15, 5, 2147483648u32);
dec!(c17_o4_t_ty15_n12_len2147483648, dec_body_len, 12, 15, 5, 2147483648u32);
dec!(c17_o4_q_ty15_n9_len4294967295, dec_body_len, 9, 15, 5, 4294967295u32);
dec!(c17_o4_q_ty15_n10_len4294967295, dec_body_len, 10, 15, 5, 4294967295u32);
dec!(c17_o4_t_ty15_n12_len4294967295, dec_body_len, 12, 15, 5, 4294967295u32);
dec!(c17_o4_q_ty13_n1, dec_body, 1, 13);
dec!(c17_o4_q_ty13_n8, dec_body, 8, 13);
dec!(c17_o4_q_ty13_n9_len0, dec_body_len, 9, 13, 5, 0u32);
dec!(c17_o4_q_ty13_n10_len0, dec_body_len, 10, 13, 5, 0u32);
dec!(c17_o4_t_ty13_n12_len0, dec_body_len, 12, 13, 5, 0u32);
dec!(c17_o4_q_ty13_n9_len1, dec_body_len, 9, 13, 5, 1u32);
dec!(c17_o4_t_ty13_n10_len1, dec_body_len, 10, 13, 5, 1u32);
dec!(c17_o4_t_ty13_n11_len1, dec_body_len, 11, 13, 5, 1u32);
dec!(c17_o4_t_ty13_n12_len1, dec_body_len, 12, 13, 5, 1u32);
dec!(c17_o4_q_ty13_n9_len2, dec_body_len, 9, 13, 5, 2u32);
dec!(c17_o4_t_ty13_n11_len2, dec_body_len, 11, 13, 5, 2u32);
dec!(c17_o4_t_ty13_n12_len2, dec_body_len, 12, 13, 5, 2u32);
dec!(c17_o4_q_ty13_n9_len3, dec_body_len, 9, 13, 5, 3u32);
dec!(c17_o4_a_ty13_n12_len3, dec_body_len, 12, 13, 5, 3u32);
dec!(c17_o4_t_ty13_n13_len3, dec_body_len, 13, 13, 5, 3u32);
dec!(c17_o4_t_ty13_n9_len2147483648, dec_body_len, 9, 13, 5, 2147483648u32);
dec!(c17_o4_t_ty13_n10_len2147483648, dec_body_len, 10, 13, 5, 2147483648u32);
dec!(c17_o4_t_ty13_n12_len2147483648, dec_body_len, 12, 13, 5, 2147483648u32);
dec!(c17_o4_q_ty13_n9_len4294967295, dec_body_len, 9, 13, 5, 4294967295u32);
dec!(c17_o4_q_ty13_n10_len4294967295, dec_body_len, 10, 13, 5, 4294967295u32);
dec!(c17_o4_t_ty13_n12_len4294967295, dec_body_len, 12, 13, 5, 4294967295u32);
dec!(c17_o4_q_ty14_n1, dec_body, 1, 14);
dec!(c17_o4_q_ty14_n16, dec_body, 16, 14);
dec!(c17_o4_q_ty14_n17_len0, dec_body_len, 17, 14, 13, 0u32);
dec!(c17_o4_q_ty14_n18_len0, dec_body_len, 18, 14, 13, 0u32);
dec!(c17_o4_t_ty14_n20_len0, dec_body_len, 20, 14, 13, 0u32);
dec!(c17_o4_q_ty14_n17_len1, dec_body_len, 17, 14, 13, 1u32);
dec!(c17_o4_t_ty14_n18_len1, dec_body_len, 18, 14, 13, 1u32);
dec!(c17_o4_t_ty14_n19_len1, dec_body_len, 19, 14, 13, 1u32);
dec!(c17_o4_t_ty14_n20_len1, dec_body_len, 20, 14, 13, 1u32);
dec!(c17_o4_q_ty14_n17_len2, dec_body_len, 17, 14, 13, 2u32);
dec!(c17_o4_a_ty14_n19_len2, dec_body_len, 19, 14, 13, 2u32);
dec!(c17_o4_t_ty14_n20_len2, dec_body_len, 20, 14, 13, 2u32);
dec!(c17_o4_q_ty14_n17_len3, dec_body_len, 17, 14, 13, 3u32);
dec!(c17_o4_a_ty14_n20_len3, dec_body_len, 20, 14, 13, 3u32);
dec!(c17_o4_t_ty14_n21_len3, dec_body_len, 21, 14, 13, 3u32);
dec!(c17_o4_t_ty14_n17_len2147483648, dec_body_len, 17, 14, 13, 2147483648u32);
dec!(c17_o4_t_ty14_n18_len2147483648, dec_body_len, 18, 14, 13, 2147483648u32);
dec!(c17_o4_t_ty14_n20_len2147483648, dec_body_len, 20, 14, 13, 2147483648u32);
dec!(c17_o4_q_ty14_n17_len4294967295, dec_body_len, 17, 14, 13, 4294967295u32);
dec!(c17_o4_q_ty14_n18_len4294967295, dec_body_len, 18, 14, 13, 4294967295u32);
dec!(c17_o4_t_ty14_n20_len4294967295, dec_body_len, 20, 14, 13, 4294967295u32);
dec!(c17_o4_q_ty11_n1, dec_body, 1, 11);
dec!(c17_o4_q_ty11_n8, dec_body, 8, 11);
dec!(c17_o4_q_ty11_n9_len0, dec_body_len, 9, 11, 5, 0u32);
dec!(c17_o4_t_ty11_n10_len0, dec_body_len, 10, 11, 5, 0u32);
dec!(c17_o4_a_ty11_n12_len0, dec_body_len, 12, 11, 5, 0u32);
dec!(c17_o4_q_ty11_n9_len1, dec_body_len, 9, 11, 5, 1u32);
dec!(c17_o4_t_ty11_n10_len1, dec_body_len, 10, 11, 5, 1u32);
dec!(c17_o4_t_ty11_n11_len1, dec_body_len, 11, 11, 5, 1u32);
dec!(c17_o4_a_ty11_n12_len1, dec_body_len, 12, 11, 5, 1u32);
dec!(c17_o4_q_ty11_n9_len2, dec_body_len, 9, 11, 5, 2u32);
dec!(c17_o4_t_ty11_n11_len2, dec_body_len, 11, 11, 5, 2u32);
dec!(c17_o4_t_ty11_n12_len2, dec_body_len, 12, 11, 5, 2u32);
dec!(c17_o4_q_ty11_n9_len3, dec_body_len, 9, 11, 5, 3u32);
dec!(c17_o4_t_ty11_n12_len3, dec_body_len, 12, 11, 5, 3u32);
dec!(c17_o4_t_ty11_n13_len3, dec_body_len, 13, 11, 5, 3u32);
dec!(c17_o4_t_ty11_n9_len2147483648, dec_body_len, 9, 11, 5, 2147483648u32);
dec!(c17_o4_t_ty11_n10_len2147483648, dec_body_len, 10, 11, 5, 2147483648u32);
dec!(c17_o4_a_ty11_n12_len2147483648, dec_body_len, 12, 11, 5, 2147483648u32);
dec!(c17_o4_q_ty11_n9_len4294967295, dec_body_len, 9, 11, 5, 4294967295u32);
dec!(c17_o4_t_ty11_n10_len4294967295, dec_body_len, 10, 11, 5, 4294967295u32);
dec!(c17_o4_a_ty11_n12_len4294967295, dec_body_len, 12, 11, 5, 4294967295u32);
dec!(c17_o4_q_ty12_n1, dec_body, 1, 12);
dec!(c17_o4_q_ty12_n16, dec_body, 16, 12);
dec!(c17_o4_q_ty12_n17_len0, dec_body_len, 17, 12, 13, 0u32);
dec!(c17_o4_t_ty12_n18_len0, dec_body_len, 18, 12, 13, 0u32);
dec!(c17_o4_a_ty12_n20_len0, dec_body_len, 20, 12, 13, 0u32);
dec!(c17_o4_q_ty12_n17_len1, dec_body_len, 17, 12, 13, 1u32);
dec!(c17_o4_t_ty12_n18_len1, dec_body_len, 18, 12, 13, 1u32);
dec!(c17_o4_t_ty12_n19_len1, dec_body_len, 19, 12, 13, 1u32);
dec!(c17_o4_a_ty12_n20_len1, dec_body_len, 20, 12, 13, 1u32);
dec!(c17_o4_q_ty12_n17_len2, dec_body_len, 17, 12, 13, 2u32);
dec!(c17_o4_t_ty12_n19_len2, dec_body_len, 19, 12, 13, 2u32);
dec!(c17_o4_t_ty12_n20_len2, dec_body_len, 20, 12, 13, 2u32);
dec!(c17_o4_q_ty12_n17_len3, dec_body_len, 17, 12, 13, 3u32);
dec!(c17_o4_t_ty12_n20_len3, dec_body_len, 20, 12, 13, 3u32);
dec!(c17_o4_t_ty12_n21_len3, dec_body_len, 21, 12, 13, 3u32);
dec!(c17_o4_t_ty12_n17_len2147483648, dec_body_len, 17, 12, 13, 2147483648u32);
dec!(c17_o4_t_ty12_n18_len2147483648, dec_body_len, 18, 12, 13, 2147483648u32);
dec!(c17_o4_a_ty12_n20_len2147483648, dec_body_len, 20, 12, 13, 2147483648u32);
dec!(c17_o4_q_ty12_n17_len4294967295, dec_body_len, 17, 12, 13, 4294967295u32);
dec!(c17_o4_t_ty12_n18_len4294967295, dec_body_len, 18, 12, 13, 4294967295u32);
dec!(c17_o4_a_ty12_n20_len4294967295, dec_body_len, 20, 12, 13, 4294967295u32);
dec!(c17_o4_q_ty9_n1, dec_body, 1, 9);
dec!(c17_o4_q_ty9_n28, dec_body, 28, 9);
dec!(c17_o4_q_ty9_n29, dec_body, 29, 9);
dec!(c17_o4_q_ty9_n29_count0, dec_body_len, 29, 9, 9, 0u32);
dec!(c17_o4_q_ty9_n30_count0, dec_body_len, 30, 9, 9, 0u32);
dec!(c17_o4_q_ty9_n29_count1, dec_body_len, 29, 9, 9, 1u32);
dec!(c17_o4_q_ty9_n36_count1, dec_body_len, 36, 9, 9, 1u32);
dec!(c17_o4_q_ty9_n37_count1, dec_body_len, 37, 9, 9, 1u32);
dec!(c17_o4_q_ty9_n44_count1, dec_body_len, 44, 9, 9, 1u32);
dec!(c17_o4_q_ty9_n45_count1, dec_body_len, 45, 9, 9, 1u32);
dec!(c17_o4_q_ty9_n46_count1, dec_body_len, 46, 9, 9, 1u32);
dec!(c17_o4_t_ty9_n29_count2, dec_body_len, 29, 9, 9, 2u32);
dec!(c17_o4_t_ty9_n52_count2, dec_body_len, 52, 9, 9, 2u32);
dec!(c17_o4_t_ty9_n53_count2, dec_body_len, 53, 9, 9, 2u32);
dec!(c17_o4_t_ty9_n60_count2, dec_body_len, 60, 9, 9, 2u32);
dec!(c17_o4_t_ty9_n61_count2, dec_body_len, 61, 9, 9, 2u32);
dec!(c17_o4_t_ty9_n62_count2, dec_body_len, 62, 9, 9, 2u32);
dec!(c17_o4_q_ty9_n29_count4294967295, dec_body_len, 29, 9, 9, 4294967295u32);
dec!(c17_o4_q_ty9_n45_count4294967295, dec_body_len, 45, 9, 9, 4294967295u32);
