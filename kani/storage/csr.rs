// C05-O1 / C30-O1: read kernels of a persisted relationship segment never panic and return exactly the stored edges.
// Included from /repo/nervusdb-storage/src/csr.rs under cfg(kani).
use super::*;

/// the edge-free segment exactly as engine::build_segment_from_runs and BulkLoader::build_segments emit it
fn edge_free_segment() -> CsrSegment {
    CsrSegment {
        id: SegmentId(kani::any()),
        meta_page_id: kani::any(),
        min_src: 0,
        max_src: 0,
        min_dst: 0,
        max_dst: 0,
        offsets: vec![0, 0],
        edges: Vec::new(),
        in_offsets: Vec::new(),
        in_edges: Vec::new(),
    }
}

fn opt_rel() -> Option<RelTypeId> {
    if kani::any() { Some(kani::any()) } else { None }
}

#[kani::proof]
#[kani::unwind(4)]
fn c05_o1_q_edge_free_incoming() {
    let seg = edge_free_segment();
    let dst: u32 = kani::any();
    let n = seg.incoming_neighbors(dst, opt_rel()).count();
    std::mem::forget(seg);
    kani::cover!(dst == 0, "witness: node 0 reachable");
    assert!(n == 0, "segment: edge-free segment has no incoming relationships");
}

#[kani::proof]
#[kani::unwind(4)]
fn c05_o1_q_edge_free_outgoing() {
    let seg = edge_free_segment();
    let src: u32 = kani::any();
    let n = seg.neighbors(src, opt_rel()).count();
    std::mem::forget(seg);
    kani::cover!(src == 0, "witness: node 0 reachable");
    assert!(n == 0, "segment: edge-free segment has no outgoing relationships");
}

/// one-edge segment as the builders emit it (before persist builds the reverse index)
fn one_edge_segment(s: u32, r: RelTypeId, d: u32) -> CsrSegment {
    CsrSegment {
        id: SegmentId(1),
        meta_page_id: 0,
        min_src: s,
        max_src: s,
        min_dst: 0,
        max_dst: 0,
        offsets: vec![0, 1],
        edges: vec![EdgeRecord { rel: r, dst: d }],
        in_offsets: Vec::new(),
        in_edges: Vec::new(),
    }
}

#[kani::proof]
#[kani::unwind(4)]
fn c05_o1_q_one_edge_outgoing() {
    let s: u32 = kani::any();
    let r: RelTypeId = kani::any();
    let d: u32 = kani::any();
    let seg = one_edge_segment(s, r, d);
    let q: u32 = kani::any();
    let mut it = seg.neighbors(q, None);
    let first = it.next();
    let second = it.next();
    let ok = if q == s {
        matches!(first, Some(e) if e.src == s && e.rel == r && e.dst == d) && second.is_none()
    } else {
        first.is_none()
    };
    std::mem::forget(it);
    std::mem::forget(seg);
    kani::cover!(q == s, "witness: hit reachable");
    kani::cover!(q != s, "witness: miss reachable");
    assert!(ok, "segment: outgoing(q) is exactly the stored edges with src q");
}

// ---- persist() with the page I/O stubbed out: builds the reverse index with the real code ----
fn stub_write_blob_pages(_pager: &mut Pager, _blob: &[u8]) -> Result<Vec<u64>> {
    Ok(Vec::new())
}
fn stub_allocate_page(_p: &mut Pager) -> Result<PageId> {
    Ok(PageId::new(7))
}
fn stub_write_page(_p: &mut Pager, _id: PageId, _page: &[u8; PAGE_SIZE]) -> Result<()> {
    Ok(())
}

fn fake_pager() -> &'static mut Pager {
    // never dereferenced: every Pager method persist() calls is stubbed in the harnesses below
    let layout = std::alloc::Layout::new::<Pager>();
    unsafe { &mut *(std::alloc::alloc(layout) as *mut Pager) }
}

fn check_incoming_one(seg: &CsrSegment, s: u32, r: RelTypeId, d: u32) {
    let q: u32 = kani::any();
    let mut it = seg.incoming_neighbors(q, None);
    let first = it.next();
    let second = it.next();
    let ok = if q == d {
        matches!(first, Some(e) if e.src == s && e.rel == r && e.dst == d) && second.is_none()
    } else {
        first.is_none()
    };
    std::mem::forget(it);
    kani::cover!(q == d, "witness: hit reachable");
    kani::cover!(q != d, "witness: miss reachable");
    assert!(ok, "segment: incoming(q) is exactly the stored edges with dst q");
}

#[kani::proof]
#[kani::unwind(6)]
#[kani::stub(write_blob_pages, stub_write_blob_pages)]
#[kani::stub(Pager::allocate_page, stub_allocate_page)]
#[kani::stub(Pager::write_page, stub_write_page)]
fn c05_o1_t_persist_one_edge_incoming() {
    let s: u32 = kani::any();
    let r: RelTypeId = kani::any();
    let d: u32 = kani::any();
    // internal node ids are dense from 0 and `next_internal_id` saturates at u32::MAX: a relationship can not end at node u32::MAX
    // before 2^32 - 1 nodes exist (persist's offset loop does `current_dst += 1` past max_dst and would overflow exactly there)
    kani::assume(d < u32::MAX && s < u32::MAX);
    let mut seg = one_edge_segment(s, r, d);
    let res = seg.persist(fake_pager());
    let ok = res.is_ok();
    std::mem::forget(res);
    assert!(ok, "segment: persist succeeds when page I/O succeeds");
    check_incoming_one(&seg, s, r, d);
    std::mem::forget(seg);
}

#[kani::proof]
#[kani::unwind(6)]
#[kani::stub(write_blob_pages, stub_write_blob_pages)]
#[kani::stub(Pager::allocate_page, stub_allocate_page)]
#[kani::stub(Pager::write_page, stub_write_page)]
fn c05_o1_t_persist_edge_free_incoming() {
    let mut seg = edge_free_segment();
    let res = seg.persist(fake_pager());
    let ok = res.is_ok();
    std::mem::forget(res);
    assert!(ok, "segment: persist succeeds when page I/O succeeds");
    let q: u32 = kani::any();
    let n = seg.incoming_neighbors(q, None).count();
    let m = seg.neighbors(q, None).count();
    std::mem::forget(seg);
    kani::cover!(q == 0, "witness: node 0 reachable");
    assert!(n == 0 && m == 0, "segment: persisted edge-free segment has no relationships");
}

/// two edges from the same source to two nearby destinations (d, d+gap), gap in 0..2
#[kani::proof]
#[kani::unwind(8)]
#[kani::stub(write_blob_pages, stub_write_blob_pages)]
#[kani::stub(Pager::allocate_page, stub_allocate_page)]
#[kani::stub(Pager::write_page, stub_write_page)]
fn c05_o1_a_persist_two_edges_incoming() {
    let s: u32 = kani::any();
    let d: u32 = kani::any();
    let gap: u32 = kani::any();
    kani::assume(gap <= 2 && d < u32::MAX - 4);
    let r: RelTypeId = kani::any();
    let mut seg = CsrSegment {
        id: SegmentId(1),
        meta_page_id: 0,
        min_src: s,
        max_src: s,
        min_dst: 0,
        max_dst: 0,
        offsets: vec![0, 2],
        edges: vec![EdgeRecord { rel: r, dst: d }, EdgeRecord { rel: r, dst: d + gap }],
        in_offsets: Vec::new(),
        in_edges: Vec::new(),
    };
    let res = seg.persist(fake_pager());
    let ok = res.is_ok();
    std::mem::forget(res);
    assert!(ok, "segment: persist succeeds when page I/O succeeds");
    let q: u32 = kani::any();
    let n = seg.incoming_neighbors(q, None).count();
    std::mem::forget(seg);
    let expect = (q == d) as usize + (q == d + gap) as usize;
    kani::cover!(n == 2, "witness: both edges on one destination reachable");
    kani::cover!(n == 1, "witness: one edge reachable");
    assert!(n == expect, "segment: incoming(q) counts exactly the stored edges with dst q");
}
