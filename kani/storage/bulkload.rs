// kani harnesses (included from /repo under cfg(kani))
