// C20-O1, C23-O1..O3, C15-O1: numeric / ordering / equality kernels of the evaluator.
// Included from /repo/nervusdb-query/src/evaluator.rs under cfg(kani) (child module: sees the evaluator's private items).
// Naming: c<prop>_o<obligation>_<tier q|t|a>_<shape>.
use super::evaluator_numeric::{numeric_div, numeric_mod};
use super::*;
use nervusdb_storage::index::ordered_key::encode_ordered_value;
use nervusdb_storage::property::PropertyValue;
use std::cmp::Ordering;

const TWO53: u64 = 1u64 << 53;

// ---- shapes: one concrete variant per code, symbolic payload --------------------------------
// I = Int (any), S = Int with |x| <= 2^53 ("small": exactly representable as f64),
// L = Int with |x| > 2^53 ("large"), F = Float non-NaN, N = Float NaN, A = any Float,
// B = Bool, D = DateTime, U = Null
fn shaped(code: char) -> Value {
    match code {
        'I' => Value::Int(kani::any()),
        'S' => {
            let x: i64 = kani::any();
            kani::assume(x.unsigned_abs() <= TWO53);
            Value::Int(x)
        }
        'L' => {
            let x: i64 = kani::any();
            kani::assume(x.unsigned_abs() > TWO53);
            Value::Int(x)
        }
        'F' => {
            let f: f64 = kani::any();
            kani::assume(!f.is_nan());
            Value::Float(f)
        }
        'N' => {
            let f: f64 = kani::any();
            kani::assume(f.is_nan());
            Value::Float(f)
        }
        'A' => Value::Float(kani::any()),
        'B' => Value::Bool(kani::any()),
        'D' => Value::DateTime(kani::any()),
        _ => Value::Null,
    }
}

// =============================================================================================
// C20-O1: order_compare is a total preorder on scalar kinds (what slice::sort_by needs to sort)
// =============================================================================================
fn order_laws(a: Value, b: Value, c: Value) {
    let ab = order_compare(&a, &b);
    let ba = order_compare(&b, &a);
    let bc = order_compare(&b, &c);
    let ac = order_compare(&a, &c);
    let aa = order_compare(&a, &a);
    std::mem::forget((a, b, c));
    kani::cover!(true, "witness: laws reached");
    assert!(aa == Ordering::Equal, "order: reflexive");
    assert!(ab == ba.reverse(), "order: antisymmetric (cmp(a,b) = reverse cmp(b,a))");
    if ab != Ordering::Greater && bc != Ordering::Greater {
        assert!(ac != Ordering::Greater, "order: transitive (a<=b, b<=c => a<=c)");
    }
    if ab == Ordering::Equal && bc == Ordering::Equal {
        assert!(ac == Ordering::Equal, "order: Equal is transitive");
    }
    if ab == Ordering::Less && bc != Ordering::Greater {
        assert!(ac == Ordering::Less, "order: strict transitivity (a<b, b<=c => a<c)");
    }
}

macro_rules! order_triple {
    ($name:ident, $a:expr, $b:expr, $c:expr) => {
        #[kani::proof]
        #[kani::unwind(4)]
        fn $name() {
            order_laws(shaped($a), shaped($b), shaped($c));
        }
    };
}

// numeric triples (the interesting ones): all 8 Int/Float combinations, with full-range ints
order_triple!(c20_o1_q_iii, 'I', 'I', 'I');
order_triple!(c20_o1_q_iif, 'I', 'I', 'F');
order_triple!(c20_o1_q_ifi, 'I', 'F', 'I');
order_triple!(c20_o1_q_fii, 'F', 'I', 'I');
order_triple!(c20_o1_q_iff, 'I', 'F', 'F');
order_triple!(c20_o1_q_fif, 'F', 'I', 'F');
order_triple!(c20_o1_q_ffi, 'F', 'F', 'I');
order_triple!(c20_o1_q_fff, 'F', 'F', 'F');
// NaN sorts above every number and equal to itself
order_triple!(c20_o1_q_aaa, 'A', 'A', 'A');
order_triple!(c20_o1_q_ian, 'I', 'A', 'N');
order_triple!(c20_o1_q_nia, 'N', 'I', 'A');
order_triple!(c20_o1_q_ain, 'A', 'I', 'N');
// cross-kind
order_triple!(c20_o1_q_bfu, 'B', 'A', 'U');
order_triple!(c20_o1_q_dib, 'D', 'I', 'B');
order_triple!(c20_o1_q_ubd, 'U', 'B', 'D');
order_triple!(c20_o1_q_bbb, 'B', 'B', 'B');
order_triple!(c20_o1_q_ddd, 'D', 'D', 'D');
order_triple!(c20_o1_q_uuu, 'U', 'U', 'U');
order_triple!(c20_o1_q_idu, 'I', 'D', 'U');
order_triple!(c20_o1_q_fdb, 'A', 'D', 'B');
order_triple!(c20_o1_q_bid, 'B', 'I', 'D');
order_triple!(c20_o1_q_dub, 'D', 'U', 'B');
order_triple!(c20_o1_q_ubi, 'U', 'B', 'I');

/// Rank order between kinds (Cypher orderability: ... String < Bool < number < DateTime ... < Null last) and
/// numeric agreement with the exact mathematical order for Int/Int.
#[kani::proof]
#[kani::unwind(4)]
fn c20_o1_q_kind_ranks() {
    let b = shaped('B');
    let i = shaped('I');
    let f = shaped('A');
    let d = shaped('D');
    let u = shaped('U');
    let r1 = order_compare(&b, &i);
    let r2 = order_compare(&b, &f);
    let r3 = order_compare(&i, &d);
    let r4 = order_compare(&f, &d);
    let r5 = order_compare(&d, &u);
    let r6 = order_compare(&i, &u);
    let r7 = order_compare(&u, &b);
    std::mem::forget((b, i, f, d, u));
    kani::cover!(true, "witness: ranks reached");
    assert!(r1 == Ordering::Less && r2 == Ordering::Less, "rank: Bool < number");
    assert!(r3 == Ordering::Less && r4 == Ordering::Less, "rank: number < DateTime");
    assert!(r5 == Ordering::Less && r6 == Ordering::Less, "rank: Null last");
    assert!(r7 == Ordering::Greater, "rank: Null last (reverse)");
}

#[kani::proof]
#[kani::unwind(4)]
fn c20_o1_q_int_int_exact() {
    let x: i64 = kani::any();
    let y: i64 = kani::any();
    let r = order_compare(&Value::Int(x), &Value::Int(y));
    kani::cover!(x > (1i64 << 53) && y == x - 1, "witness: adjacent large ints reachable");
    assert!(r == x.cmp(&y), "order: Int/Int is the exact integer order");
}

/// Int vs Float must follow the exact mathematical order (no rounding of the integer).
#[kani::proof]
#[kani::unwind(4)]
fn c20_o1_q_int_float_exact_on_integral_floats() {
    let x: i64 = kani::any();
    let y: i64 = kani::any();
    // y as f64 is exact iff |y| <= 2^53 (or a multiple of a suitable power of two); use small y
    kani::assume(y.unsigned_abs() <= TWO53);
    let f = y as f64;
    let r = order_compare(&Value::Int(x), &Value::Float(f));
    kani::cover!(x.unsigned_abs() > TWO53, "witness: large int vs exactly-representable float reachable");
    assert!(r == x.cmp(&y), "order: Int vs integral Float is the exact order");
}

/// Int vs a Float that carries a fraction: f = m/4 for any |m| <= 2^53 is exactly representable and x ? f  <=>  4x ? m.
#[kani::proof]
#[kani::unwind(4)]
fn c20_o1_q_int_float_exact_on_quarter_floats() {
    let x: i64 = kani::any();
    let m: i64 = kani::any();
    kani::assume(m.unsigned_abs() <= TWO53);
    let f = (m as f64) * 0.25;
    let r = order_compare(&Value::Int(x), &Value::Float(f));
    let rr = order_compare(&Value::Float(f), &Value::Int(x));
    kani::cover!(m < 0 && m % 4 != 0 && x == m / 4, "witness: negative float with a fraction next to the integer");
    let want = (x as i128 * 4).cmp(&(m as i128));
    assert!(r == want, "order: Int vs quarter-valued Float is the exact order");
    assert!(rr == want.reverse(), "order: quarter-valued Float vs Int is the exact order");
}

// =============================================================================================
// C23-O1: cypher_equals is an equivalence on non-null non-NaN scalars; null in => null out
// =============================================================================================
fn is_true(v: &Value) -> bool {
    matches!(v, Value::Bool(true))
}
fn is_bool(v: &Value) -> bool {
    matches!(v, Value::Bool(_))
}

fn eq_laws(a: Value, b: Value, c: Value) {
    let aa = cypher_equals(&a, &a);
    let ab = cypher_equals(&a, &b);
    let ba = cypher_equals(&b, &a);
    let bc = cypher_equals(&b, &c);
    let ac = cypher_equals(&a, &c);
    let (raa, rab, rba, rbc, rac) = (is_true(&aa), is_true(&ab), is_true(&ba), is_true(&bc), is_true(&ac));
    let all_bool = is_bool(&aa) && is_bool(&ab) && is_bool(&ba) && is_bool(&bc) && is_bool(&ac);
    std::mem::forget((a, b, c, aa, ab, ba, bc, ac));
    kani::cover!(true, "witness: laws reached");
    assert!(all_bool, "equality: non-null scalars compare to a Bool");
    assert!(raa, "equality: reflexive on non-NaN");
    assert!(rab == rba, "equality: symmetric");
    if rab && rbc {
        assert!(rac, "equality: transitive");
    }
}

macro_rules! eq_triple {
    ($name:ident, $a:expr, $b:expr, $c:expr) => {
        #[kani::proof]
        #[kani::unwind(4)]
        fn $name() {
            eq_laws(shaped($a), shaped($b), shaped($c));
        }
    };
}
eq_triple!(c23_o1_q_iii, 'I', 'I', 'I');
eq_triple!(c23_o1_q_iif, 'I', 'I', 'F');
eq_triple!(c23_o1_q_ifi, 'I', 'F', 'I');
eq_triple!(c23_o1_q_fii, 'F', 'I', 'I');
eq_triple!(c23_o1_q_iff, 'I', 'F', 'F');
eq_triple!(c23_o1_q_fif, 'F', 'I', 'F');
eq_triple!(c23_o1_q_ffi, 'F', 'F', 'I');
eq_triple!(c23_o1_q_fff, 'F', 'F', 'F');
eq_triple!(c23_o1_q_bbb, 'B', 'B', 'B');
eq_triple!(c23_o1_q_bif, 'B', 'I', 'F');
eq_triple!(c23_o1_q_dib, 'D', 'I', 'B');
eq_triple!(c23_o1_q_ddd, 'D', 'D', 'D');

/// Int = Float must be exact: equal iff the float is integral and denotes the same integer.
#[kani::proof]
#[kani::unwind(4)]
fn c23_o1_q_int_float_exact() {
    let x: i64 = kani::any();
    let y: i64 = kani::any();
    kani::assume(y.unsigned_abs() <= TWO53);
    let r = cypher_equals(&Value::Int(x), &Value::Float(y as f64));
    let rt = is_true(&r);
    std::mem::forget(r);
    kani::cover!(x.unsigned_abs() > TWO53, "witness: large int reachable");
    assert!(rt == (x == y), "equality: Int = integral Float iff same integer");
}

#[kani::proof]
#[kani::unwind(4)]
fn c23_o1_q_nan_never_equal() {
    let n = shaped('N');
    let a = shaped('A');
    let i = shaped('I');
    let r1 = cypher_equals(&n, &a);
    let r2 = cypher_equals(&a, &n);
    let r3 = cypher_equals(&n, &i);
    let r4 = cypher_equals(&i, &n);
    let ok = matches!(
        (&r1, &r2, &r3, &r4),
        (Value::Bool(false), Value::Bool(false), Value::Bool(false), Value::Bool(false))
    );
    std::mem::forget((n, a, i, r1, r2, r3, r4));
    kani::cover!(true, "witness: reached");
    assert!(ok, "equality: NaN equals nothing");
}

macro_rules! eq_null {
    ($name:ident, $k:expr) => {
        #[kani::proof]
        #[kani::unwind(4)]
        fn $name() {
            let v = shaped($k);
            let r1 = cypher_equals(&v, &Value::Null);
            let r2 = cypher_equals(&Value::Null, &v);
            let ok = matches!((&r1, &r2), (Value::Null, Value::Null));
            std::mem::forget((v, r1, r2));
            kani::cover!(true, "witness: reached");
            assert!(ok, "equality: null in, null out");
        }
    };
}
eq_null!(c23_o1_q_null_i, 'I');
eq_null!(c23_o1_q_null_a, 'A');
eq_null!(c23_o1_q_null_b, 'B');
eq_null!(c23_o1_q_null_u, 'U');

// =============================================================================================
// C23-O2: <, <=, >, >= agree with each other, with `=` and with the ORDER BY order on numbers
// =============================================================================================
fn cmp_laws(a: Value, b: Value) {
    let lt = compare_values(&a, &b, |o| o == Ordering::Less);
    let le = compare_values(&a, &b, |o| o != Ordering::Greater);
    let gt = compare_values(&a, &b, |o| o == Ordering::Greater);
    let ge = compare_values(&a, &b, |o| o != Ordering::Less);
    let eq = cypher_equals(&a, &b);
    let ord = order_compare(&a, &b);
    let all_bool = is_bool(&lt) && is_bool(&le) && is_bool(&gt) && is_bool(&ge) && is_bool(&eq);
    let (lt, le, gt, ge, eq) = (is_true(&lt), is_true(&le), is_true(&gt), is_true(&ge), is_true(&eq));
    std::mem::forget((a, b));
    kani::cover!(true, "witness: laws reached");
    assert!(all_bool, "compare: numbers compare to Bools");
    assert!((lt as u8) + (eq as u8) + (gt as u8) == 1, "compare: exactly one of <, =, > holds");
    assert!(le == (lt || eq), "compare: <= iff < or =");
    assert!(ge == (gt || eq), "compare: >= iff > or =");
    assert!(lt == (ord == Ordering::Less), "compare: < agrees with the ORDER BY order");
    assert!(gt == (ord == Ordering::Greater), "compare: > agrees with the ORDER BY order");
}
macro_rules! cmp_pair {
    ($name:ident, $a:expr, $b:expr) => {
        #[kani::proof]
        #[kani::unwind(4)]
        fn $name() {
            cmp_laws(shaped($a), shaped($b));
        }
    };
}
cmp_pair!(c23_o2_q_ii, 'I', 'I');
cmp_pair!(c23_o2_q_if, 'I', 'F');
cmp_pair!(c23_o2_q_fi, 'F', 'I');
cmp_pair!(c23_o2_q_ff, 'F', 'F');

/// Int vs a Float with a fraction (f = m/4, exact): <, >, = follow 4x ? m.
#[kani::proof]
#[kani::unwind(4)]
fn c23_o2_q_int_vs_quarter_float_exact() {
    let x: i64 = kani::any();
    let m: i64 = kani::any();
    kani::assume(m.unsigned_abs() <= TWO53);
    let (a, b) = (Value::Int(x), Value::Float((m as f64) * 0.25));
    let lt = compare_values(&a, &b, |o| o == Ordering::Less);
    let gt = compare_values(&a, &b, |o| o == Ordering::Greater);
    let flt = compare_values(&b, &a, |o| o == Ordering::Less);
    let eq = cypher_equals(&a, &b);
    let (lt, gt, flt, eq) = (is_true(&lt), is_true(&gt), is_true(&flt), is_true(&eq));
    std::mem::forget((a, b));
    kani::cover!(m < 0 && m % 4 != 0 && x == m / 4, "witness: negative float with a fraction next to the integer");
    let want = (x as i128 * 4).cmp(&(m as i128));
    assert!(lt == (want == Ordering::Less), "compare: Int < quarter-valued Float is exact");
    assert!(gt == (want == Ordering::Greater), "compare: Int > quarter-valued Float is exact");
    assert!(flt == (want == Ordering::Greater), "compare: quarter-valued Float < Int is exact");
    assert!(eq == (want == Ordering::Equal), "compare: Int = quarter-valued Float is exact");
}

macro_rules! cmp_nan {
    ($name:ident, $k:expr) => {
        #[kani::proof]
        #[kani::unwind(4)]
        fn $name() {
            let n = shaped('N');
            let x = shaped($k);
            let r1 = compare_values(&n, &x, |o| o == Ordering::Less);
            let r2 = compare_values(&x, &n, |o| o != Ordering::Greater);
            let r3 = compare_values(&n, &x, |o| o == Ordering::Greater);
            let r4 = compare_values(&x, &n, |o| o != Ordering::Less);
            let ok = matches!(
                (&r1, &r2, &r3, &r4),
                (Value::Bool(false), Value::Bool(false), Value::Bool(false), Value::Bool(false))
            );
            std::mem::forget((n, x, r1, r2, r3, r4));
            kani::cover!(true, "witness: reached");
            assert!(ok, "compare: NaN makes every range comparison false");
        }
    };
}
cmp_nan!(c23_o2_q_nan_i, 'I');
cmp_nan!(c23_o2_q_nan_a, 'A');

macro_rules! cmp_null {
    ($name:ident, $k:expr) => {
        #[kani::proof]
        #[kani::unwind(4)]
        fn $name() {
            let v = shaped($k);
            let r1 = compare_values(&v, &Value::Null, |o| o == Ordering::Less);
            let r2 = compare_values(&Value::Null, &v, |o| o != Ordering::Less);
            let ok = matches!((&r1, &r2), (Value::Null, Value::Null));
            std::mem::forget((v, r1, r2));
            kani::cover!(true, "witness: reached");
            assert!(ok, "compare: null in, null out");
        }
    };
}
cmp_null!(c23_o2_q_null_i, 'I');
cmp_null!(c23_o2_q_null_a, 'A');
cmp_null!(c23_o2_q_null_b, 'B');

#[kani::proof]
#[kani::unwind(4)]
fn c23_o2_q_bool_bool() {
    let x: bool = kani::any();
    let y: bool = kani::any();
    let lt = compare_values(&Value::Bool(x), &Value::Bool(y), |o| o == Ordering::Less);
    let ge = compare_values(&Value::Bool(x), &Value::Bool(y), |o| o != Ordering::Less);
    let ok = matches!((&lt, &ge), (Value::Bool(l), Value::Bool(g)) if *l == (!x & y) && *g == !*l);
    std::mem::forget((lt, ge));
    kani::cover!(true, "witness: reached");
    assert!(ok, "compare: false < true, >= is the complement");
}

// =============================================================================================
// C23-O3: one overflow rule for + - * : Int(exact) when the exact result fits i64, else Float
// =============================================================================================
fn arith_int_rule(r: Value, exact: i128, x: i64, y: i64) {
    let fits = exact >= i64::MIN as i128 && exact <= i64::MAX as i128;
    let ok = match &r {
        Value::Int(v) => fits && (*v as i128) == exact,
        Value::Float(f) => !fits && f.is_finite(),
        _ => false,
    };
    std::mem::forget(r);
    kani::cover!(fits, "witness: in-range result reachable");
    kani::cover!(!fits, "witness: overflowing result reachable");
    let _ = (x, y);
    assert!(ok, "arithmetic: Int(exact) if the exact result fits i64, else a finite Float");
}

#[kani::proof]
#[kani::unwind(4)]
fn c23_o3_q_add_int_int() {
    let x: i64 = kani::any();
    let y: i64 = kani::any();
    let r = add_values(&Value::Int(x), &Value::Int(y));
    arith_int_rule(r, x as i128 + y as i128, x, y);
}

#[kani::proof]
#[kani::unwind(4)]
fn c23_o3_q_sub_int_int() {
    let x: i64 = kani::any();
    let y: i64 = kani::any();
    let r = subtract_values(&Value::Int(x), &Value::Int(y));
    arith_int_rule(r, x as i128 - y as i128, x, y);
}

#[kani::proof]
#[kani::unwind(4)]
fn c23_o3_t_mul_int_int() {
    let x: i64 = kani::any();
    let y: i64 = kani::any();
    let r = multiply_values(&Value::Int(x), &Value::Int(y));
    arith_int_rule(r, (x as i128) * (y as i128), x, y);
}

/// quick-tier multiplication: one factor restricted to 16 bits (full 64x64 is the thorough harness above)
#[kani::proof]
#[kani::unwind(4)]
fn c23_o3_q_mul_int_small() {
    let x: i64 = kani::any();
    let y: i16 = kani::any();
    let r = multiply_values(&Value::Int(x), &Value::Int(y as i64));
    arith_int_rule(r, (x as i128) * (y as i128), x, y as i64);
}

// Division and remainder: full-width symbolic dividers (64-bit for `/`, 128-bit for the i128 `%` in numeric_mod) do not
// finish in CBMC, so the divisor is enumerated over the special values {0, -1, 1} with a full-range dividend, and both
// operands are symbolic on narrow ranges (8 bit quick, 16 bit thorough, full width attempted).
fn div_rule(x: i64, y: i64) {
    let r = divide_values(&Value::Int(x), &Value::Int(y));
    let ok = match &r {
        Value::Null => y == 0,
        Value::Int(v) => y != 0 && !(x == i64::MIN && y == -1) && *v == x.wrapping_div(y),
        Value::Float(f) => x == i64::MIN && y == -1 && *f == 9223372036854775808.0,
        _ => false,
    };
    std::mem::forget(r);
    kani::cover!(true, "witness: reached");
    assert!(ok, "arithmetic: x/0 = null, MIN/-1 = 2^63 as Float, else truncated quotient");
}
fn mod_rule(x: i64, y: i64) {
    let r = numeric_mod(&Value::Int(x), &Value::Int(y));
    let ok = match &r {
        Value::Null => y == 0,
        Value::Int(v) => y != 0 && *v == x.wrapping_rem(y),
        _ => false,
    };
    std::mem::forget(r);
    kani::cover!(true, "witness: reached");
    assert!(ok, "arithmetic: x%0 = null, else remainder with the dividend's sign, never panics");
}
macro_rules! divmod_const {
    ($name:ident, $f:ident, $y:expr) => {
        #[kani::proof]
        #[kani::unwind(4)]
        fn $name() {
            let x: i64 = kani::any();
            kani::cover!(x == i64::MIN, "witness: MIN dividend reachable");
            $f(x, $y);
        }
    };
}
divmod_const!(c23_o3_q_div_by_zero, div_rule, 0);
divmod_const!(c23_o3_q_div_by_minus_one, div_rule, -1);
divmod_const!(c23_o3_q_div_by_one, div_rule, 1);
divmod_const!(c23_o3_q_mod_by_zero, mod_rule, 0);
divmod_const!(c23_o3_q_mod_by_minus_one, mod_rule, -1);
divmod_const!(c23_o3_q_mod_by_one, mod_rule, 1);
macro_rules! divmod_narrow {
    ($name:ident, $f:ident, $t:ty) => {
        #[kani::proof]
        #[kani::unwind(4)]
        fn $name() {
            let x: $t = kani::any();
            let y: $t = kani::any();
            $f(x as i64, y as i64);
        }
    };
}
divmod_narrow!(c23_o3_q_div_i8, div_rule, i8);
divmod_narrow!(c23_o3_q_mod_i8, mod_rule, i8);
divmod_narrow!(c23_o3_t_div_i16, div_rule, i16);
divmod_narrow!(c23_o3_t_mod_i16, mod_rule, i16);
divmod_narrow!(c23_o3_a_div_i64, div_rule, i64);
divmod_narrow!(c23_o3_a_mod_i64, mod_rule, i64);

macro_rules! arith_null {
    ($name:ident, $k:expr) => {
        #[kani::proof]
        #[kani::unwind(12)]
        fn $name() {
            let v = shaped($k);
            let n = Value::Null;
            let rs = [
                add_values(&v, &n),
                add_values(&n, &v),
                subtract_values(&v, &n),
                subtract_values(&n, &v),
                multiply_values(&v, &n),
                multiply_values(&n, &v),
                divide_values(&v, &n),
                divide_values(&n, &v),
                numeric_mod(&v, &n),
                numeric_mod(&n, &v),
            ];
            let mut ok = true;
            let mut i = 0;
            while i < 10 {
                ok &= matches!(rs[i], Value::Null);
                i += 1;
            }
            std::mem::forget((v, rs));
            kani::cover!(true, "witness: reached");
            assert!(ok, "arithmetic: null in, null out");
        }
    };
}
arith_null!(c23_o3_q_null_i, 'I');
arith_null!(c23_o3_q_null_a, 'A');

#[kani::proof]
#[kani::unwind(4)]
fn c23_o3_q_mixed_is_float() {
    let x: i64 = kani::any();
    let f: f64 = kani::any();
    let r1 = add_values(&Value::Int(x), &Value::Float(f));
    let r2 = multiply_values(&Value::Float(f), &Value::Int(x));
    let r3 = numeric_div(&Value::Int(x), &Value::Float(f));
    let ok = matches!((&r1, &r2, &r3), (Value::Float(_), Value::Float(_), Value::Float(_)));
    std::mem::forget((r1, r2, r3));
    kani::cover!(true, "witness: reached");
    assert!(ok, "arithmetic: Int op Float is a Float");
}

// =============================================================================================
// C15-O1: the index lookup key agrees with Cypher equality (lookup = prefix match on enc(value))
// =============================================================================================
fn key_agreement(a: Value, pa: PropertyValue, b: Value, pb: PropertyValue) {
    let eq = is_true(&cypher_equals(&a, &b));
    let ka = encode_ordered_value(&pa);
    let kb = encode_ordered_value(&pb);
    let same = ka == kb;
    std::mem::forget((a, b, pa, pb, ka, kb));
    kani::cover!(eq, "witness: equal values reachable");
    kani::cover!(!eq, "witness: unequal values reachable");
    if same {
        assert!(eq, "index: equal keys only for equal values (no false hits)");
    }
    if eq {
        assert!(same, "index: equal values have equal keys (no missed hits)");
    }
}

#[kani::proof]
#[kani::unwind(12)]
fn c15_o1_q_int_int() {
    let x: i64 = kani::any();
    let y: i64 = kani::any();
    key_agreement(Value::Int(x), PropertyValue::Int(x), Value::Int(y), PropertyValue::Int(y));
}

#[kani::proof]
#[kani::unwind(12)]
fn c15_o1_q_float_float() {
    let x: f64 = kani::any();
    let y: f64 = kani::any();
    kani::assume(!x.is_nan() && !y.is_nan());
    key_agreement(Value::Float(x), PropertyValue::Float(x), Value::Float(y), PropertyValue::Float(y));
}

#[kani::proof]
#[kani::unwind(12)]
fn c15_o1_q_bool_bool() {
    let x: bool = kani::any();
    let y: bool = kani::any();
    key_agreement(Value::Bool(x), PropertyValue::Bool(x), Value::Bool(y), PropertyValue::Bool(y));
}

/// Int vs Float: `1 = 1.0` is true in Cypher, so a lookup by Int 1 must find a stored Float 1.0.
#[kani::proof]
#[kani::unwind(12)]
fn c15_o1_q_int_float() {
    let x: i64 = kani::any();
    let y: f64 = kani::any();
    kani::assume(!y.is_nan());
    key_agreement(Value::Int(x), PropertyValue::Int(x), Value::Float(y), PropertyValue::Float(y));
}

/// complement of the known Int/Float key finding: unequal Int/Float never share a key.
#[kani::proof]
#[kani::unwind(12)]
fn c15_o1_q_int_float_no_false_hits() {
    let x: i64 = kani::any();
    let y: f64 = kani::any();
    let ka = encode_ordered_value(&PropertyValue::Int(x));
    let kb = encode_ordered_value(&PropertyValue::Float(y));
    let same = ka == kb;
    let pre = ka.starts_with(&kb) || kb.starts_with(&ka);
    std::mem::forget((ka, kb));
    kani::cover!(true, "witness: reached");
    assert!(!same && !pre, "index: an Int key is never equal to / a prefix of a Float key");
}
