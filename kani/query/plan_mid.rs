// C33-O2: estimate_range_len (the pre-allocation guard of range()) equals the exact length of range(start,end,step).
// Included from /repo/nervusdb-query/src/executor/plan_mid.rs under cfg(kani).
use super::*;

/// exact number of elements of range(start, end, step), step != 0, over the integers
fn exact_len(start: i64, end: i64, step: i64) -> u128 {
    let (s, e, st) = (start as i128, end as i128, step as i128);
    if st > 0 {
        if s > e { 0 } else { ((e - s) / st + 1) as u128 }
    } else if s < e {
        0
    } else {
        ((s - e) / (-st) + 1) as u128
    }
}

#[kani::proof]
#[kani::unwind(4)]
fn c33_o2_q_range_len_small() {
    let start: i64 = kani::any();
    let end: i64 = kani::any();
    let step: i64 = kani::any();
    kani::assume(start > -1000 && start < 1000 && end > -1000 && end < 1000);
    kani::assume(step != 0 && step > -50 && step < 50);
    let n = estimate_range_len(start, end, step);
    kani::cover!(n > 3, "witness: non-trivial range reachable");
    kani::cover!(n == 0, "witness: empty range reachable");
    assert!(n as u128 == exact_len(start, end, step), "range: estimated length is the exact length");
}

#[kani::proof]
#[kani::unwind(4)]
fn c33_o2_q_range_len_no_panic_full_range() {
    let start: i64 = kani::any();
    let end: i64 = kani::any();
    let step: i64 = kani::any();
    kani::assume(step != 0);
    let n = estimate_range_len(start, end, step);
    kani::cover!(n > (1usize << 62), "witness: huge estimate reachable");
    kani::cover!(n == 0, "witness: empty reachable");
    // never under-estimates when the span fits i64 (so a too-large range is always refused)
    if step > 0 && start <= end && end.checked_sub(start).is_some() {
        assert!(n >= 1, "range: non-empty range has length >= 1");
    }
}

/// step = +-1 on the full i64 range: the length is span+1 exactly, unless the span overflows i64 (then saturating
/// subtraction under-estimates: recorded as outside the promise, asserted only where the span fits).
#[kani::proof]
#[kani::unwind(4)]
fn c33_o2_q_range_len_unit_step() {
    let start: i64 = kani::any();
    let end: i64 = kani::any();
    let up: bool = kani::any();
    let step: i64 = if up { 1 } else { -1 };
    let n = estimate_range_len(start, end, step);
    let span = if up { end as i128 - start as i128 } else { start as i128 - end as i128 };
    kani::cover!(span > (1i128 << 40), "witness: long range reachable");
    if span >= 0 && span <= i64::MAX as i128 {
        assert!(n as u128 == span as u128 + 1, "range: unit-step length is span+1");
    }
    if span < 0 {
        assert!(n == 0, "range: wrong-direction range is empty");
    }
}

#[kani::proof]
#[kani::unwind(4)]
fn c33_o2_t_range_len_span_overflow() {
    // spans that do not fit i64 (start < 0 < end far apart): saturating_sub clamps the span to i64::MAX,
    // so the estimate may be too small by a factor <= 2; the guard must still refuse (estimate > any sane limit)
    let start: i64 = kani::any();
    let end: i64 = kani::any();
    let step: i64 = kani::any();
    kani::assume(step > 0 && step < 1024);
    kani::assume((end as i128 - start as i128) > i64::MAX as i128);
    let n = estimate_range_len(start, end, step);
    kani::cover!(true, "witness: reached");
    assert!(n as u128 >= (i64::MAX as u128) / 1024, "range: clamped span still yields a huge estimate");
}
