// C33-O1: limit arithmetic of Params (collection size, apply rows, emitted rows).
// Included from /repo/nervusdb-query/src/query_api.rs under cfg(kani).
use super::*;

fn params_with(opts: ExecuteOptions) -> Params {
    Params::with_execute_options(opts)
}

fn is_limit_err(r: &Result<()>) -> bool {
    matches!(r, Err(Error::ResourceLimitExceeded { .. }))
}

fn collection(stage: &'static str, relaxed: bool) {
    let limit: usize = kani::any();
    let observed: usize = kani::any();
    let opts = ExecuteOptions {
        max_intermediate_rows: kani::any(),
        max_collection_items: limit,
        soft_timeout_ms: 0,
        max_apply_rows_per_outer: kani::any(),
    };
    let p = params_with(opts);
    let r = p.check_collection_size(stage, observed);
    let err = is_limit_err(&r);
    let ok = r.is_ok();
    std::mem::forget((p, r));
    let default_limit = 200_000usize;
    let effective = if relaxed && limit == default_limit { 1_100_000 } else { limit };
    kani::cover!(err, "witness: limit error reachable");
    kani::cover!(ok, "witness: ok reachable");
    assert!(err || ok, "limits: result is Ok or a resource-limit error");
    assert!(err == (observed > effective), "limits: error iff observed exceeds the effective limit");
}

#[kani::proof]
#[kani::unwind(20)]
fn c33_o1_q_collection_generic_stage() {
    collection("List", false);
}
#[kani::proof]
#[kani::unwind(20)]
fn c33_o1_q_collection_range_stage() {
    collection("Function(range)", true);
}
#[kani::proof]
#[kani::unwind(20)]
fn c33_o1_q_collection_unwind_stage() {
    collection("Unwind.list", true);
}
#[kani::proof]
#[kani::unwind(20)]
fn c33_o1_q_collection_aggregate_stage() {
    collection("Aggregate.rows", true);
}

#[kani::proof]
#[kani::unwind(20)]
fn c33_o1_q_apply_rows() {
    let limit: usize = kani::any();
    let observed: usize = kani::any();
    let opts = ExecuteOptions {
        max_intermediate_rows: kani::any(),
        max_collection_items: kani::any(),
        soft_timeout_ms: 0,
        max_apply_rows_per_outer: limit,
    };
    let p = params_with(opts);
    let r = p.check_apply_rows_per_outer("Apply", observed);
    let err = is_limit_err(&r);
    let ok = r.is_ok();
    std::mem::forget((p, r));
    kani::cover!(err, "witness: limit error reachable");
    kani::cover!(ok, "witness: ok reachable");
    assert!(err || ok, "limits: result is Ok or a resource-limit error");
    assert!(err == (observed > limit), "limits: error iff observed exceeds the limit");
}

fn emitted(stage: &'static str, relaxed: bool) {
    let limit: usize = kani::any();
    let already: usize = kani::any();
    let opts = ExecuteOptions {
        max_intermediate_rows: limit,
        max_collection_items: kani::any(),
        soft_timeout_ms: 0,
        max_apply_rows_per_outer: kani::any(),
    };
    let p = params_with(opts);
    {
        let mut st = p.runtime.state.lock().unwrap();
        st.emitted_rows = already;
    }
    let r = p.note_emitted_row(stage);
    let after = p.runtime.state.lock().unwrap().emitted_rows;
    let err = is_limit_err(&r);
    let ok = r.is_ok();
    std::mem::forget((p, r));
    let effective = if relaxed && limit == 500_000 { 2_500_000 } else { limit };
    let expect_after = if already == usize::MAX { usize::MAX } else { already + 1 };
    kani::cover!(err, "witness: limit error reachable");
    kani::cover!(ok, "witness: ok reachable");
    kani::cover!(already == usize::MAX, "witness: saturated counter reachable");
    assert!(after == expect_after, "limits: the row counter counts every row and saturates (never wraps)");
    assert!(err || ok, "limits: result is Ok or a resource-limit error");
    assert!(err == (after > effective), "limits: error iff emitted rows exceed the effective limit");
}

#[kani::proof]
#[kani::unwind(20)]
fn c33_o1_q_emitted_generic_stage() {
    emitted("Filter", false);
}
#[kani::proof]
#[kani::unwind(20)]
fn c33_o1_q_emitted_project_stage() {
    emitted("Project", true);
}
#[kani::proof]
#[kani::unwind(20)]
fn c33_o1_q_emitted_unwind_stage() {
    emitted("Unwind", true);
}
#[kani::proof]
#[kani::unwind(20)]
fn c33_o1_q_emitted_aggregate_stage() {
    emitted("Aggregate", true);
}
