// C21-O2: grouping keys — `impl Hash for Value` must agree with the derived `==` (one group per distinct key).
// Included from /repo/nervusdb-query/src/executor/core_types.rs under cfg(kani).
use super::*;

/// transparent hasher: collects the bytes fed to it, so "same hash" means "same byte stream"
struct Collect {
    buf: [u8; 32],
    n: usize,
}
impl Hasher for Collect {
    fn finish(&self) -> u64 {
        0
    }
    fn write(&mut self, b: &[u8]) {
        let mut i = 0;
        while i < b.len() {
            if self.n < 32 {
                self.buf[self.n] = b[i];
                self.n += 1;
            }
            i += 1;
        }
    }
}
fn h(v: &Value) -> ([u8; 32], usize) {
    let mut c = Collect { buf: [0u8; 32], n: 0 };
    v.hash(&mut c);
    (c.buf, c.n)
}
fn hash_eq(a: Value, b: Value) {
    let eq = a == b;
    let ha = h(&a);
    let hb = h(&b);
    std::mem::forget((a, b));
    kani::cover!(eq, "witness: equal keys reachable");
    kani::cover!(!eq, "witness: different keys reachable");
    if eq {
        assert!(ha == hb, "grouping: equal keys hash equally");
    }
}

#[kani::proof]
#[kani::unwind(34)]
fn c21_o2_q_float_float() {
    hash_eq(Value::Float(kani::any()), Value::Float(kani::any()));
}
#[kani::proof]
#[kani::unwind(34)]
fn c21_o2_q_int_int() {
    hash_eq(Value::Int(kani::any()), Value::Int(kani::any()));
}
#[kani::proof]
#[kani::unwind(34)]
fn c21_o2_q_bool_bool() {
    hash_eq(Value::Bool(kani::any()), Value::Bool(kani::any()));
}
#[kani::proof]
#[kani::unwind(34)]
fn c21_o2_q_datetime_datetime() {
    hash_eq(Value::DateTime(kani::any()), Value::DateTime(kani::any()));
}
#[kani::proof]
#[kani::unwind(34)]
fn c21_o2_q_nodeid_nodeid() {
    hash_eq(Value::NodeId(kani::any()), Value::NodeId(kani::any()));
}

/// different kinds are different keys under `==` (Int 1 and Float 1.0 are two groups by design of `==`);
/// recorded so a change that merges kinds in `==` but not in Hash is caught.
#[kani::proof]
#[kani::unwind(34)]
fn c21_o2_q_int_float_distinct_keys() {
    let a = Value::Int(kani::any());
    let b = Value::Float(kani::any());
    let eq = a == b;
    let ha = h(&a);
    let hb = h(&b);
    std::mem::forget((a, b));
    kani::cover!(true, "witness: reached");
    if eq {
        assert!(ha == hb, "grouping: equal keys hash equally");
    }
}
