// C25-O1..O3: PropertyValue encode/decode round trips, decode panic-freedom and bounded allocation.
// Included from /repo/nervusdb-api/src/lib.rs under cfg(kani).
use super::*;

// ---------------------------------------------------------------- O1: round trips (bit-exact)
fn roundtrip_ok(v: &PropertyValue) -> bool {
    let b = v.encode();
    let d = PropertyValue::decode(&b);
    let ok = match (&d, v) {
        (Ok(PropertyValue::Float(g)), PropertyValue::Float(f)) => g.to_bits() == f.to_bits(),
        (Ok(x), _) => x == v,
        (Err(_), _) => false,
    };
    std::mem::forget((b, d));
    ok
}

#[kani::proof]
#[kani::unwind(12)]
fn c25_o1_q_rt_null() {
    let v = PropertyValue::Null;
    let ok = roundtrip_ok(&v);
    kani::cover!(true, "witness: reached");
    assert!(ok, "roundtrip: decode(encode(v)) == v");
}
#[kani::proof]
#[kani::unwind(12)]
fn c25_o1_q_rt_bool() {
    let v = PropertyValue::Bool(kani::any());
    let ok = roundtrip_ok(&v);
    kani::cover!(true, "witness: reached");
    assert!(ok, "roundtrip: decode(encode(v)) == v");
}
#[kani::proof]
#[kani::unwind(12)]
fn c25_o1_q_rt_int() {
    let v = PropertyValue::Int(kani::any());
    let ok = roundtrip_ok(&v);
    kani::cover!(true, "witness: reached");
    assert!(ok, "roundtrip: decode(encode(v)) == v");
}
#[kani::proof]
#[kani::unwind(12)]
fn c25_o1_q_rt_float_bits() {
    let f: f64 = kani::any();
    let v = PropertyValue::Float(f);
    let ok = roundtrip_ok(&v);
    kani::cover!(f.is_nan(), "witness: NaN payloads reachable");
    kani::cover!(f == 0.0 && f.is_sign_negative(), "witness: -0.0 reachable");
    assert!(ok, "roundtrip: decode(encode(v)) == v");
}
#[kani::proof]
#[kani::unwind(12)]
fn c25_o1_q_rt_datetime() {
    let v = PropertyValue::DateTime(kani::any());
    let ok = roundtrip_ok(&v);
    kani::cover!(true, "witness: reached");
    assert!(ok, "roundtrip: decode(encode(v)) == v");
}

fn rt_string<const N: usize>() {
    let a: [u8; N] = kani::any();
    let mut i = 0;
    while i < N {
        kani::assume(a[i] < 0x80);
        i += 1;
    }
    let v = PropertyValue::String(unsafe { String::from_utf8_unchecked(a.to_vec()) });
    let ok = roundtrip_ok(&v);
    std::mem::forget(v);
    kani::cover!(true, "witness: reached");
    assert!(ok, "roundtrip: decode(encode(v)) == v");
}
fn rt_blob<const N: usize>() {
    let a: [u8; N] = kani::any();
    let v = PropertyValue::Blob(a.to_vec());
    let ok = roundtrip_ok(&v);
    std::mem::forget(v);
    kani::cover!(true, "witness: reached");
    assert!(ok, "roundtrip: decode(encode(v)) == v");
}
macro_rules! rt_n {
    ($name:ident, $f:ident, $n:expr, $u:expr) => {
        #[kani::proof]
        #[kani::unwind($u)]
        fn $name() {
            $f::<$n>();
        }
    };
}
rt_n!(c25_o1_q_rt_string_0, rt_string, 0, 12);
rt_n!(c25_o1_q_rt_string_1, rt_string, 1, 12);
rt_n!(c25_o1_q_rt_string_2, rt_string, 2, 12);
rt_n!(c25_o1_t_rt_string_4, rt_string, 4, 16);
rt_n!(c25_o1_q_rt_blob_0, rt_blob, 0, 12);
rt_n!(c25_o1_q_rt_blob_1, rt_blob, 1, 12);
rt_n!(c25_o1_q_rt_blob_2, rt_blob, 2, 12);
rt_n!(c25_o1_t_rt_blob_4, rt_blob, 4, 16);

#[kani::proof]
#[kani::unwind(12)]
fn c25_o1_a_rt_empty_list() {
    let v = PropertyValue::List(Vec::new());
    let ok = roundtrip_ok(&v);
    std::mem::forget(v);
    kani::cover!(true, "witness: reached");
    assert!(ok, "roundtrip: decode(encode(v)) == v");
}
#[kani::proof]
#[kani::unwind(12)]
fn c25_o1_q_rt_empty_map() {
    let v = PropertyValue::Map(BTreeMap::new());
    let ok = roundtrip_ok(&v);
    std::mem::forget(v);
    kani::cover!(true, "witness: reached");
    assert!(ok, "roundtrip: decode(encode(v)) == v");
}
#[kani::proof]
#[kani::unwind(24)]
fn c25_o1_a_rt_list_int_bool() {
    let v = PropertyValue::List(vec![PropertyValue::Int(kani::any()), PropertyValue::Bool(kani::any())]);
    let ok = roundtrip_ok(&v);
    std::mem::forget(v);
    kani::cover!(true, "witness: reached");
    assert!(ok, "roundtrip: decode(encode(v)) == v");
}
#[kani::proof]
#[kani::unwind(24)]
fn c25_o1_a_rt_list_one_int() {
    let v = PropertyValue::List(vec![PropertyValue::Int(kani::any())]);
    let ok = roundtrip_ok(&v);
    std::mem::forget(v);
    kani::cover!(true, "witness: reached");
    assert!(ok, "roundtrip: decode(encode(v)) == v");
}

// ---------------------------------------------------------------- O2: decode never panics
/// tag byte concrete, everything else symbolic
fn dec_tag<const N: usize>(tag: u8) {
    let mut b: [u8; N] = kani::any();
    if N > 0 {
        b[0] = tag;
    }
    let r = PropertyValue::decode(&b);
    let ok = r.is_ok();
    std::mem::forget(r);
    kani::cover!(true, "witness: decode returned");
    let _ = ok;
}
/// variable-length tags: the embedded u32 length/count field is concrete, payload bytes symbolic
fn dec_len<const N: usize>(tag: u8, len: u32) {
    let mut b: [u8; N] = kani::any();
    b[0] = tag;
    let l = len.to_le_bytes();
    b[1] = l[0];
    b[2] = l[1];
    b[3] = l[2];
    b[4] = l[3];
    let r = PropertyValue::decode(&b);
    // a decoded string/blob never claims more bytes than the input holds
    let ok = match &r {
        Ok(PropertyValue::String(s)) => s.len() == len as usize && 5 + s.len() <= N,
        Ok(PropertyValue::Blob(x)) => x.len() == len as usize && 5 + x.len() <= N,
        Ok(PropertyValue::List(x)) => x.len() == len as usize,
        Ok(PropertyValue::Map(x)) => x.len() <= len as usize,
        Ok(_) => false,
        Err(_) => true,
    };
    std::mem::forget(r);
    kani::cover!(true, "witness: decode returned");
    assert!(ok, "decode: result is consistent with the embedded length field");
}
/// list with count 1 and a concrete inner tag
fn dec_list1<const N: usize>(inner: u8) {
    let mut b: [u8; N] = kani::any();
    b[0] = 7;
    b[1] = 1;
    b[2] = 0;
    b[3] = 0;
    b[4] = 0;
    b[5] = inner;
    let r = PropertyValue::decode(&b);
    std::mem::forget(r);
    kani::cover!(true, "witness: decode returned");
}
macro_rules! dec {
    ($name:ident, $f:ident, $n:expr, $($arg:expr),*) => {
        #[kani::proof]
        #[kani::unwind(16)]
        fn $name() {
            $f::<$n>($($arg),*);
        }
    };
}

dec!(c25_o2_q_tag0_n0, dec_tag, 0, 0);
dec!(c25_o2_q_tag0_n1, dec_tag, 1, 0);
dec!(c25_o2_q_tag0_n2, dec_tag, 2, 0);
dec!(c25_o2_t_tag0_n3, dec_tag, 3, 0);
dec!(c25_o2_t_tag0_n4, dec_tag, 4, 0);
dec!(c25_o2_t_tag0_n5, dec_tag, 5, 0);
dec!(c25_o2_t_tag0_n6, dec_tag, 6, 0);
dec!(c25_o2_t_tag0_n7, dec_tag, 7, 0);
dec!(c25_o2_q_tag0_n8, dec_tag, 8, 0);
dec!(c25_o2_q_tag0_n9, dec_tag, 9, 0);
dec!(c25_o2_q_tag0_n10, dec_tag, 10, 0);
dec!(c25_o2_q_tag1_n0, dec_tag, 0, 1);
dec!(c25_o2_q_tag1_n1, dec_tag, 1, 1);
dec!(c25_o2_q_tag1_n2, dec_tag, 2, 1);
dec!(c25_o2_t_tag1_n3, dec_tag, 3, 1);
dec!(c25_o2_t_tag1_n4, dec_tag, 4, 1);
dec!(c25_o2_t_tag1_n5, dec_tag, 5, 1);
dec!(c25_o2_t_tag1_n6, dec_tag, 6, 1);
dec!(c25_o2_t_tag1_n7, dec_tag, 7, 1);
dec!(c25_o2_q_tag1_n8, dec_tag, 8, 1);
dec!(c25_o2_q_tag1_n9, dec_tag, 9, 1);
dec!(c25_o2_q_tag1_n10, dec_tag, 10, 1);
dec!(c25_o2_q_tag2_n0, dec_tag, 0, 2);
dec!(c25_o2_q_tag2_n1, dec_tag, 1, 2);
dec!(c25_o2_q_tag2_n2, dec_tag, 2, 2);
dec!(c25_o2_t_tag2_n3, dec_tag, 3, 2);
dec!(c25_o2_t_tag2_n4, dec_tag, 4, 2);
dec!(c25_o2_t_tag2_n5, dec_tag, 5, 2);
dec!(c25_o2_t_tag2_n6, dec_tag, 6, 2);
dec!(c25_o2_t_tag2_n7, dec_tag, 7, 2);
dec!(c25_o2_q_tag2_n8, dec_tag, 8, 2);
dec!(c25_o2_q_tag2_n9, dec_tag, 9, 2);
dec!(c25_o2_q_tag2_n10, dec_tag, 10, 2);
dec!(c25_o2_q_tag3_n0, dec_tag, 0, 3);
dec!(c25_o2_q_tag3_n1, dec_tag, 1, 3);
dec!(c25_o2_q_tag3_n2, dec_tag, 2, 3);
dec!(c25_o2_t_tag3_n3, dec_tag, 3, 3);
dec!(c25_o2_t_tag3_n4, dec_tag, 4, 3);
dec!(c25_o2_t_tag3_n5, dec_tag, 5, 3);
dec!(c25_o2_t_tag3_n6, dec_tag, 6, 3);
dec!(c25_o2_t_tag3_n7, dec_tag, 7, 3);
dec!(c25_o2_q_tag3_n8, dec_tag, 8, 3);
dec!(c25_o2_q_tag3_n9, dec_tag, 9, 3);
dec!(c25_o2_q_tag3_n10, dec_tag, 10, 3);
dec!(c25_o2_q_tag5_n0, dec_tag, 0, 5);
dec!(c25_o2_q_tag5_n1, dec_tag, 1, 5);
dec!(c25_o2_q_tag5_n2, dec_tag, 2, 5);
dec!(c25_o2_t_tag5_n3, dec_tag, 3, 5);
dec!(c25_o2_t_tag5_n4, dec_tag, 4, 5);
dec!(c25_o2_t_tag5_n5, dec_tag, 5, 5);
dec!(c25_o2_t_tag5_n6, dec_tag, 6, 5);
dec!(c25_o2_t_tag5_n7, dec_tag, 7, 5);
dec!(c25_o2_q_tag5_n8, dec_tag, 8, 5);
dec!(c25_o2_q_tag5_n9, dec_tag, 9, 5);
dec!(c25_o2_q_tag5_n10, dec_tag, 10, 5);
dec!(c25_o2_q_tag9_n0, dec_tag, 0, 9);
dec!(c25_o2_q_tag9_n1, dec_tag, 1, 9);
dec!(c25_o2_q_tag9_n2, dec_tag, 2, 9);
dec!(c25_o2_t_tag9_n3, dec_tag, 3, 9);
dec!(c25_o2_t_tag9_n4, dec_tag, 4, 9);
dec!(c25_o2_t_tag9_n5, dec_tag, 5, 9);
dec!(c25_o2_t_tag9_n6, dec_tag, 6, 9);
dec!(c25_o2_t_tag9_n7, dec_tag, 7, 9);
dec!(c25_o2_q_tag9_n8, dec_tag, 8, 9);
dec!(c25_o2_q_tag9_n9, dec_tag, 9, 9);
dec!(c25_o2_q_tag9_n10, dec_tag, 10, 9);
dec!(c25_o2_q_tag255_n0, dec_tag, 0, 255);
dec!(c25_o2_q_tag255_n1, dec_tag, 1, 255);
dec!(c25_o2_q_tag255_n2, dec_tag, 2, 255);
dec!(c25_o2_t_tag255_n3, dec_tag, 3, 255);
dec!(c25_o2_t_tag255_n4, dec_tag, 4, 255);
dec!(c25_o2_t_tag255_n5, dec_tag, 5, 255);
dec!(c25_o2_t_tag255_n6, dec_tag, 6, 255);
dec!(c25_o2_t_tag255_n7, dec_tag, 7, 255);
dec!(c25_o2_q_tag255_n8, dec_tag, 8, 255);
dec!(c25_o2_q_tag255_n9, dec_tag, 9, 255);
dec!(c25_o2_q_tag255_n10, dec_tag, 10, 255);
dec!(c25_o2_q_tag4_n0, dec_tag, 0, 4);
dec!(c25_o2_q_tag4_n1, dec_tag, 1, 4);
dec!(c25_o2_t_tag4_n2, dec_tag, 2, 4);
dec!(c25_o2_t_tag4_n3, dec_tag, 3, 4);
dec!(c25_o2_q_tag4_n4, dec_tag, 4, 4);
dec!(c25_o2_q_tag6_n0, dec_tag, 0, 6);
dec!(c25_o2_q_tag6_n1, dec_tag, 1, 6);
dec!(c25_o2_t_tag6_n2, dec_tag, 2, 6);
dec!(c25_o2_t_tag6_n3, dec_tag, 3, 6);
dec!(c25_o2_q_tag6_n4, dec_tag, 4, 6);
dec!(c25_o2_q_tag7_n0, dec_tag, 0, 7);
dec!(c25_o2_q_tag7_n1, dec_tag, 1, 7);
dec!(c25_o2_t_tag7_n2, dec_tag, 2, 7);
dec!(c25_o2_t_tag7_n3, dec_tag, 3, 7);
dec!(c25_o2_q_tag7_n4, dec_tag, 4, 7);
dec!(c25_o2_q_tag8_n0, dec_tag, 0, 8);
dec!(c25_o2_q_tag8_n1, dec_tag, 1, 8);
dec!(c25_o2_t_tag8_n2, dec_tag, 2, 8);
dec!(c25_o2_t_tag8_n3, dec_tag, 3, 8);
dec!(c25_o2_q_tag8_n4, dec_tag, 4, 8);
dec!(c25_o2_q_tag4_n5_len0, dec_len, 5, 4, 0u32);
dec!(c25_o2_t_tag4_n5_len1, dec_len, 5, 4, 1u32);
dec!(c25_o2_q_tag4_n5_len2, dec_len, 5, 4, 2u32);
dec!(c25_o2_t_tag4_n5_len3, dec_len, 5, 4, 3u32);
dec!(c25_o2_t_tag4_n5_len2147483648, dec_len, 5, 4, 2147483648u32);
dec!(c25_o2_q_tag4_n5_len4294967295, dec_len, 5, 4, 4294967295u32);
dec!(c25_o2_t_tag4_n6_len0, dec_len, 6, 4, 0u32);
dec!(c25_o2_t_tag4_n6_len1, dec_len, 6, 4, 1u32);
dec!(c25_o2_t_tag4_n6_len2, dec_len, 6, 4, 2u32);
dec!(c25_o2_t_tag4_n6_len3, dec_len, 6, 4, 3u32);
dec!(c25_o2_t_tag4_n6_len2147483648, dec_len, 6, 4, 2147483648u32);
dec!(c25_o2_t_tag4_n6_len4294967295, dec_len, 6, 4, 4294967295u32);
dec!(c25_o2_q_tag4_n7_len0, dec_len, 7, 4, 0u32);
dec!(c25_o2_t_tag4_n7_len1, dec_len, 7, 4, 1u32);
dec!(c25_o2_q_tag4_n7_len2, dec_len, 7, 4, 2u32);
dec!(c25_o2_t_tag4_n7_len3, dec_len, 7, 4, 3u32);
dec!(c25_o2_t_tag4_n7_len2147483648, dec_len, 7, 4, 2147483648u32);
dec!(c25_o2_q_tag4_n7_len4294967295, dec_len, 7, 4, 4294967295u32);
dec!(c25_o2_t_tag4_n8_len0, dec_len, 8, 4, 0u32);
dec!(c25_o2_t_tag4_n8_len1, dec_len, 8, 4, 1u32);
dec!(c25_o2_t_tag4_n8_len2, dec_len, 8, 4, 2u32);
dec!(c25_o2_t_tag4_n8_len3, dec_len, 8, 4, 3u32);
dec!(c25_o2_t_tag4_n8_len2147483648, dec_len, 8, 4, 2147483648u32);
dec!(c25_o2_t_tag4_n8_len4294967295, dec_len, 8, 4, 4294967295u32);
dec!(c25_o2_t_tag4_n9_len0, dec_len, 9, 4, 0u32);
dec!(c25_o2_t_tag4_n9_len1, dec_len, 9, 4, 1u32);
dec!(c25_o2_t_tag4_n9_len2, dec_len, 9, 4, 2u32);
dec!(c25_o2_t_tag4_n9_len3, dec_len, 9, 4, 3u32);
dec!(c25_o2_t_tag4_n9_len2147483648, dec_len, 9, 4, 2147483648u32);
dec!(c25_o2_t_tag4_n9_len4294967295, dec_len, 9, 4, 4294967295u32);
dec!(c25_o2_q_tag4_n10_len0, dec_len, 10, 4, 0u32);
dec!(c25_o2_t_tag4_n10_len1, dec_len, 10, 4, 1u32);
dec!(c25_o2_q_tag4_n10_len2, dec_len, 10, 4, 2u32);
dec!(c25_o2_t_tag4_n10_len3, dec_len, 10, 4, 3u32);
dec!(c25_o2_t_tag4_n10_len2147483648, dec_len, 10, 4, 2147483648u32);
dec!(c25_o2_q_tag4_n10_len4294967295, dec_len, 10, 4, 4294967295u32);
dec!(c25_o2_q_tag6_n5_len0, dec_len, 5, 6, 0u32);
dec!(c25_o2_t_tag6_n5_len1, dec_len, 5, 6, 1u32);
dec!(c25_o2_q_tag6_n5_len2, dec_len, 5, 6, 2u32);
dec!(c25_o2_t_tag6_n5_len3, dec_len, 5, 6, 3u32);
dec!(c25_o2_t_tag6_n5_len2147483648, dec_len, 5, 6, 2147483648u32);
dec!(c25_o2_q_tag6_n5_len4294967295, dec_len, 5, 6, 4294967295u32);
dec!(c25_o2_t_tag6_n6_len0, dec_len, 6, 6, 0u32);
dec!(c25_o2_t_tag6_n6_len1, dec_len, 6, 6, 1u32);
dec!(c25_o2_t_tag6_n6_len2, dec_len, 6, 6, 2u32);
dec!(c25_o2_t_tag6_n6_len3, dec_len, 6, 6, 3u32);
dec!(c25_o2_t_tag6_n6_len2147483648, dec_len, 6, 6, 2147483648u32);
dec!(c25_o2_t_tag6_n6_len4294967295, dec_len, 6, 6, 4294967295u32);
dec!(c25_o2_q_tag6_n7_len0, dec_len, 7, 6, 0u32);
dec!(c25_o2_t_tag6_n7_len1, dec_len, 7, 6, 1u32);
dec!(c25_o2_q_tag6_n7_len2, dec_len, 7, 6, 2u32);
dec!(c25_o2_t_tag6_n7_len3, dec_len, 7, 6, 3u32);
dec!(c25_o2_t_tag6_n7_len2147483648, dec_len, 7, 6, 2147483648u32);
dec!(c25_o2_q_tag6_n7_len4294967295, dec_len, 7, 6, 4294967295u32);
dec!(c25_o2_t_tag6_n8_len0, dec_len, 8, 6, 0u32);
dec!(c25_o2_t_tag6_n8_len1, dec_len, 8, 6, 1u32);
dec!(c25_o2_t_tag6_n8_len2, dec_len, 8, 6, 2u32);
dec!(c25_o2_t_tag6_n8_len3, dec_len, 8, 6, 3u32);
dec!(c25_o2_t_tag6_n8_len2147483648, dec_len, 8, 6, 2147483648u32);
dec!(c25_o2_t_tag6_n8_len4294967295, dec_len, 8, 6, 4294967295u32);
dec!(c25_o2_t_tag6_n9_len0, dec_len, 9, 6, 0u32);
dec!(c25_o2_t_tag6_n9_len1, dec_len, 9, 6, 1u32);
dec!(c25_o2_t_tag6_n9_len2, dec_len, 9, 6, 2u32);
dec!(c25_o2_t_tag6_n9_len3, dec_len, 9, 6, 3u32);
dec!(c25_o2_t_tag6_n9_len2147483648, dec_len, 9, 6, 2147483648u32);
dec!(c25_o2_t_tag6_n9_len4294967295, dec_len, 9, 6, 4294967295u32);
dec!(c25_o2_q_tag6_n10_len0, dec_len, 10, 6, 0u32);
dec!(c25_o2_t_tag6_n10_len1, dec_len, 10, 6, 1u32);
dec!(c25_o2_q_tag6_n10_len2, dec_len, 10, 6, 2u32);
dec!(c25_o2_t_tag6_n10_len3, dec_len, 10, 6, 3u32);
dec!(c25_o2_t_tag6_n10_len2147483648, dec_len, 10, 6, 2147483648u32);
dec!(c25_o2_q_tag6_n10_len4294967295, dec_len, 10, 6, 4294967295u32);
dec!(c25_o2_q_tag7_n5_len0, dec_len, 5, 7, 0u32);
dec!(c25_o2_q_tag7_n5_len1, dec_len, 5, 7, 1u32);
dec!(c25_o2_q_tag7_n5_len2, dec_len, 5, 7, 2u32);
dec!(c25_o2_q_tag7_n5_len3, dec_len, 5, 7, 3u32);
dec!(c25_o2_q_tag7_n5_len2147483648, dec_len, 5, 7, 2147483648u32);
dec!(c25_o2_q_tag7_n5_len4294967295, dec_len, 5, 7, 4294967295u32);
dec!(c25_o2_q_tag7_n6_len0, dec_len, 6, 7, 0u32);
dec!(c25_o2_a_tag7_n6_len1, dec_len, 6, 7, 1u32);
dec!(c25_o2_a_tag7_n6_len2, dec_len, 6, 7, 2u32);
dec!(c25_o2_a_tag7_n6_len3, dec_len, 6, 7, 3u32);
dec!(c25_o2_a_tag7_n6_len2147483648, dec_len, 6, 7, 2147483648u32);
dec!(c25_o2_a_tag7_n6_len4294967295, dec_len, 6, 7, 4294967295u32);
dec!(c25_o2_q_tag7_n10_len0, dec_len, 10, 7, 0u32);
dec!(c25_o2_a_tag7_n10_len1, dec_len, 10, 7, 1u32);
dec!(c25_o2_a_tag7_n10_len2, dec_len, 10, 7, 2u32);
dec!(c25_o2_a_tag7_n10_len3, dec_len, 10, 7, 3u32);
dec!(c25_o2_a_tag7_n10_len2147483648, dec_len, 10, 7, 2147483648u32);
dec!(c25_o2_a_tag7_n10_len4294967295, dec_len, 10, 7, 4294967295u32);
dec!(c25_o2_q_tag8_n5_len0, dec_len, 5, 8, 0u32);
dec!(c25_o2_q_tag8_n5_len1, dec_len, 5, 8, 1u32);
dec!(c25_o2_q_tag8_n5_len2, dec_len, 5, 8, 2u32);
dec!(c25_o2_q_tag8_n5_len3, dec_len, 5, 8, 3u32);
dec!(c25_o2_q_tag8_n5_len2147483648, dec_len, 5, 8, 2147483648u32);
dec!(c25_o2_q_tag8_n5_len4294967295, dec_len, 5, 8, 4294967295u32);
dec!(c25_o2_q_tag8_n6_len0, dec_len, 6, 8, 0u32);
dec!(c25_o2_a_tag8_n6_len1, dec_len, 6, 8, 1u32);
dec!(c25_o2_a_tag8_n6_len2, dec_len, 6, 8, 2u32);
dec!(c25_o2_a_tag8_n6_len3, dec_len, 6, 8, 3u32);
dec!(c25_o2_a_tag8_n6_len2147483648, dec_len, 6, 8, 2147483648u32);
dec!(c25_o2_a_tag8_n6_len4294967295, dec_len, 6, 8, 4294967295u32);
dec!(c25_o2_q_tag8_n10_len0, dec_len, 10, 8, 0u32);
dec!(c25_o2_a_tag8_n10_len1, dec_len, 10, 8, 1u32);
dec!(c25_o2_a_tag8_n10_len2, dec_len, 10, 8, 2u32);
dec!(c25_o2_a_tag8_n10_len3, dec_len, 10, 8, 3u32);
dec!(c25_o2_a_tag8_n10_len2147483648, dec_len, 10, 8, 2147483648u32);
dec!(c25_o2_a_tag8_n10_len4294967295, dec_len, 10, 8, 4294967295u32);
dec!(c25_o2_q_list1_inner0_n15, dec_list1, 15, 0);
dec!(c25_o2_t_list1_inner1_n15, dec_list1, 15, 1);
dec!(c25_o2_q_list1_inner2_n15, dec_list1, 15, 2);
dec!(c25_o2_t_list1_inner3_n15, dec_list1, 15, 3);
dec!(c25_o2_a_list1_inner4_n15, dec_list1, 15, 4);
dec!(c25_o2_t_list1_inner5_n15, dec_list1, 15, 5);
dec!(c25_o2_t_list1_inner6_n15, dec_list1, 15, 6);
dec!(c25_o2_a_list1_inner7_n15, dec_list1, 15, 7);
dec!(c25_o2_a_list1_inner8_n15, dec_list1, 15, 8);
dec!(c25_o2_t_list1_inner9_n15, dec_list1, 15, 9);

// ---------------------------------------------------------------- O3: allocation bounded by the input length
static mut INPUT_LEN: usize = 0;
fn with_capacity_monitor<T>(cap: usize) -> Vec<T> {
    unsafe {
        assert!(cap <= INPUT_LEN, "decode: allocation request bounded by input length");
    }
    Vec::new()
}
fn alloc_bounded<const N: usize>(tag: u8) {
    let mut b: [u8; N] = kani::any();
    b[0] = tag;
    unsafe {
        INPUT_LEN = N;
    }
    let r = PropertyValue::decode(&b);
    std::mem::forget(r);
    kani::cover!(true, "witness: decode returned");
}
macro_rules! alloc {
    ($name:ident, $n:expr, $tag:expr) => {
        #[kani::proof]
        #[kani::unwind(16)]
        #[kani::stub(std::vec::Vec::with_capacity, with_capacity_monitor)]
        fn $name() {
            alloc_bounded::<$n>($tag);
        }
    };
}
alloc!(c25_o3_q_alloc_list_n5, 5, 7);
alloc!(c25_o3_q_alloc_map_n5, 5, 8);
alloc!(c25_o3_a_alloc_string_n5, 5, 4);
alloc!(c25_o3_q_alloc_blob_n5, 5, 6);
alloc!(c25_o3_a_alloc_list_n6, 6, 7);
