#!/bin/sh
# usage: ./runall.sh <tier> <ID>... ; runs checks sequentially, logs to .build/logs/run-<ID>-<tier>.txt, summary in .build/logs/summary.txt
tier=$1; shift
mkdir -p .build/logs
for p in "$@"; do
  ./check "$p" --tier "$tier" ${VERIF_CHECK_ARGS:-} > ".build/logs/run-$p-$tier.txt" 2>&1
  echo "$(date +%H:%M:%S) $p $tier exit $?" >> .build/logs/summary.txt
done
