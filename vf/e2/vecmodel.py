"""Callee models for Vec<T> / [T] with arbitrary element values (tuples, structs, nested byte vectors), as used by the B-tree split
and parent-update paths. Vectors are PyVec of python values; element positions are concrete, element contents symbolic."""
import re

import z3

from .symex import Enum, Opaque, PyVec, Ref, Struct, Tup, Unsupported, bv, deref_val, subcall
from .bytesmodel import ByteIt, buf_of, conc, m_byteit_into_iter, m_byteit_next, m_enumerate, m_iter, m_to_vec


class MapIt:
    def __init__(self, lo, hi, closure, loc):
        self.lo, self.hi, self.closure, self.loc = lo, hi, closure, loc


def m_range_map(ex, st, a, dst, callee):
    m = re.search(r"\{closure@([^}]*)\}", callee)
    r = a[0]
    if not m or not (isinstance(r, Struct) and r.name == "Range"):
        return None
    return [(MapIt(conc(r.fields[0]), conc(r.fields[1]), a[1], m.group(1)), [], None)]


def m_map_collect(ex, st, a, dst, callee):
    """<Map<Range<usize>, closure> as Iterator>::collect::<Vec<_>>: the real closure body runs once per index."""
    it = a[0]
    if not isinstance(it, MapIt):
        return None
    fn = ex.mf.resolve_closure(it.loc)
    if fn is None:
        return None
    st.env["$map_closure"] = it.closure
    partial = [([], [])]
    for i in range(it.lo, it.hi):
        nxt = []
        for items, cons in partial:
            s2 = st.fork()
            s2.pc += cons
            res = subcall(ex, s2, fn, [Ref("$map_closure"), bv(i, 64)])
            if isinstance(res, str):
                return res
            for val, extra in res:
                nxt.append((items + [val], cons + extra))
        partial = nxt
    return [(PyVec(items), cons, None) for items, cons in partial]


def m_vec_insert(ex, st, a, dst, callee):
    v = deref_val(ex, st, a[0])
    if not isinstance(v, PyVec):
        return None
    i = conc(a[1])
    if i > len(v.items):
        return "PANIC:Vec::insert index %d out of range for length %d" % (i, len(v.items))
    ex._write(st, a[0].root, list(a[0].projs), PyVec(v.items[:i] + [a[2]] + v.items[i:]))
    return [(Tup([]), [], None)]


def m_vec_pop(ex, st, a, dst, callee):
    v = deref_val(ex, st, a[0])
    if not isinstance(v, PyVec):
        return None
    if not v.items:
        return [(Enum("None"), [], None)]
    ex._write(st, a[0].root, list(a[0].projs), PyVec(v.items[:-1]))
    return [(Enum("Some", [v.items[-1]]), [], None)]


def m_vec_split_off(ex, st, a, dst, callee):
    v = deref_val(ex, st, a[0])
    if not isinstance(v, PyVec):
        return None
    i = conc(a[1])
    if i > len(v.items):
        return "PANIC:Vec::split_off index %d out of range for length %d" % (i, len(v.items))
    ex._write(st, a[0].root, list(a[0].projs), PyVec(v.items[:i]))
    return [(PyVec(v.items[i:]), [], None)]


def m_vec_remove(ex, st, a, dst, callee):
    v = deref_val(ex, st, a[0])
    if not isinstance(v, PyVec):
        return None
    i = conc(a[1])
    if i >= len(v.items):
        return "PANIC:Vec::remove index %d out of range for length %d" % (i, len(v.items))
    ex._write(st, a[0].root, list(a[0].projs), PyVec(v.items[:i] + v.items[i + 1:]))
    return [(v.items[i], [], None)]


def m_vec_truncate(ex, st, a, dst, callee):
    v = deref_val(ex, st, a[0])
    if not isinstance(v, PyVec):
        return None
    ex._write(st, a[0].root, list(a[0].projs), PyVec(v.items[:conc(a[1])]))
    return [(Tup([]), [], None)]


def m_extend_from_slice(ex, st, a, dst, callee):
    v = deref_val(ex, st, a[0])
    src = buf_of(ex, st, a[1])
    if not isinstance(v, PyVec):
        return None
    ex._write(st, a[0].root, list(a[0].projs), PyVec(list(v.items) + list(src.items)))
    return [(Tup([]), [], None)]


def m_vec_with_capacity(ex, st, a, dst, callee):
    return [(PyVec(), [], None)]


def m_index_range(ex, st, a, dst, callee):
    if not isinstance(a[0], Ref) or not isinstance(a[1], Struct):
        return None
    n = len(buf_of(ex, st, a[0]).items)
    r = a[1]
    if r.name == "Range":
        s, e = conc(r.fields[0]), conc(r.fields[1])
    elif r.name == "RangeFrom":
        s, e = conc(r.fields[0]), n
    elif r.name == "RangeTo":
        s, e = 0, conc(r.fields[0])
    else:
        return None
    if s > e or e > n:
        return "PANIC:slice index %d..%d out of range for length %d" % (s, e, n)
    return [(Ref(a[0].root, list(a[0].projs) + [("range", s, e)]), [], None)]


def m_index_usize(ex, st, a, dst, callee):
    if not isinstance(a[0], Ref):
        return None
    n = len(buf_of(ex, st, a[0]).items)
    i = conc(a[1])
    if i >= n:
        return "PANIC:index %d out of range for length %d" % (i, n)
    return [(Ref(a[0].root, list(a[0].projs) + [("elem", i)]), [], None)]


def m_clone(ex, st, a, dst, callee):
    v = deref_val(ex, st, a[0]) if isinstance(a[0], Ref) else a[0]
    return [(v, [], None)]


def m_slice_len(ex, st, a, dst, callee):
    return [(bv(len(buf_of(ex, st, a[0]).items), 64), [], None)]


def m_box_new_uninit(ex, st, a, dst, callee):
    """`vec![a, b]` lowers to Box::<[T; N]>::new_uninit() + a write through the raw pointer + box_assume_init_into_vec_unsafe."""
    ex.n += 1
    slot = "$box%d" % ex.n
    st.env[slot] = Struct("MaybeUninit", {0: Opaque("uninit"), 1: Struct("ManuallyDrop", {0: Struct("MaybeDangling", {0: PyVec()})})})
    return [(Struct("Box", {0: Struct("Unique", {0: Ref(slot)})}), [], None)]


def m_box_into_vec(ex, st, a, dst, callee):
    b = a[0]
    if not (isinstance(b, Struct) and b.name == "Box"):
        return None
    inner = deref_val(ex, st, b.fields[0].fields[0])
    v = inner.fields[1].fields[0].fields[0]
    if not isinstance(v, PyVec):
        raise Unsupported("vec! buffer was not initialised as an array")
    return [(PyVec(list(v.items)), [], None)]


T = r"(?:\(.*\)|Vec<u8>|Vec<u32>|PageId|PathEntry|usize|u64|u32|EdgeRecord|I2eRecord|nervusdb_api::EdgeKey)"
VEC_MODELS = [
    (r"^Vec::<.*>::extend_from_slice$", m_extend_from_slice),
    (r"^Box::<\[.*; \d+\]>::new_uninit$", m_box_new_uninit),
    (r"^std::boxed::box_assume_init_into_vec_unsafe::<", m_box_into_vec),
    (r"^<std::ops::Range<usize> as Iterator>::map::<", m_range_map),
    (r"^<std::iter::Map<std::ops::Range<usize>, \{closure@[^}]*\}> as Iterator>::collect::<Vec<", m_map_collect),
    (r"^Vec::<%s>::insert$" % T, m_vec_insert),
    (r"^Vec::<%s>::pop$" % T, m_vec_pop),
    (r"^Vec::<%s>::split_off$" % T, m_vec_split_off),
    (r"^Vec::<%s>::remove$" % T, m_vec_remove),
    (r"^Vec::<%s>::truncate$" % T, m_vec_truncate),
    (r"^Vec::<%s>::with_capacity$" % T, m_vec_with_capacity),
    (r"^<Vec<%s> as (?:std::ops::)?Index<(?:std::ops::)?Range(?:From|To)?<usize>>>::index$" % T, m_index_range),
    (r"^<Vec<%s> as (?:std::ops::)?Index(?:Mut)?<usize>>::index(?:_mut)?$" % T, m_index_usize),
    (r"^<Vec<u8> as Clone>::clone$", m_clone),
    (r"slice::<impl \[%s\]>::to_vec$" % T, m_to_vec),
    (r"slice::<impl \[%s\]>::len$" % T, m_slice_len),
    (r"slice::<impl \[%s\]>::iter$" % T, m_iter),
    (r"^<std::slice::Iter<'_, %s> as Iterator>::enumerate$" % T, m_enumerate),
    (r"^<Enumerate<std::slice::Iter<'_, %s>> as IntoIterator>::into_iter$" % T, m_byteit_into_iter),
    (r"^<Enumerate<std::slice::Iter<'_, %s>> as Iterator>::next$|^<std::slice::Iter<'_, %s> as Iterator>::next$" % (T, T), m_byteit_next),
]
