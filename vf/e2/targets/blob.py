"""C18-O4: a blob chain written by BlobStore::write_direct only ever writes to pages the allocator handed out for it, and
BlobStore::read_direct returns exactly the bytes written - for ANY page ids the allocator may return (not only consecutive ones).

The allocator is a stub returning symbolic, pairwise distinct page ids (that is all the real allocator promises - C18-O3 - once free
pages exist below the high-water mark, e.g. after vacuum); Pager::write_page / read_page are a page store keyed by symbolic page id.
The blob spans 3 pages (2 x 8182 + 5 bytes; a handful of symbolic bytes, the rest a fixed pattern)."""
import re

import z3

from ..symex import GENERIC_MODELS, STD_CMP_MODELS, Enum, Exec, Opaque, PyVec, Ref, State, Struct, Tup, Unsupported, bv, deref_val
from ..bytesmodel import BYTES_MODELS, buf_of, conc
from ..vecmodel import VEC_MODELS

PAGE = 8192
IMPL = r"blob_store\.rs[^>]*>::"


class ListIt:
    def __init__(self, items, pos=0):
        self.items, self.pos = items, pos


def models(alloc_ids):
    def m_chunks(ex, st, a, dst, callee):
        n = conc(a[1], "chunk size")
        total = len(buf_of(ex, st, a[0]).items)
        refs = [Ref(a[0].root, list(a[0].projs) + [("range", s, min(s + n, total))]) for s in range(0, total, n)]
        return [(ListIt(refs), [], None)]

    def m_collect(ex, st, a, dst, callee):
        return [(PyVec(list(a[0].items)), [], None)] if isinstance(a[0], ListIt) else None

    def m_into_iter(ex, st, a, dst, callee):
        v = a[0]
        if isinstance(v, Ref):
            v = deref_val(ex, st, v)
        if isinstance(v, PyVec):
            return [(ListIt(list(v.items)), [], None)]
        if isinstance(v, ListIt):
            return [(v, [], None)]
        return None

    def m_enumerate(ex, st, a, dst, callee):
        it = a[0]
        if not isinstance(it, ListIt):
            return None
        return [(ListIt([Tup([bv(i, 64), x]) for i, x in enumerate(it.items[it.pos:])]), [], None)]

    def m_rev(ex, st, a, dst, callee):
        it = a[0]
        return [(ListIt(list(reversed(it.items[it.pos:]))), [], None)] if isinstance(it, ListIt) else None

    def m_next(ex, st, a, dst, callee):
        it = deref_val(ex, st, a[0]) if isinstance(a[0], Ref) else a[0]
        if not isinstance(it, ListIt):
            return None
        if it.pos >= len(it.items):
            return [(Enum("None"), [], None)]
        return [(("ADV", a[0], ListIt(it.items, it.pos + 1), Enum("Some", [it.items[it.pos]])), [], None)]

    def m_allocate(ex, st, a, dst, callee):
        k = st.env.get("$allocs", 0)
        if k >= len(alloc_ids):
            raise Unsupported("more allocations than the %d modelled" % len(alloc_ids))
        st.env["$allocs"] = k + 1
        return [(Enum("Ok", [Struct("PageId", {0: alloc_ids[k]})]), [], None)]

    def m_write_page(ex, st, a, dst, callee):
        pid = a[1].fields[0] if isinstance(a[1], Struct) else a[1]
        img = PyVec(list(buf_of(ex, st, a[2]).items))
        st.env["$writes"] = st.env.get("$writes", []) + [(pid, img)]
        return [(Enum("Ok", [Tup([])]), [], None)]

    def m_read_page(ex, st, a, dst, callee):
        pid = a[1].fields[0] if isinstance(a[1], Struct) else a[1]
        writes = st.env.get("$writes", [])
        alts, none = [], []
        # the LAST write to a page id is what a read returns
        for j in range(len(writes) - 1, -1, -1):
            wp, img = writes[j]
            alts.append((Enum("Ok", [PyVec(list(img.items))]), none + [wp == pid], "read page written as #%d" % j))
            none = none + [wp != pid]
        alts.append((Enum("Err", [Enum("PageNotAllocated", [pid])]), none, "read of a page the blob never wrote"))
        return alts

    def m_page_id(ex, st, a, dst, callee):
        if callee.endswith("as_u64"):
            return [(a[0].fields[0] if isinstance(a[0], Struct) else a[0], [], None)]
        return [(Struct("PageId", {0: a[0]}), [], None)]

    def m_extend(ex, st, a, dst, callee):
        v = deref_val(ex, st, a[0])
        src = buf_of(ex, st, a[1])
        ex._write(st, a[0].root, list(a[0].projs), PyVec(list(v.items) + list(src.items)))
        return [(Tup([]), [], None)]

    def m_is_empty(ex, st, a, dst, callee):
        from ..symex import FALSE, TRUE
        return [(TRUE if not buf_of(ex, st, a[0]).items else FALSE, [], None)]

    return [(r"slice::<impl \[u8\]>::chunks$", m_chunks), (r"^<Chunks<'_, u8> as Iterator>::collect::<Vec<&\[u8\]>>$", m_collect),
            (r"^<Vec<&\[u8\]> as IntoIterator>::into_iter$|^<Rev<std::vec::IntoIter<&\[u8\]>> as IntoIterator>::into_iter$", m_into_iter),
            (r"^<std::vec::IntoIter<&\[u8\]> as Iterator>::rev$|^<Chunks<'_, u8> as Iterator>::rev$", m_rev),
            (r"^<Chunks<'_, u8> as Iterator>::enumerate$|^<std::vec::IntoIter<&\[u8\]> as Iterator>::enumerate$", m_enumerate),
            (r"^<Enumerate<Chunks<'_, u8>> as IntoIterator>::into_iter$|^<Chunks<'_, u8> as IntoIterator>::into_iter$", m_into_iter),
            (r"^<Rev<std::vec::IntoIter<&\[u8\]>> as Iterator>::next$|^<Enumerate<Chunks<'_, u8>> as Iterator>::next$|^<Chunks<'_, u8> as Iterator>::next$"
             r"|^<Rev<Chunks<'_, u8>> as Iterator>::next$|^<std::vec::IntoIter<&\[u8\]> as Iterator>::next$", m_next),
            (r"^Pager::allocate_page$", m_allocate), (r"^Pager::write_page$", m_write_page), (r"^Pager::read_page$", m_read_page),
            (r"^PageId::(new|as_u64)$", m_page_id), (r"^Vec::<u8>::extend_from_slice$", m_extend), (r"slice::<impl \[u8\]>::is_empty$", m_is_empty)] + \
        BYTES_MODELS + VEC_MODELS + STD_CMP_MODELS + GENERIC_MODELS


def run(npages):
    def go(mf, tier):
        wfn, rfn = mf.find(IMPL + r"write_direct\("), mf.find(IMPL + r"read_direct\(")
        probe = Exec(wfn, models([]), mf=mf, inline=r"^$")
        maxdata = conc(probe.operand(State(), "const blob_store::MAX_DATA_PER_PAGE")[0], "MAX_DATA_PER_PAGE")
        total = (npages - 1) * maxdata + 5
        sym_at = sorted({0, 1, maxdata - 1, maxdata, total - 1, total - 5} & set(range(total)))
        data = [bv((i * 7 + 3) % 251, 8) for i in range(total)]
        for i in sym_at:
            data[i] = z3.BitVec("blob_byte_%d" % i, 8)
        ids = [z3.BitVec("allocated_page_%d" % k, 64) for k in range(npages)]
        st = State()
        st.pc += [z3.And(z3.UGE(x, 2), z3.ULT(x, 1 << 20)) for x in ids] + [x != y for i, x in enumerate(ids) for y in ids[i + 1:]]
        st.env["$data"] = PyVec(data)
        st.env["_1"], st.env["_2"] = Opaque("pager"), Ref("$data")
        ex = Exec(wfn, models(ids), bound=npages + 3, mf=mf, inline=r"^$", max_paths=200)
        failed, n, queries, stime = [], 0, 0, 0.0
        for p in ex.run("bb0", st):
            if p.kind == "panic":
                failed.append("write_direct can panic: %s" % str(p.info)[:80])
                continue
            if p.kind == "bound":
                raise Unsupported("write_direct cut by the loop bound")
            if p.kind != "return" or not (isinstance(p.ret, Enum) and p.ret.variant == "Ok"):
                continue
            writes = p.st.env.get("$writes", [])
            used = ids[:p.st.env.get("$allocs", 0)]
            for wp, _ in writes:
                if not ex.entails(p.pc, z3.Or([wp == x for x in used] + [z3.BoolVal(False)])):
                    m = ex.model(p.pc, z3.And([wp != x for x in used]))
                    failed.append("a blob chunk is written to a page the allocator did not hand out for this blob (it overwrites whatever lives there), "
                                  "e.g. allocated %s, written %s" % ([m.eval(x, model_completion=True) for x in used], m.eval(wp, model_completion=True)))
                    break
            # read the chain back through the real reader
            s2 = p.st.fork()
            for key in [key for key in s2.env if re.match(r"^_\d+(@\S+)?$", key)]:
                del s2.env[key]
            s2.visits, s2.frames = {}, []
            s2.env["_1"], s2.env["_2"] = Opaque("pager"), p.ret.fields[0]
            ex2 = Exec(rfn, models(ids), bound=npages + 3, mf=mf, inline=r"^$", max_paths=400)
            for q in ex2.run("bb0", s2):
                if q.kind == "panic":
                    failed.append("read_direct can panic on a chain write_direct produced: %s" % str(q.info)[:80])
                    continue
                if q.kind == "bound":
                    if ex2.feasible(q.st.pc):
                        failed.append("read_direct does not terminate within %d pages on a chain of %d pages (cycle or wrong link)" % (npages + 3, npages))
                    continue
                if q.kind != "return":
                    continue
                n += 1
                if not (isinstance(q.ret, Enum) and q.ret.variant == "Ok"):
                    failed.append("read_direct fails on a chain write_direct produced (a link points to a page the blob never wrote)")
                    continue
                out = q.ret.fields[0]
                out = deref_val(ex2, q.st, out) if isinstance(out, Ref) else out
                if not isinstance(out, PyVec) or len(out.items) != total:
                    failed.append("read_direct returns %s bytes, %d were written" % (len(out.items) if isinstance(out, PyVec) else "?", total))
                    continue
                diff = [i for i in range(total) if not (out.items[i] is data[i] or z3.eq(z3.simplify(out.items[i]), z3.simplify(data[i])))]
                if diff and not ex2.entails(q.st.pc, z3.And([out.items[i] == data[i] for i in diff])):
                    failed.append("read_direct returns different bytes than were written (first difference at offset %d)" % diff[0])
            queries += ex2.queries
            stime += ex2.solver_time
        queries += ex.queries
        stime += ex.solver_time
        res = {"paths": n, "queries": queries, "solver_time_s": round(stime, 3),
               "sample": ["blob of %d bytes = %d pages; allocator returns %d symbolic pairwise distinct page ids" % (total, npages, npages)],
               "functions": ["blob_store::BlobStore::{write_direct, read_direct}"]}
        if failed:
            res.update({"status": "fail", "failed": sorted({re.sub(r", e\.g\. .*$| \(first difference.*$", "", f) for f in failed}), "reason": "; ".join(sorted(set(failed)))[:500],
                        "witness_text": sorted(set(failed))[:3]})
        else:
            res["status"] = "pass"
        return res
    return go


TARGETS = [
    {"name": "c18_o4_q_e2_blob_chain_any_page_ids_3_pages", "crate": "nervusdb-storage", "run": run(3)},
    {"name": "c18_o4_q_e2_blob_chain_any_page_ids_1_page", "crate": "nervusdb-storage", "run": run(1)},
]
