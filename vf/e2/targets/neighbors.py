"""C14-O2: the traversal iterators (read_path_iters.rs NeighborsIter / IncomingNeighborsIter) never return a relationship one of
whose end nodes - or which itself - was tombstoned by a NEWER run, and return every relationship that is not hidden.

The real `next` (with apply_pending_tombstones / load_run / load_segment / edge_blocked_* inlined) runs on a symbolic snapshot:
R runs (newest first) + one compacted segment. Each run carries up to one tombstoned node id, one tombstoned edge and one
relationship of the traversed node; the segment carries one relationship. All ids are symbolic 32-bit values. Hash sets are
modelled as finite lists of symbolic elements (membership = disjunction of equalities).

A relationship whose far end node is tombstoned by the SAME run (created and deleted by one transaction, e.g.
`CREATE (a)-[:R]->(b) WITH b DETACH DELETE b`) is dangling as well and must not be returned. A relationship tombstone in the same
run does not hide the run's own relationship (delete + re-create of the same relationship in one transaction keeps it)."""
import itertools
import re

import z3

from ..symex import (FALSE, GENERIC_MODELS, STD_CMP_MODELS, TRUE, Enum, Exec, Opaque, PyVec, Ref, State, Struct, Tup, Unsupported, bv,
                     deref_val)
from ..vecmodel import VEC_MODELS


def b2bv(c):
    return z3.If(c, bv(1, 1), bv(0, 1)) if TRUE.size() == 1 else z3.If(c, TRUE, FALSE)


def val_eq(x, y):
    if isinstance(x, Struct) and isinstance(y, Struct):
        return z3.And([val_eq(x.fields[k], y.fields[k]) for k in sorted(x.fields)])
    return x == y


def set_models():
    def S(ex, st, ref):
        v = deref_val(ex, st, ref)
        if not isinstance(v, PyVec):
            raise Unsupported("expected a set model, got %r" % (type(v).__name__,))
        return v

    def m_is_empty(ex, st, a, dst, callee):
        return [(TRUE if not S(ex, st, a[0]).items else FALSE, [], None)]

    def m_drain(ex, st, a, dst, callee):
        v = S(ex, st, a[0])
        ex._write(st, a[0].root, list(a[0].projs), PyVec())
        return [(PyVec(list(v.items)), [], None)]

    def m_extend(ex, st, a, dst, callee):
        v = S(ex, st, a[0])
        items = a[1]
        if isinstance(items, Ref):
            items = deref_val(ex, st, items)
        if not isinstance(items, PyVec):
            return None
        ex._write(st, a[0].root, list(a[0].projs), PyVec(list(v.items) + list(items.items)))
        return [(Tup([]), [], None)]

    def m_contains(ex, st, a, dst, callee):
        v = S(ex, st, a[0])
        x = deref_val(ex, st, a[1]) if isinstance(a[1], Ref) else a[1]
        cond = z3.Or([val_eq(e, x) for e in v.items]) if v.items else z3.BoolVal(False)
        return [(TRUE, [cond], None), (FALSE, [z3.Not(cond)], None)]

    def m_clear(ex, st, a, dst, callee):
        ex._write(st, a[0].root, list(a[0].projs), PyVec())
        return [(Tup([]), [], None)]

    def m_slice_get(ex, st, a, dst, callee):
        v = deref_val(ex, st, a[0])
        if not isinstance(v, PyVec):
            return None
        i = z3.simplify(a[1])
        if not z3.is_bv_value(i):
            raise Unsupported("slice::get with a symbolic index")
        i = i.as_long()
        if i < len(v.items):
            return [(Enum("Some", [Ref(a[0].root, list(a[0].projs) + [("elem", i)])]), [], None)]
        return [(Enum("None"), [], None)]

    def m_tomb_nodes(ex, st, a, dst, callee):
        return [(deref_val(ex, st, a[0]).fields[0], [], None)]

    def m_tomb_edges(ex, st, a, dst, callee):
        return [(deref_val(ex, st, a[0]).fields[1], [], None)]

    def m_load_run(ex, st, a, dst, callee):
        run = deref_val(ex, st, a[0])
        out = deref_val(ex, st, a[2])
        ex._write(st, a[2].root, list(a[2].projs), PyVec(list(out.items) + list(run.fields[2].items)))
        return [(Tup([]), [], None)]

    def m_load_seg(ex, st, a, dst, callee):
        seg = deref_val(ex, st, a[0])
        out = deref_val(ex, st, a[3])
        ex._write(st, a[3].root, list(a[3].projs), PyVec(list(out.items) + list(seg.fields[0].items)))
        return [(Tup([]), [], None)]

    return [(r"^HashSet::<.*>::is_empty$", m_is_empty), (r"^HashSet::<.*>::drain$", m_drain),
            (r"^<HashSet<.*> as Extend<.*>>::extend::<", m_extend), (r"^HashSet::<.*>::contains::<", m_contains),
            (r"^HashSet::<.*>::clear$", m_clear), (r"slice::<impl \[Arc<.*>\]>::get::<usize>$", m_slice_get),
            (r"L0Run::iter_tombstoned_nodes$", m_tomb_nodes), (r"L0Run::iter_tombstoned_edges$", m_tomb_edges),
            (r"^load_(outgoing|incoming)_run_edges$", m_load_run), (r"^load_(outgoing|incoming)_segment_edges$", m_load_seg),
            (r"^<Vec<nervusdb_api::EdgeKey> as (?:std::ops::)?Index<usize>>::index$", None)]


def edge(name, fixed_src=None, fixed_dst=None):
    return Struct("EdgeKey", {0: fixed_src if fixed_src is not None else z3.BitVec(name + "_src", 32),
                              1: z3.BitVec(name + "_rel", 32),
                              2: fixed_dst if fixed_dst is not None else z3.BitVec(name + "_dst", 32)})


def drive(mf, fn, models, ty, st, total, nruns, failed):
    """Call the real `next` on the iterator in st.env["$it"] until it returns None; -> ([(state, yielded edges, executor)], queries, time, inlined)."""
    queries, stime, inlined = 0, 0.0, set()
    states = [(st, [])]
    finished = []
    for step in range(total + 1):
        nxt = []
        for s, got in states:
            ex = Exec(fn, models, bound=2 * (nruns + 3) + 4, mf=mf, inline=r".", max_paths=4000)
            s2 = s.fork()
            for k in [k for k in s2.env if re.match(r"^_\d+(@\d+)?$", k)]:
                del s2.env[k]
            s2.visits, s2.frames = {}, []
            s2.env["_1"] = Ref("$it")
            paths = ex.run("bb0", s2)
            queries += ex.queries
            stime += ex.solver_time
            inlined |= ex.inlined
            for p in paths:
                if p.kind == "panic":
                    failed.append("%s::next can panic: %s" % (ty, str(p.info)[:80]))
                elif p.kind == "bound":
                    raise Unsupported("%s::next cut by the loop bound" % ty)
                elif p.kind == "return":
                    if isinstance(p.ret, Enum) and p.ret.variant == "None":
                        finished.append((p.st, got, ex))
                    elif isinstance(p.ret, Enum) and p.ret.variant == "Some":
                        if step == total:
                            failed.append("%s yields more relationships than the snapshot holds" % ty)
                        else:
                            nxt.append((p.st, got + [p.ret.fields[0]]))
                    else:
                        raise Unsupported("unexpected return value %r" % (p.ret,))
        states = nxt
        if not states:
            break
    return finished, queries, stime, inlined


def iter_struct(ty, runs, segs, node):
    return Struct(ty, {0: PyVec(runs), 1: PyVec(segs), 2: node, 3: Enum("None"), 4: bv(0, 64), 5: bv(0, 64), 6: PyVec(),
                       7: bv(0, 64), 8: bv(0, 64), 9: PyVec(), 10: PyVec(), 11: PyVec(), 12: PyVec(), 13: PyVec(), 14: FALSE})


class ListIt:
    def __init__(self, items, pos=0):
        self.items, self.pos = items, pos


def compaction_models():
    def m_set_new(ex, st, a, dst, callee):
        return [(PyVec(), [], None)]

    def m_iter_edges(ex, st, a, dst, callee):
        return [(ListIt(list(deref_val(ex, st, a[0]).fields[2].items)), [], None)]

    def m_identity(ex, st, a, dst, callee):
        return [(a[0], [], None)]

    def m_list_next(ex, st, a, dst, callee):
        it = deref_val(ex, st, a[0]) if isinstance(a[0], Ref) else a[0]
        if not isinstance(it, ListIt):
            return None
        if it.pos >= len(it.items):
            return [(Enum("None"), [], None)]
        return [(("ADV", a[0], ListIt(it.items, it.pos + 1), Enum("Some", [it.items[it.pos]])), [], None)]

    def m_runs_iter(ex, st, a, dst, callee):
        v = deref_val(ex, st, a[0])
        if not isinstance(v, PyVec):
            return None
        return [(ListIt([Ref(a[0].root, list(a[0].projs) + [("elem", i)]) for i in range(len(v.items))]), [], None)]

    return [(r"^HashSet::<.*>::new$", m_set_new), (r"^L0Run::iter_edges$", m_iter_edges),
            (r"^<FlatMap<.*> as IntoIterator>::into_iter$|^<std::slice::Iter<'_, Arc<L0Run>> as IntoIterator>::into_iter$", m_identity),
            (r"^<FlatMap<.*> as Iterator>::next$|^<std::slice::Iter<'_, Arc<L0Run>> as Iterator>::next$", m_list_next),
            (r"slice::<impl \[Arc<L0Run>\]>::iter$", m_runs_iter)]


def run_compaction_vs_reads(nruns, shapes):
    """C05-O2: the relationships build_segment_from_runs keeps (the real filter loop, up to its `sort` call) are exactly the
    relationships the merged read path (the real NeighborsIter) returns for the same runs."""
    def go(mf, tier):
        from ..vecmodel import m_index_usize
        base = [(p, f if f is not None else m_index_usize) for p, f in set_models()] + VEC_MODELS + STD_CMP_MODELS + GENERIC_MODELS
        itfn = mf.find(r"read_path_iters\.rs:[^>]*>::next\(_1: &mut NeighborsIter\)")
        bfn = mf.find(r"^fn build_segment_from_runs\(")
        stop = [lbl for lbl, stmts in bfn.blocks.items() if "slice::<impl [nervusdb_api::EdgeKey]>::sort(" in stmts[-1]]
        if len(stop) != 1:
            raise Unsupported("cannot locate the end of the filter loop of build_segment_from_runs")
        # the block AFTER the sort call is where we stop: take the sort's return target
        m = re.search(r"-> \[return: (bb\d+)", bfn.blocks[stop[0]][-1])
        edges_local = bfn.debug.get("edges")
        if not m or not edges_local:
            raise Unsupported("build_segment_from_runs: no `edges` local / sort target")
        node = z3.BitVec("node", 32)
        failed, ncases, queries, stime = [], 0, 0, 0.0
        for shape in shapes:
            st = State()
            runs, edges = [], []
            for k in range(nruns):
                tn = [z3.BitVec("run%d_tombstoned_node" % k, 32)] if shape[k][0] else []
                te = [edge("run%d_tombstoned_edge" % k)] if shape[k][1] else []
                e = [edge("run%d_edge" % k, fixed_src=node)] if shape[k][2] else []
                runs.append(Struct("L0RunModel", {0: PyVec(tn), 1: PyVec(te), 2: PyVec(e)}))
                edges.append(e)
            # reads
            s_it = st.fork()
            s_it.env["$it"] = iter_struct("NeighborsIter", runs, [], node)
            finished, q, t_, _ = drive(mf, itfn, base, "NeighborsIter", s_it, sum(len(e) for e in edges) + 1, nruns, failed)
            queries += q
            stime += t_
            # compaction
            s_b = st.fork()
            s_b.env["$runs"] = PyVec(runs)
            s_b.env["_1"] = Struct("SegmentId", {0: bv(7, 64)})
            s_b.env["_2"] = Ref("$runs")

            def m_sort(ex, st2, a, dst, callee):
                return [(Tup([]), [], None)]
            exb = Exec(bfn, compaction_models() + [(r"slice::<impl \[nervusdb_api::EdgeKey\]>::sort$", m_sort)] + base, bound=2 * nruns + 6, mf=mf,
                       inline=r"^$", stop_at={m.group(1): "after-filter"}, max_paths=4000)
            bpaths = exb.run("bb0", s_b)
            queries += exb.queries
            stime += exb.solver_time
            kept_paths = []
            for p in bpaths:
                if p.kind == "panic":
                    failed.append("build_segment_from_runs can panic: %s" % str(p.info)[:80])
                elif p.kind == "bound":
                    raise Unsupported("build_segment_from_runs cut by the loop bound")
                elif p.kind == "stop":
                    kept = p.st.env.get(edges_local)
                    if not isinstance(kept, PyVec):
                        raise Unsupported("`edges` is not a vector at the end of the filter loop")
                    kept_paths.append((p.st.pc, kept.items))
            if not kept_paths:
                raise Unsupported("no path of build_segment_from_runs reaches the end of its filter loop")
            for s, got, ex in finished:
                for bpc, kept in kept_paths:
                    pc = list(s.pc) + [c for c in bpc if all(c is not d for d in s.pc)]
                    if not ex.feasible(pc):
                        continue
                    ncases += 1
                    for k in range(nruns):
                        for e in edges[k]:
                            in_reads = any(str(g.fields[1]) == str(e.fields[1]) for g in got)
                            in_seg = any(str(g.fields[1]) == str(e.fields[1]) for g in kept)
                            if in_reads != in_seg:
                                mdl = ex.model(pc)
                                failed.append("compaction %s a relationship of run %d that reads %s before compaction (runs shaped %s), e.g. node=%s"
                                              % ("drops" if in_reads else "keeps", k, "return" if in_reads else "hide", shape,
                                                 mdl.eval(node, model_completion=True)))
        res = {"paths": ncases, "queries": queries, "solver_time_s": round(stime, 3),
               "sample": ["%d runs, shapes (tombstoned node, tombstoned edge, relationship) per run: %s" % (nruns, list(shapes)[:6])],
               "functions": ["engine::build_segment_from_runs (filter loop), read_path_iters::NeighborsIter::next + helpers"]}
        if failed:
            from .. import witness as W
            reproduced, wit = None, []
            rep, lines = W.run(["compaction-visible"])
            wit.append("replay `compaction-visible`: %s" % " | ".join(l for l in lines if l.startswith("WITNESS"))[:400])
            if rep:
                reproduced = True
            res.update({"status": "fail", "failed": sorted({re.sub(r" \(runs shaped .*$", "", f) for f in failed}), "reason": "; ".join(sorted(set(failed)))[:500],
                        "witness_text": sorted(set(failed))[:4] + wit, "reproduced": reproduced})
        else:
            res["status"] = "pass"
        return res
    return go


def run_iter(direction, nruns, shapes):
    """direction: 'out' (NeighborsIter, node = source) or 'in' (IncomingNeighborsIter, node = destination)."""
    def go(mf, tier):
        from ..vecmodel import m_index_usize
        models = [(p, f if f is not None else m_index_usize) for p, f in set_models()] + VEC_MODELS + STD_CMP_MODELS + GENERIC_MODELS
        ty = "NeighborsIter" if direction == "out" else "IncomingNeighborsIter"
        fn = mf.find(r"read_path_iters\.rs:[^>]*>::next\(_1: &mut %s\)" % ty)
        node = z3.BitVec("node", 32)
        failed, ncases, queries, stime = [], 0, 0, 0.0
        inlined = set()
        for shape in shapes:
            # shape[k] = (has tombstoned node, has tombstoned edge, has relationship) for run k
            st = State()
            runs, tomb_nodes, tomb_edges, edges = [], [], [], []
            for k in range(nruns):
                tn = [z3.BitVec("run%d_tombstoned_node" % k, 32)] if shape[k][0] else []
                te = [edge("run%d_tombstoned_edge" % k)] if shape[k][1] else []
                e = [edge("run%d_edge" % k, fixed_src=node) if direction == "out" else edge("run%d_edge" % k, fixed_dst=node)] if shape[k][2] else []
                runs.append(Struct("L0RunModel", {0: PyVec(tn), 1: PyVec(te), 2: PyVec(e)}))
                tomb_nodes.append(tn), tomb_edges.append(te), edges.append(e)
            seg_e = edge("segment_edge", fixed_src=node) if direction == "out" else edge("segment_edge", fixed_dst=node)
            segs = [Struct("SegmentModel", {0: PyVec([seg_e])})]
            st.env["$it"] = iter_struct(ty, runs, segs, node)
            total = sum(len(e) for e in edges) + 1
            finished, q, t_, inl = drive(mf, fn, models, ty, st, total, nruns, failed)
            queries += q
            stime += t_
            inlined |= inl
            other = 2 if direction == "out" else 0      # field of the far end node
            for s, got, ex in finished:
                ncases += 1
                # every candidate relationship with its age: runs 0..n-1 (newest first), then the segment
                cands = [(k, e) for k in range(nruns) for e in edges[k]] + [(nruns, seg_e)]
                for age, e in cands:
                    newer_nodes = [t for k in range(min(age, nruns)) for t in tomb_nodes[k]]
                    newer_edges = [t for k in range(min(age, nruns)) for t in tomb_edges[k]]
                    same_nodes = tomb_nodes[age] if age < nruns else []
                    hidden = z3.Or([t == e.fields[other] for t in newer_nodes + same_nodes] + [t == node for t in newer_nodes] +
                                   [val_eq(t, e) for t in newer_edges] + [z3.BoolVal(False)])
                    returned = any(g.fields[1] is e.fields[1] or str(g.fields[1]) == str(e.fields[1]) for g in got)
                    what = "the segment" if age == nruns else "run %d" % age
                    if returned and ex.feasible(s.pc, hidden):
                        m = ex.model(s.pc, hidden)
                        failed.append("%s returns a relationship from %s although the same or a newer run tombstones one of its end nodes, or a newer run the relationship itself "
                                      "(runs shaped %s), e.g. %s" % (ty, what, shape, witness(m, node, tomb_nodes, e)))
                    # completeness: not hidden (also not by its own run's node tombstones, which the iterator may or may not apply) => returned
                    same_run_nodes = tomb_nodes[age] if age < nruns else []
                    maybe_hidden = z3.Or([hidden] + [t == node for t in same_run_nodes])
                    if not returned and ex.feasible(s.pc, z3.Not(maybe_hidden)):
                        failed.append("%s loses a relationship from %s that no newer run hides (runs shaped %s)" % (ty, what, shape))
        res = {"paths": ncases, "queries": queries, "solver_time_s": round(stime, 3),
               "sample": ["%s over %d runs + 1 segment, run shapes (tombstoned node, tombstoned edge, relationship): %s" % (ty, nruns, list(shapes)[:6])],
               "functions": ["read_path_iters::%s::{next, apply_pending_tombstones, load_run, load_segment}, read_path_neighbors::edge_blocked_%s"
                             % (ty, "outgoing" if direction == "out" else "incoming")]}
        if failed:
            # native replay of the two reachable instances (relationship in a segment / in an older run, end node deleted later)
            from .. import witness as W
            reproduced, wit = None, []
            for older in ("segment", "run"):
                rep, lines = W.run(["dangling", older])
                wit += ["replay `dangling %s`: %s" % (older, " | ".join(l for l in lines if l.startswith("WITNESS"))[:300])]
                if rep:
                    reproduced = True       # the fixed scenarios are not derived from the solver's model: not reproducing them proves nothing
            res.update({"status": "fail", "failed": sorted({re.sub(r" \(runs shaped .*$", "", f) for f in failed}), "reason": "; ".join(sorted(set(failed)))[:500],
                        "witness_text": sorted(set(failed))[:4] + wit, "reproduced": reproduced})
        else:
            res["status"] = "pass"
        return res
    return go


def witness(m, node, tomb_nodes, e):
    return "node=%s tombstoned=%s edge=(%s,%s,%s)" % (m.eval(node, model_completion=True), [[m.eval(t, model_completion=True) for t in ts] for ts in tomb_nodes],
                                                       *[m.eval(e.fields[i], model_completion=True) for i in range(3)])


FULL = (True, True, True)
QUICK_SHAPES = [(FULL, FULL), ((True, False, False), (False, False, True)), ((False, False, True), (True, True, False)),
                ((False, False, False), (False, False, True)), ((False, True, True), (False, False, True))]
ALL_SHAPES = list(itertools.product(list(itertools.product((False, True), repeat=3)), repeat=2))
TARGETS = [
    {"name": "c05_o2_q_compaction_keeps_what_reads_return_2_runs", "crate": "nervusdb-storage", "run": run_compaction_vs_reads(2, QUICK_SHAPES)},
    {"name": "c05_o2_t_compaction_keeps_what_reads_return_all_shapes", "crate": "nervusdb-storage", "run": run_compaction_vs_reads(2, ALL_SHAPES)},
    {"name": "c14_o2_q_outgoing_iter_hides_tombstoned_2_runs", "crate": "nervusdb-storage", "run": run_iter("out", 2, QUICK_SHAPES)},
    {"name": "c14_o2_q_incoming_iter_hides_tombstoned_2_runs", "crate": "nervusdb-storage", "run": run_iter("in", 2, QUICK_SHAPES)},
    {"name": "c14_o2_t_outgoing_iter_all_shapes_2_runs", "crate": "nervusdb-storage", "run": run_iter("out", 2, ALL_SHAPES)},
    {"name": "c14_o2_t_incoming_iter_all_shapes_2_runs", "crate": "nervusdb-storage", "run": run_iter("in", 2, ALL_SHAPES)},
]
