"""C23-O4: three-valued logic — the And / Or / Xor / Not / IsNull / IsNotNull arms of evaluate_expression_value, entered arm-locally.

The operands' evaluation (recursive evaluate_expression_value calls) is modelled as a fresh Value: Bool(b) with b symbolic, Null, or
a non-boolean (Int). Each arm's result is compared with Kleene's tables on {true, false, null}."""
import re

import z3

from ..symex import (FALSE, GENERIC_MODELS, TRUE, Enum, Exec, Opaque, Ref, State, Struct, Unsupported)
from .util import variant_index

T, F, N = "T", "F", "N"


def kleene(op, a, b=None):
    if op == "Not":
        return {T: F, F: T, N: N}[a]
    if op == "And":
        if a == F or b == F:
            return F
        return T if (a == T and b == T) else N
    if op == "Or":
        if a == T or b == T:
            return T
        return F if (a == F and b == F) else N
    if op == "Xor":
        if a == N or b == N:
            return N
        return T if a != b else F
    if op == "IsNull":
        return T if a == N else F
    if op == "IsNotNull":
        return F if a == N else T
    raise ValueError(op)


def run_arm(op, unary=False):
    def run(mf, tier):
        fn = mf.find(r"^fn evaluate_expression_value\(")
        vi = dict(variant_index("nervusdb-query/src/executor/core_types.rs", "Value"))
        vi.update(variant_index("nervusdb-query/src/ast.rs", "BinaryOperator"))
        uo = variant_index("nervusdb-query/src/ast.rs", "UnaryOperator")
        for k, v in uo.items():
            vi.setdefault(k, v)
        if unary and vi.get(op) != uo.get(op):
            raise Unsupported("variant name clash between BinaryOperator and UnaryOperator for " + op)
        kind = "Unary" if unary else "Binary"
        entry = None
        for bb, stmts in fn.blocks.items():
            if any(re.search(r"\(\(\*_1\) as %s\)\.0" % kind, s) for s in stmts) and bb not in fn.cleanup:
                entry = bb
                break
        if entry is None:
            raise Unsupported("cannot locate the %s arm" % kind)

        def m_eval(ex, st, a, dst, callee):
            k = st.env.get("$nops", 0)
            st.env["$nops"] = k + 1
            b = ex.fresh_bv("operand%d" % k, 1)
            st.env["$b%d" % k] = b
            # a non-boolean, non-null operand (a property whose type varies between nodes): the logic operators must treat it as
            # unknown - otherwise WHERE p / WHERE NOT p / WHERE p IS NULL lose the row
            return [(Enum("Bool", [b]), [], "op%d=Bool" % k), (Enum("Null"), [], "op%d=Null" % k),
                    (Enum("Int", [ex.fresh_bv("other%d" % k, 64)]), [], "op%d=Other" % k)]

        ex = Exec(fn, GENERIC_MODELS + [(r"^evaluate_expression_value::<", m_eval)], bound=2, variant_index=vi, max_paths=2000)
        st = State()
        if unary:
            st.env["$node"] = Struct("UnaryExpression", {0: Enum(op), 1: Opaque("operand-expr")})
        else:
            st.env["$node"] = Struct("BinaryExpression", {0: Opaque("left-expr"), 1: Enum(op), 2: Opaque("right-expr")})
        st.env["$expr"] = Enum(kind, [Struct("Box", {0: Struct("Unique", {0: Ref("$node")})})])
        st.env["_1"] = Ref("$expr")
        for i, nm in ((2, "row"), (3, "snapshot"), (4, "params")):
            st.env["_%d" % i] = Opaque(nm)
        paths = ex.run(entry, st)
        failed, n, seen = [], 0, set()
        for p in paths:
            if p.kind == "panic":
                failed.append("panic possible on [%s]" % p.signature())
                continue
            if p.kind != "return":
                continue
            nops = p.st.env.get("$nops", 0)
            if nops != (1 if unary or op in ("IsNull", "IsNotNull") and False else (1 if unary else 2)):
                failed.append("the %s arm evaluates %d operands" % (op, nops))
                continue
            # concrete truth value of each operand on this path
            vals = []
            for k in range(nops):
                if ("op%d=Null" % k) in p.events:
                    vals.append([N])
                elif ("op%d=Other" % k) in p.events:
                    vals.append(["O"])
                else:
                    b = p.st.env["$b%d" % k]
                    opts = []
                    if ex.feasible(p.pc, b == TRUE):
                        opts.append(T)
                    if ex.feasible(p.pc, b == FALSE):
                        opts.append(F)
                    vals.append(opts)
            ret = p.ret
            import itertools
            for combo in itertools.product(*vals):
                cons = []
                for k, v in enumerate(combo):
                    if v not in (N, "O"):
                        cons.append(p.st.env["$b%d" % k] == (TRUE if v == T else FALSE))
                if cons and not ex.feasible(p.pc, z3.And(cons)):
                    continue
                n += 1
                seen.add(combo)
                if op in ("IsNull", "IsNotNull"):
                    want = kleene(op, *[N if v == N else (T if v == "O" else v) for v in combo])
                else:
                    want = kleene(op, *[N if v == "O" else v for v in combo])
                if isinstance(ret, Enum) and ret.variant == "Null":
                    got = N
                elif isinstance(ret, Enum) and ret.variant == "Bool":
                    r = ret.fields[0]
                    pc = p.pc + cons
                    if ex.entails(pc, r == TRUE):
                        got = T
                    elif ex.entails(pc, r == FALSE):
                        got = F
                    else:
                        got = "?"
                else:
                    got = repr(ret)
                if got != want:
                    failed.append("%s%s evaluates to %s, three-valued logic requires %s" % (op, tuple(combo), got, want))
        need = 4 if unary else 16
        if len(seen) != need:
            failed.append("only %d of the %d truth-table rows of %s are reachable" % (len(seen), need, op))
        res = {"paths": n, "queries": ex.queries, "solver_time_s": round(ex.solver_time, 3),
               "sample": ["%s%s" % (op, c) for c in sorted(seen)][:16], "functions": [fn.header[:80] + " (%s arm, entry %s)" % (op, entry)]}
        if failed:
            res.update({"status": "fail", "failed": sorted(set(failed)), "reason": "; ".join(sorted(set(failed)))[:400]})
        else:
            res["status"] = "pass"
        return res
    return run


TARGETS = [
    {"name": "c23_o4_q_and_truth_table", "crate": "nervusdb-query", "run": run_arm("And")},
    {"name": "c23_o4_q_or_truth_table", "crate": "nervusdb-query", "run": run_arm("Or")},
    {"name": "c23_o4_q_xor_truth_table", "crate": "nervusdb-query", "run": run_arm("Xor")},
    {"name": "c23_o4_q_not_truth_table", "crate": "nervusdb-query", "run": run_arm("Not", unary=True)},
]

# C19 relies on the same closure property: a predicate built from AND / OR / XOR / NOT over operands of any type evaluates to true,
# false or null - otherwise a row is in none of WHERE p, WHERE NOT p, WHERE p IS NULL
TARGETS += [
    {"name": "c19_o3_q_and_is_three_valued_for_any_operand", "crate": "nervusdb-query", "run": run_arm("And")},
    {"name": "c19_o3_q_or_is_three_valued_for_any_operand", "crate": "nervusdb-query", "run": run_arm("Or")},
    {"name": "c19_o3_q_not_is_three_valued_for_any_operand", "crate": "nervusdb-query", "run": run_arm("Not", unary=True)},
]
