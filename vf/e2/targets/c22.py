"""C22: runtime errors are never swallowed — DISTINCT / UNION filter closures, and Err forwarding in guard/filter iterators."""
import z3

from ..symex import (FALSE, GENERIC_MODELS, TRUE, Enum, Exec, Opaque, Ref, State, Struct, SymEnum, Unsupported)
from .. import witness


def m_opaque(name):
    def f(ex, st, a, dst, callee):
        return [(Opaque(name), [], None)]
    return f


def m_fork_bool(label):
    def f(ex, st, a, dst, callee):
        return [(TRUE, [], "%s -> true" % label), (FALSE, [], "%s -> false" % label)]
    return f


CLOSURE_MODELS = GENERIC_MODELS + [
    (r"Row::columns$", m_opaque("columns")),
    (r"core::slice::<impl \[.*\]>::iter$", m_opaque("iter")),
    (r"as Iterator>::map::<", m_opaque("map")),
    (r"as Iterator>::collect::<", m_opaque("keys")),
    (r"slice::<impl \[.*String\]>::join::<", m_opaque("key")),
    (r"HashSet::<.*String>::insert$", m_fork_bool("seen.insert(key)")),
]


def run_filter_closure(fn_regex, what):
    def run(mf, tier):
        fn = mf.find(fn_regex, which=0)
        ex = Exec(fn, CLOSURE_MODELS, bound=2)
        st = State()
        st.env["$in"] = SymEnum("result", [("Ok", [lambda ex, s: Struct("Row", {})]), ("Err", [lambda ex, s: Opaque("error")])])
        st.env["_2"] = Ref("$in")
        st.env["$closure"] = Struct("closure", {0: Opaque("seen")})
        st.env["_1"] = Ref("$closure")
        paths = ex.run("bb0", st)
        failed, n = [], 0
        for p in paths:
            if p.kind != "return":
                if p.kind == "panic":
                    failed.append("panic possible: " + p.signature())
                continue
            n += 1
            inp = p.st.env["$in"]
            ret = z3.simplify(p.ret)
            if isinstance(inp, Enum) and inp.variant == "Err":
                if not z3.is_true(z3.simplify(ret == TRUE)):
                    failed.append("%s: an Err row is dropped by the filter (closure returns false on: %s)" % (what, p.signature()))
            elif isinstance(inp, Enum) and inp.variant == "Ok":
                new_key = any(e.endswith("-> true") for e in p.events)
                want = TRUE if new_key else FALSE
                if not z3.is_true(z3.simplify(ret == want)):
                    failed.append("%s: an Ok row is kept iff its key is new — violated on: %s" % (what, p.signature()))
            else:
                failed.append("input variant undecided on a returning path: " + p.signature())
        res = {"paths": n, "queries": ex.queries, "solver_time_s": round(ex.solver_time, 3),
               "sample": [p.signature() + " => " + repr(p.ret) for p in paths][:6],
               "functions": [fn.header[:120]]}
        if failed:
            cy = ("UNWIND [true, 1] AS x RETURN DISTINCT toBoolean(x) AS b" if "DISTINCT" in what else
                  "RETURN true AS b UNION UNWIND [1] AS x RETURN toBoolean(x) AS b")
            plain = "UNWIND [true, 1] AS x RETURN toBoolean(x) AS b"
            r_plain = witness.query_rows(plain)
            r_op = witness.query_rows(cy)
            reproduced = None
            if r_plain is not None and r_op is not None:
                reproduced = r_plain.startswith("Err(") and r_op.startswith("Ok(")
            res.update({"status": "fail", "failed": sorted(set(failed)), "reason": "; ".join(sorted(set(failed)))[:300],
                        "reproduced": reproduced,
                        "witness_text": ["public-API replay: `%s` => %s" % (plain, r_plain), "                   `%s` => %s" % (cy, r_op),
                                         "reproduced (plain query raises, operator swallows): %s" % reproduced]})
        else:
            res.update({"status": "pass"})
        return res
    return run


TARGETS = [
    {"name": "c22_o1_q_distinct_filter_closure", "crate": "nervusdb-query",
     "run": run_filter_closure(r"^fn execute_distinct::\{closure#0\}\(", "DISTINCT")},
    {"name": "c22_o1_q_union_filter_closure", "crate": "nervusdb-query",
     "run": run_filter_closure(r"^fn execute_union::\{closure#0\}\(", "UNION")},
]
