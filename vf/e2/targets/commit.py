"""C01-O5: the write-ahead protocol of WriteTxn::commit, as a trace property of the real function.

`commit` is executed symbolically with every engine component replaced by a recorder: Wal::append / Wal::fsync / IdMap::apply_* /
publish_run / update_published_node_labels / the txid bump each log an event. The transaction holds one created node, one label
addition, one label removal, one relationship, one node tombstone and one relationship tombstone (all ids symbolic) and no
property changes (so the index-maintenance phase is empty: outside this obligation). On every path that returns Ok:

  * the log receives BeginTx first and CommitTx last, each exactly once, with this transaction's id, and in between one record
    for every buffered change (CreateNode, AddNodeLabel, RemoveNodeLabel, CreateEdge, TombstoneNode, TombstoneEdge);
  * Wal::fsync is called after the CommitTx append and before anything becomes visible (id map, published labels, published run)
    and before commit returns - this is what makes an acknowledged commit survive a process death;
  * a failed append or fsync makes commit return Err without publishing anything."""
import re

import z3

from ..symex import FALSE, GENERIC_MODELS, STD_CMP_MODELS, TRUE, Enum, Exec, Opaque, PyVec, Ref, State, Struct, Tup, Unsupported, bv, deref_val
from ..bytesmodel import ByteIt, m_byteit_next, m_unwrap
from ..vecmodel import VEC_MODELS
from .util import struct_fields, variant_index


class ListIt:
    def __init__(self, items, pos=0):
        self.items, self.pos = items, pos


def ev(st, e):
    st.env["$trace"] = st.env.get("$trace", []) + [e]


def models(run_model, fail_points):
    def m_lock(ex, st, a, dst, callee):
        return [(Enum("Ok", [a[0]]), [], None)]

    def m_empty_vec(ex, st, a, dst, callee):
        return [(PyVec(), [], None)]

    def m_freeze(ex, st, a, dst, callee):
        return [(run_model, [], None)]

    def m_append(ex, st, a, dst, callee):
        rec = deref_val(ex, st, a[1]) if isinstance(a[1], Ref) else a[1]
        k = len([e for e in st.env.get("$trace", []) if e[0] in ("append", "append-failed")])
        alts = [(("EV", ("append", rec), Enum("Ok", [ex.fresh_bv("offset", 64)])), [], None)]
        if fail_points:
            alts.append((("EV", ("append-failed", rec), Enum("Err", [Opaque("io")])), [], "append #%d fails" % k))
        return alts

    def m_fsync(ex, st, a, dst, callee):
        alts = [(("EV", ("fsync",), Enum("Ok", [Tup([])])), [], None)]
        if fail_points:
            alts.append((("EV", ("fsync-failed",), Enum("Err", [Opaque("io")])), [], "fsync fails"))
        return alts

    def m_event(name, ret):
        def f(ex, st, a, dst, callee):
            return [(("EV", (name,), ret), [], None)]
        return f

    def m_ref_into_iter(ex, st, a, dst, callee):
        return [(ByteIt(a[0]), [], None)] if isinstance(a[0], Ref) else None

    def m_val_into_iter(ex, st, a, dst, callee):
        v = a[0]
        if isinstance(v, ListIt):
            return [(v, [], None)]
        if isinstance(v, PyVec):
            return [(ListIt(list(v.items)), [], None)]
        return None

    def m_list_next(ex, st, a, dst, callee):
        it = deref_val(ex, st, a[0]) if isinstance(a[0], Ref) else a[0]
        if not isinstance(it, ListIt):
            return None
        if it.pos >= len(it.items):
            return [(Enum("None"), [], None)]
        return [(("ADV", a[0], ListIt(it.items, it.pos + 1), Enum("Some", [it.items[it.pos]])), [], None)]

    def m_run_iter(field):
        def f(ex, st, a, dst, callee):
            r = deref_val(ex, st, a[0]) if isinstance(a[0], Ref) else a[0]
            return [(ListIt(list(r.fields[field].items)), [], None)]
        return f

    def m_run_is_empty(ex, st, a, dst, callee):
        return [(FALSE, [], "run non-empty"), (TRUE, [], "run empty")]

    def m_opaque(name):
        return lambda ex, st, a, dst, callee: [(Opaque(name), [], None)]

    def m_fetch_add(ex, st, a, dst, callee):
        return [(("EV", ("txid++",), ex.fresh_bv("old_txid", 64)), [], None)]

    def m_identity(ex, st, a, dst, callee):
        return [(a[0], [], None)]

    def m_guard_deref(ex, st, a, dst, callee):
        v = deref_val(ex, st, a[0]) if isinstance(a[0], Ref) else a[0]
        return [(v if isinstance(v, Ref) else a[0], [], None)]

    return [(r"^<std::sync::(?:MutexGuard|RwLockWriteGuard|RwLockReadGuard)<.*> as Deref(?:Mut)?>::deref(?:_mut)?$|^<Arc<.*> as Deref>::deref$", m_guard_deref),
            (r"^std::sync::Mutex::<.*>::lock$|^std::sync::RwLock::<.*>::(read|write)$", m_lock),
            (r"^MemTable::(node_properties_for_wal|edge_properties_for_wal|removed_node_properties_for_wal|removed_edge_properties_for_wal)$", m_empty_vec),
            (r"^MemTable::freeze_into_run$", m_freeze), (r"^Wal::append$", m_append), (r"^Wal::fsync$", m_fsync),
            (r"^IdMap::apply_create_node$", m_event("idmap.create_node", Enum("Ok", [Tup([])]))),
            (r"^IdMap::apply_add_label$", m_event("idmap.add_label", Enum("Ok", [Tup([])]))),
            (r"^IdMap::apply_remove_label$", m_event("idmap.remove_label", Enum("Ok", [Tup([])]))),
            (r"^GraphEngine::update_published_node_labels$", m_event("publish labels", Tup([]))),
            (r"^GraphEngine::publish_run$", m_event("publish run", Tup([]))), (r"^Arc::<L0Run>::new$", m_identity),
            (r"^Atomic::<u64>::fetch_add$|AtomicU64::fetch_add$", m_fetch_add),
            (r"^<&Vec<.*> as IntoIterator>::into_iter$", m_ref_into_iter), (r"^<std::slice::Iter<'_, .*> as Iterator>::next$", m_byteit_next),
            (r"^<Vec<.*> as IntoIterator>::into_iter$|^<FlatMap<.*> as IntoIterator>::into_iter$|^<Copied<.*> as IntoIterator>::into_iter$", m_val_into_iter),
            (r"^<std::vec::IntoIter<.*> as Iterator>::next$|^<FlatMap<.*> as Iterator>::next$|^<Copied<.*> as Iterator>::next$", m_list_next),
            (r"^L0Run::iter_edges$", m_run_iter(0)), (r"^L0Run::iter_tombstoned_nodes$", m_run_iter(1)), (r"^L0Run::iter_tombstoned_edges$", m_run_iter(2)),
            (r"^L0Run::is_empty$", m_run_is_empty), (r"^<GraphEngine as GraphStore>::snapshot$", m_opaque("snapshot")),
            (r"(?:Result|Option)::<.*>::(?:unwrap|expect)$", m_unwrap)] + VEC_MODELS + STD_CMP_MODELS + GENERIC_MODELS


class TraceExec(Exec):
    def write(self, st, place, val):
        if isinstance(val, tuple) and val and val[0] == "EV":
            ev(st, val[1])
            val = val[2]
        return super().write(st, place, val)


def run(fail_points):
    def go(mf, tier):
        fn = mf.find(r"engine\.rs[^>]*>::commit\(_1: WriteTxn")
        fields = struct_fields("nervusdb-storage/src/engine.rs", "WriteTxn")
        ix = {n: i for i, n in enumerate(fields)}
        need = ("engine", "txid", "created_nodes", "pending_label_additions", "pending_label_removals", "memtable")
        if any(n not in ix for n in need):
            raise Unsupported("WriteTxn fields changed: %s" % fields)
        txid = z3.BitVec("txid", 64)
        B = lambda n, w=32: z3.BitVec(n, w)     # noqa: E731
        edge = Struct("EdgeKey", {0: B("e_src"), 1: B("e_rel"), 2: B("e_dst")})
        tedge = Struct("EdgeKey", {0: B("te_src"), 1: B("te_rel"), 2: B("te_dst")})
        run_model = Struct("L0RunModel", {0: PyVec([edge]), 1: PyVec([B("tomb_node")]), 2: PyVec([tedge])})
        efields = struct_fields("nervusdb-storage/src/engine.rs", "GraphEngine")
        st = State()
        st.env["$engine"] = Struct("GraphEngine", {i: Opaque("engine." + n) for i, n in enumerate(efields)})
        txn = {i: Opaque("txn." + n) for i, n in enumerate(fields)}
        txn[ix["engine"]] = Ref("$engine")
        txn[ix["txid"]] = txid
        txn[ix["created_nodes"]] = PyVec([Tup([B("ext_id", 64), B("label"), B("internal_id")])])
        txn[ix["pending_label_additions"]] = PyVec([Tup([B("add_node"), B("add_label")])])
        txn[ix["pending_label_removals"]] = PyVec([Tup([B("rm_node"), B("rm_label")])])
        st.env["_1"] = Struct("WriteTxn", txn)
        vi = variant_index("nervusdb-storage/src/wal.rs", "WalRecord")
        ex = TraceExec(fn, models(run_model, fail_points), bound=6, mf=mf, inline=r"^$", variant_index=vi, max_paths=5000)
        paths = ex.run("bb0", st)
        failed, n, oks, errs = [], 0, 0, 0
        VISIBLE = ("idmap.create_node", "idmap.add_label", "idmap.remove_label", "publish labels", "publish run", "txid++")
        for p in paths:
            if p.kind == "panic":
                failed.append("commit can panic: %s" % str(p.info)[:70])
                continue
            if p.kind == "bound":
                raise Unsupported("commit cut by the loop bound")
            if p.kind != "return":
                continue
            n += 1
            tr = p.st.env.get("$trace", [])
            names = [e[0] if e[0] != "append" else "append:" + (e[1].variant if isinstance(e[1], Enum) else "?") for e in tr]
            ok = isinstance(p.ret, Enum) and p.ret.variant == "Ok"
            faulted = any(e[0] in ("append-failed", "fsync-failed") for e in tr)
            if faulted:
                errs += 1
                if ok:
                    failed.append("commit returns Ok although a log append or the fsync failed")
                cut = min(i for i, e in enumerate(tr) if e[0] in ("append-failed", "fsync-failed"))
                if any(x in VISIBLE for x in names[cut:]):
                    failed.append("after a failed log append / fsync the transaction is still made visible (%s)" % [x for x in names[cut:] if x in VISIBLE][:3])
                continue
            if not ok:
                failed.append("commit fails although no log operation failed: trace %s" % names[:12])
                continue
            oks += 1
            appends = [(i, e[1]) for i, e in enumerate(tr) if e[0] == "append"]
            kinds = [r.variant for _, r in appends]
            if not kinds or kinds[0] != "BeginTx" or kinds.count("BeginTx") != 1:
                failed.append("the transaction's log records do not start with exactly one BeginTx: %s" % kinds)
                continue
            if kinds[-1] != "CommitTx" or kinds.count("CommitTx") != 1:
                failed.append("the transaction's log records do not end with exactly one CommitTx: %s" % kinds)
                continue
            if not ex.entails(p.pc, z3.And(appends[0][1].fields[0] == txid, appends[-1][1].fields[0] == txid)):
                failed.append("BeginTx / CommitTx carry a transaction id other than the transaction's own")
            for want in ("CreateNode", "AddNodeLabel", "RemoveNodeLabel", "CreateEdge", "TombstoneNode", "TombstoneEdge"):
                if kinds.count(want) != 1:
                    failed.append("a buffered %s is logged %d times" % (want, kinds.count(want)))
            commit_pos = appends[-1][0]
            fs = [i for i, x in enumerate(names) if x == "fsync" and i > commit_pos]
            if not fs:
                failed.append("commit returns Ok without an fsync of the log after the CommitTx record: an acknowledged commit can be lost by a process death")
                continue
            first_visible = [i for i, x in enumerate(names) if x in VISIBLE]
            if first_visible and first_visible[0] < fs[0]:
                failed.append("the transaction becomes visible (%s) before its CommitTx record is fsynced" % names[first_visible[0]])
            if "idmap.create_node" not in names or ("run non-empty" in p.events and "publish run" not in names):
                failed.append("commit returns Ok without applying the created node / publishing the run")
        if not oks:
            raise Unsupported("no path of commit returns Ok (vacuous)")
        res = {"paths": n, "queries": ex.queries, "solver_time_s": round(ex.solver_time, 3),
               "sample": ["1 created node, 1 label addition, 1 label removal, 1 relationship, 1 node tombstone, 1 relationship tombstone, no property changes; "
                          "%d Ok paths, %d fault paths" % (oks, errs)],
               "functions": ["engine::WriteTxn::commit"]}
        if failed:
            res.update({"status": "fail", "failed": sorted({re.sub(r": trace .*$|: \[.*$| \(\[.*$", "", f) for f in failed}), "reason": "; ".join(sorted(set(failed)))[:500],
                        "witness_text": sorted(set(failed))[:4]})
        else:
            res["status"] = "pass"
        return res
    return go


TARGETS = [
    {"name": "c01_o5_q_commit_write_ahead_protocol", "crate": "nervusdb-storage", "run": run(False)},
    {"name": "c01_o5_q_commit_fault_at_any_log_operation", "crate": "nervusdb-storage", "run": run(True)},
]


# ------------------------------------------------------------------------------------------------ index maintenance (C15-O3)
def index_models(idx_name, label_some, events):
    from ..mapmodel import MAP_MODELS
    from ..symex import subcall

    def m_node_label(ex, st, a, dst, callee):
        return [(Enum("Some", [z3.BitVec("primary_label", 32)]), [], "label=Some"), (Enum("None"), [], "label=None")]

    def m_get_name(ex, st, a, dst, callee):
        return [(Enum("Some", [z3.BitVec("label_name", 32)]), [], None)]

    def m_format(ex, st, a, dst, callee):
        return [(idx_name, [], None)]

    def m_opaque(ex, st, a, dst, callee):
        return [(Opaque("fmt"), [], None)]

    def full(ex, st, v):
        ref = None
        for _ in range(4):
            if isinstance(v, Ref):
                ref = v
                v = deref_val(ex, st, v)
        return v, ref

    def m_catalog_get(ex, st, a, dst, callee):
        cat, cref = full(ex, st, a[0])
        a = [cref if cref is not None else a[0]] + list(a[1:])
        key = a[1]
        for _ in range(3):
            if isinstance(key, Ref):
                key = deref_val(ex, st, key)
        entries = cat.fields[1]
        alts, none = [], []
        for i, kv in enumerate(entries.items):
            alts.append((Enum("Some", [Ref(a[0].root, list(a[0].projs) + [("field", 1, None), ("elem", i), ("field", 1, None)])]), none + [kv.fields[0] == key], "index exists"))
            none = none + [kv.fields[0] != key]
        alts.append((Enum("None"), none, "no index"))
        return alts

    def m_node_property(ex, st, a, dst, callee):
        return [(Enum("Some", [z3.BitVec("old_value", 32)]), [], "old=Some"), (Enum("None"), [], "old=None")]

    def m_opt_map_fn(ex, st, a, dst, callee):
        return [(a[0], [], None)]

    def m_load(ex, st, a, dst, callee):
        root = a[0].fields[0] if isinstance(a[0], Struct) else a[0]
        return [(Struct("BTree", {0: Struct("PageId", {0: root})}), [], None)]

    def m_tree_op(kind):
        def f(ex, st, a, dst, callee):
            key, _ = full(ex, st, a[2])
            k = len(events(st))
            new_root = z3.BitVec("root_after_op%d" % k, 64)
            ex._write(st, a[0].root, list(a[0].projs), Struct("BTree", {0: Struct("PageId", {0: new_root})}))
            ret = Enum("Ok", [Tup([])]) if kind == "insert" else Enum("Ok", [TRUE])
            return [(("EV", (kind, list(key.items) if isinstance(key, PyVec) else key, a[3], new_root), ret), [], None)]
        return f

    def m_root(ex, st, a, dst, callee):
        return [(full(ex, st, a[0])[0].fields[0], [], None)]

    def m_encode(ex, st, a, dst, callee):
        v = a[0]
        for _ in range(3):
            if isinstance(v, Ref):
                v = deref_val(ex, st, v)
        if not z3.is_bv(v):
            raise Unsupported("encode_ordered_value of something that is not a value id")
        return [(PyVec([z3.Extract(8 * i + 7, 8 * i, v) for i in (3, 2, 1, 0)]), [], None)]

    def m_flush(ex, st, a, dst, callee):
        return [(("EV", ("flush",), Enum("Ok", [Tup([])])), [], None)]

    def m_any(ex, st, a, dst, callee):
        m = re.search(r"\{closure@([^}]*)\}", callee)
        it = deref_val(ex, st, a[0]) if isinstance(a[0], Ref) else a[0]
        if not m or not isinstance(it, ByteIt):
            return None
        from ..bytesmodel import buf_of
        items = buf_of(ex, st, it.ref).items
        if it.pos >= len(items):
            return [(FALSE, [], None)]
        fn = ex.mf.resolve_closure(m.group(1))
        st.env["$any_closure"] = a[1]
        alts, none = [], []
        for i in range(it.pos, len(items)):
            elem = Ref(it.ref.root, list(it.ref.projs) + [("elem", i)])
            s2 = st.fork()
            s2.pc += none
            res = subcall(ex, s2, fn, [Ref("$any_closure"), elem if "any" in callee else Ref("$any_elem")])
            if isinstance(res, str):
                return res
            hit = z3.Or([z3.And(extra + [val == TRUE]) for val, extra in res])
            alts.append((TRUE, none + [hit], None))
            none = none + [z3.Not(hit)]
        alts.append((FALSE, none, None))
        return alts

    def m_find(ex, st, a, dst, callee):
        m = re.search(r"\{closure@([^}]*)\}", callee)
        it = deref_val(ex, st, a[0]) if isinstance(a[0], Ref) else a[0]
        if not m or not isinstance(it, ByteIt):
            return None
        from ..bytesmodel import buf_of
        items = buf_of(ex, st, it.ref).items
        fn = ex.mf.resolve_closure(m.group(1))
        st.env["$find_closure2"] = a[1]
        alts, none = [], []
        for i in range(it.pos, len(items)):
            elem = Ref(it.ref.root, list(it.ref.projs) + [("elem", i)])
            st.env["$find_elem2"] = elem
            s2 = st.fork()
            s2.pc += none
            res = subcall(ex, s2, fn, [Ref("$find_closure2"), Ref("$find_elem2")])
            if isinstance(res, str):
                return res
            hit = z3.Or([z3.And(extra + [val == TRUE]) for val, extra in res])
            alts.append((Enum("Some", [elem]), none + [hit], None))
            none = none + [z3.Not(hit)]
        alts.append((Enum("None"), none, None))
        return alts

    def m_slice_iter(ex, st, a, dst, callee):
        return [(ByteIt(a[0]), [], None)] if isinstance(a[0], Ref) else None

    def m_clone(ex, st, a, dst, callee):
        v = a[0]
        if isinstance(v, Ref):
            v = deref_val(ex, st, v)
        return [(v, [], None)]

    return [(r"^<StorageSnapshot as GraphSnapshot>::node_label$", m_node_label), (r"^LabelInterner::get_name$", m_get_name),
            (r"^std::fmt::format$|alloc::fmt::format$", m_format), (r"^core::fmt::rt::Argument::<'_>::new_display::<|^Arguments::<'_>::new::<", m_opaque),
            (r"^must_use::<", lambda ex, st, a, dst, callee: [(a[0], [], None)]),
            (r"^IndexCatalog::get$", m_catalog_get), (r"^<StorageSnapshot as GraphSnapshot>::node_property$", m_node_property),
            (r"^std::option::Option::<PropertyValue>::map::<PropertyValue, fn", m_opt_map_fn), (r"^BTree::load$", m_load),
            (r"^BTree::insert$", m_tree_op("insert")), (r"^BTree::delete$", m_tree_op("delete")), (r"^BTree::root$", m_root),
            (r"^encode_ordered_value$", m_encode), (r"^IndexCatalog::flush$", m_flush),
            (r"^<std::slice::Iter<'_, .*> as Iterator>::any::<", m_any), (r"^<std::slice::Iter<'_, .*> as Iterator>::find::<", m_find),
            (r"slice::<impl \[.*\]>::iter$", m_slice_iter), (r"^<PropertyValue as Clone>::clone$|^<std::string::String as Clone>::clone$", m_clone)] + MAP_MODELS


MISSING = {
    "delete-node": ("delete", "a node deleted by the transaction keeps its index entry: commit derives index operations from property writes only, so an "
                              "index seek still returns the deleted node (a scan does not)"),
    "add-label": ("insert", "a label added to an existing node that carries the indexed property creates no index entry: an index seek through the new "
                            "label misses the node (a scan finds it)"),
    "set-secondary-label": ("insert", "a property written on a node whose indexed label is not its first label creates no index entry (commit consults the "
                                      "primary label only): an index seek through the other label misses the node (a scan finds it)"),
}
NATIVE = {
    "delete-node": ["A", "x", "MATCH (n:A) WHERE n.x = 1 RETURN count(n) AS c", "CREATE (:A {x:1})", "CREATE (:A {x:1})",
                    "MATCH (n:A) WITH n LIMIT 1 DETACH DELETE n"],
    "add-label": ["A", "x", "MATCH (n:A) WHERE n.x = 1 RETURN count(n) AS c", "CREATE (:A {x:1})", "CREATE (:B {x:1})", "MATCH (n:B) SET n:A"],
    "set-secondary-label": ["B", "x", "MATCH (n:B) WHERE n.x = 1 RETURN count(n) AS c", "CREATE (:B {x:1})", "CREATE (:A:B {x:1})"],
}


def run_index(kind):
    """kind: 'set-existing' (SET on a node that exists), 'set-new' (node created by this transaction), 'remove' (REMOVE on an existing node)."""
    def go(mf, tier):
        fn = mf.find(r"engine\.rs[^>]*>::commit\(_1: WriteTxn")
        fields = struct_fields("nervusdb-storage/src/engine.rs", "WriteTxn")
        ix = {n: i for i, n in enumerate(fields)}
        efields = struct_fields("nervusdb-storage/src/engine.rs", "GraphEngine")
        eix = {n: i for i, n in enumerate(efields)}
        B = lambda n, w=32: z3.BitVec(n, w)     # noqa: E731
        txid, node, key, newv = B("txid", 64), B("node"), B("prop_key"), B("new_value")
        idx_name, idx_id, root0 = B("index_name"), B("index_id"), B("root_before", 64)
        idx_name2 = B("index_name_of_secondary_label")
        run_model = Struct("L0RunModel", {0: PyVec(), 1: PyVec([node]) if kind == "delete-node" else PyVec(), 2: PyVec()})

        def events(st):
            return [e for e in st.env.get("$trace", []) if e[0] in ("insert", "delete", "flush")]
        props = PyVec([Tup([node, key, newv])]) if kind in ("set-existing", "set-new", "set-secondary-label") else PyVec()
        removed = PyVec([Tup([node, key])]) if kind == "remove" else PyVec()

        def m_props(ex, st, a, dst, callee):
            if callee.endswith("::node_properties_for_wal"):
                return [(props, [], None)]
            if callee.endswith("removed_node_properties_for_wal"):
                return [(removed, [], None)]
            return [(PyVec(), [], None)]
        mods = [(r"^MemTable::(node_properties_for_wal|edge_properties_for_wal|removed_node_properties_for_wal|removed_edge_properties_for_wal)$", m_props)] + \
            index_models(idx_name, True, events) + models(run_model, False)
        st = State()
        eng = {i: Opaque("engine." + n) for i, n in enumerate(efields)}
        # set-secondary-label: the only index is the one on (secondary label, key); `format!` yields the name built from the primary label
        cat_name = idx_name2 if kind == "set-secondary-label" else idx_name
        eng[eix["index_catalog"]] = Struct("IndexCatalog", {0: Opaque("catalog-page"), 1: PyVec([Tup([cat_name, Struct("IndexDef", {0: idx_id, 1: Struct("PageId", {0: root0})})])])})
        st.env["$engine"] = Struct("GraphEngine", eng)
        txn = {i: Opaque("txn." + n) for i, n in enumerate(fields)}
        txn[ix["engine"]] = Ref("$engine")
        txn[ix["txid"]] = txid
        txn[ix["created_nodes"]] = PyVec([Tup([B("ext_id", 64), B("created_label"), node])]) if kind == "set-new" else PyVec()
        txn[ix["pending_label_additions"]] = PyVec([Tup([node, B("added_label")])]) if kind == "add-label" else PyVec()
        txn[ix["pending_label_removals"]] = PyVec()
        st.env["_1"] = Struct("WriteTxn", txn)
        if kind == "set-secondary-label":
            st.pc.append(idx_name != idx_name2)
        vi = variant_index("nervusdb-storage/src/wal.rs", "WalRecord")
        vi.update({"Insert": 0, "Update": 1, "Remove": 2})
        ex = TraceExec(fn, mods, bound=6, mf=mf, inline=r"^$", variant_index=vi, max_paths=5000)
        paths = ex.run("bb0", st)
        failed, n, with_index = [], 0, 0
        if kind in MISSING:
            # O6: state changes other than a property write on the primary label that make a node enter / leave an index.
            # Assumed state: the node carries a value for `key`, and an index on (the label in question, key) exists.
            want_op, text = MISSING[kind]
            for p in paths:
                if p.kind == "panic":
                    failed.append("commit can panic: %s" % str(p.info)[:70])
                    continue
                if p.kind == "bound":
                    raise Unsupported("commit cut by the loop bound")
                if p.kind != "return" or not (isinstance(p.ret, Enum) and p.ret.variant == "Ok"):
                    continue
                if kind == "set-secondary-label" and "label=None" in p.events:
                    continue        # the assumed state gives the node two labels
                n += 1
                with_index += 1
                ops = [e for e in events(p.st) if e[0] == want_op and ex.entails(p.pc, e[2] == z3.ZeroExt(32, node))]
                if not ops:
                    failed.append(text)
            res = {"paths": n, "queries": ex.queries, "solver_time_s": round(ex.solver_time, 3),
                   "sample": ["%s: %d Ok paths; the index B-tree must see a %s for the node" % (kind, n, want_op)],
                   "functions": ["engine::WriteTxn::commit (index maintenance phase)"]}
            if failed:
                from .. import witness as W
                rep, lines = W.run(["index-diff"] + NATIVE[kind])
                res.update({"status": "fail", "failed": sorted(set(failed)), "reason": "; ".join(sorted(set(failed)))[:500],
                            "witness_text": sorted(set(failed)) + ["replay `index-diff %s`: %s" % (" | ".join(NATIVE[kind]), " ".join(lines)[:300])],
                            "reproduced": True if rep else None})
            else:
                res["status"] = "pass"
            return res

        def key_is(kbytes, value):
            want = [z3.Extract(8 * i + 7, 8 * i, idx_id) for i in (3, 2, 1, 0)] + [z3.Extract(8 * i + 7, 8 * i, value) for i in (3, 2, 1, 0)]
            if not isinstance(kbytes, list) or len(kbytes) != len(want):
                return z3.BoolVal(False)
            return z3.And([a == b for a, b in zip(kbytes, want)])
        oldv = z3.BitVec("old_value", 32)
        for p in paths:
            if p.kind == "panic":
                failed.append("commit can panic in the index phase: %s" % str(p.info)[:70])
                continue
            if p.kind == "bound":
                raise Unsupported("commit cut by the loop bound")
            if p.kind != "return" or not (isinstance(p.ret, Enum) and p.ret.variant == "Ok"):
                continue
            n += 1
            evs = events(p.st)
            ops = [e for e in evs if e[0] in ("insert", "delete")]
            has_index = "index exists" in p.events and "label=None" not in p.events
            if kind == "set-new":
                has_index = "index exists" in p.events
            if not has_index:
                if ops:
                    failed.append("the index is modified although the node has no label / the label.property pair has no index")
                continue
            with_index += 1
            want = []
            if kind in ("set-existing", "remove") and "old=Some" in p.events:
                want.append(("delete", oldv))
            if kind in ("set-existing", "set-new"):
                want.append(("insert", newv))
            if [o[0] for o in ops] != [w[0] for w in want]:
                failed.append("index maintenance for %s performs %s instead of %s" % (kind, [o[0] for o in ops], [w[0] for w in want]))
                continue
            for o, w in zip(ops, want):
                if not ex.entails(p.pc, z3.And(key_is(o[1], w[1]), o[2] == z3.ZeroExt(32, node))):
                    failed.append("the index %s uses a key other than [index id][encoded %s value] or another node id" % (o[0], "old" if w[0] == "delete" else "new"))
            entries = p.st.env["$engine"].fields[eix["index_catalog"]].fields[1]
            final_root = entries.items[0].fields[1].fields[1]
            final_root = final_root.fields[0] if isinstance(final_root, Struct) else final_root
            if ops:
                if not ex.entails(p.pc, final_root == ops[-1][3]):
                    failed.append("after index maintenance (%s) the catalog does not point at the tree's current root: later lookups and updates work on a stale subtree"
                                  % "+".join(o[0] for o in ops))
                if not any(e[0] == "flush" for e in evs):
                    failed.append("the index catalog is not flushed after index maintenance")
            elif not ex.entails(p.pc, final_root == root0):
                failed.append("the catalog root changes although the index was not touched")
        if not with_index and not failed:
            raise Unsupported("no path reaches index maintenance (vacuous)")
        res = {"paths": n, "queries": ex.queries, "solver_time_s": round(ex.solver_time, 3),
               "sample": ["%s: one property change; label / index existence / old value forked; %d Ok paths reach index maintenance" % (kind, with_index)],
               "functions": ["engine::WriteTxn::commit (index maintenance phase)"]}
        if failed:
            res.update({"status": "fail", "failed": sorted(set(failed)), "reason": "; ".join(sorted(set(failed)))[:500]})
        else:
            res["status"] = "pass"
        return res
    return go


TARGETS += [
    {"name": "c15_o3_q_commit_index_maintenance_set_on_existing_node", "crate": "nervusdb-storage", "run": run_index("set-existing")},
    {"name": "c15_o3_q_commit_index_maintenance_set_on_new_node", "crate": "nervusdb-storage", "run": run_index("set-new")},
    {"name": "c15_o3_q_commit_index_maintenance_remove", "crate": "nervusdb-storage", "run": run_index("remove")},
    {"name": "c15_o6_q_commit_index_follows_node_delete", "crate": "nervusdb-storage", "run": run_index("delete-node")},
    {"name": "c15_o6_q_commit_index_follows_label_addition", "crate": "nervusdb-storage", "run": run_index("add-label")},
    {"name": "c15_o6_q_commit_index_follows_secondary_label", "crate": "nervusdb-storage", "run": run_index("set-secondary-label")},
]


# ------------------------------------------------------------------------------------------------ failed commits (C08-O1)
def _fault_all_or_nothing(mf, tier, aspect):
    """C08-O1: a single I/O failure at any step of commit (each log append, the log fsync, the index-catalog flush, each node-table
    update). Whenever commit then reports an error, nothing of the transaction may be visible in the running process: no published
    run / labels, no index entry. (A partially applied node table is not demanded to be rolled back here: it is reachable only
    through internal lookups by external id, no query observes it; the natively tried failures showed no visible effect.) The transaction creates one node with an extra label and sets an indexed
    property on an existing node (so that every phase of commit does something)."""
    fn = mf.find(r"engine\.rs[^>]*>::commit\(_1: WriteTxn")
    fields = struct_fields("nervusdb-storage/src/engine.rs", "WriteTxn")
    ix = {n: i for i, n in enumerate(fields)}
    efields = struct_fields("nervusdb-storage/src/engine.rs", "GraphEngine")
    eix = {n: i for i, n in enumerate(efields)}
    B = lambda n, w=32: z3.BitVec(n, w)     # noqa: E731
    txid, node, key, newv = B("txid", 64), B("node"), B("prop_key"), B("new_value")
    created = B("created_node")
    idx_name, idx_id, root0 = B("index_name"), B("index_id"), B("root_before", 64)
    run_model = Struct("L0RunModel", {0: PyVec(), 1: PyVec(), 2: PyVec()})

    def events(st):
        return [e for e in st.env.get("$trace", []) if e[0] in ("insert", "delete", "flush")]
    props = PyVec([Tup([node, key, newv])])

    def m_props(ex, st, a, dst, callee):
        return [(props if callee.endswith("::node_properties_for_wal") else PyVec(), [], None)]

    def failing(name, okval):
        def f(ex, st, a, dst, callee):
            return [(("EV", (name,), okval), [], None), (("EV", (name + "-failed",), Enum("Err", [Opaque("io")])), [], name + " fails")]
        return f
    mods = [(r"^MemTable::(node_properties_for_wal|edge_properties_for_wal|removed_node_properties_for_wal|removed_edge_properties_for_wal)$", m_props),
            (r"^IndexCatalog::flush$", failing("flush", Enum("Ok", [Tup([])]))),
            (r"^IdMap::apply_create_node$", failing("idmap.create_node", Enum("Ok", [Tup([])]))),
            (r"^IdMap::apply_add_label$", failing("idmap.add_label", Enum("Ok", [Tup([])])))] + index_models(idx_name, True, events) + models(run_model, True)
    st = State()
    st.pc.append(created != node)
    eng = {i: Opaque("engine." + n) for i, n in enumerate(efields)}
    eng[eix["index_catalog"]] = Struct("IndexCatalog", {0: Opaque("catalog-page"), 1: PyVec([Tup([idx_name, Struct("IndexDef", {0: idx_id, 1: Struct("PageId", {0: root0})})])])})
    st.env["$engine"] = Struct("GraphEngine", eng)
    txn = {i: Opaque("txn." + n) for i, n in enumerate(fields)}
    txn[ix["engine"]] = Ref("$engine")
    txn[ix["txid"]] = txid
    txn[ix["created_nodes"]] = PyVec([Tup([B("ext_id", 64), B("created_label"), created])])
    txn[ix["pending_label_additions"]] = PyVec([Tup([created, B("extra_label")])])
    txn[ix["pending_label_removals"]] = PyVec()
    st.env["_1"] = Struct("WriteTxn", txn)
    vi = variant_index("nervusdb-storage/src/wal.rs", "WalRecord")
    vi.update({"Insert": 0, "Update": 1, "Remove": 2})
    ex = TraceExec(fn, mods, bound=6, mf=mf, inline=r"^$", variant_index=vi, max_paths=20000)
    paths = ex.run("bb0", st)
    failed, n, errs = [], 0, 0
    PUBLISH = ("publish labels", "publish run", "txid++")
    for p in paths:
        if p.kind == "panic":
            failed.append("commit can panic: %s" % str(p.info)[:70])
            continue
        if p.kind == "bound":
            raise Unsupported("commit cut by the loop bound")
        if p.kind != "return":
            continue
        if "label=None" in p.events or "no index" in p.events or "old=None" in p.events:
            continue                    # keep the scenario in which every phase is active
        n += 1
        tr = p.st.env.get("$trace", [])
        names = [e[0] if e[0] != "append" else "append:" + (e[1].variant if isinstance(e[1], Enum) else "?") for e in tr]
        faults = [i for i, x in enumerate(names) if x.endswith("-failed")]
        ok = isinstance(p.ret, Enum) and p.ret.variant == "Ok"
        if not faults:
            if not ok:
                failed.append("commit fails although no I/O step failed")
            continue
        errs += 1
        if len(faults) > 1:
            failed.append("commit keeps going after an I/O failure (%s)" % [names[i] for i in faults])
            continue
        if ok:
            failed.append("commit returns Ok although %s" % names[faults[0]])
            continue
        cut = faults[0]
        what = names[cut].replace("-failed", "")
        if aspect == "publication" and any(x in PUBLISH for x in names):
            failed.append("commit reports an error (%s failed) but the run / labels were published or the transaction id advanced" % what)
        if aspect == "index" and any(x in ("insert", "delete") for x in names[:cut]):
            failed.append("commit reports an error but the index pages were already rewritten (index maintenance runs before the CommitTx record is "
                          "written and synced): index lookups in the running process see the failed transaction")
    if not errs:
        raise Unsupported("no fault path explored (vacuous)")
    res = {"paths": n, "queries": ex.queries, "solver_time_s": round(ex.solver_time, 3),
           "sample": ["1 created node + 1 extra label + 1 indexed property SET on an existing node; one failure at any of: each log append, the log fsync, "
                      "the catalog flush, each node-table update; %d fault paths" % errs],
           "functions": ["engine::WriteTxn::commit"]}
    if failed:
        from .. import witness as W
        reproduced, wit = None, []
        if any("index pages were already rewritten" in f for f in failed):
            rep, lines = W.run(["commit-fault", "index", "0"], fault_shim=True)
            wit.append("replay `commit-fault index 0` (log fsync fails): %s" % " | ".join(l for l in lines if l.startswith("WITNESS"))[:500])
            if rep:
                reproduced = True
        res.update({"status": "fail", "failed": sorted(set(failed)), "reason": "; ".join(sorted(set(failed)))[:600], "witness_text": sorted(set(failed))[:4] + wit,
                    "reproduced": reproduced})
    else:
        res["status"] = "pass"
    return res


TARGETS += [
    {"name": "c08_o1_q_failed_commit_publishes_nothing", "crate": "nervusdb-storage", "run": lambda mf, tier: _fault_all_or_nothing(mf, tier, "publication")},
    {"name": "c08_o2_q_failed_commit_leaves_no_index_entries", "crate": "nervusdb-storage", "run": lambda mf, tier: _fault_all_or_nothing(mf, tier, "index")},
]
