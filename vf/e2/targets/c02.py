"""C02-O1: Wal::replay_committed_from_path returns exactly the completely bracketed transactions of the log, in order.

The record stream is symbolic: every call of WalReader::next_record forks into {end of log, BeginTx(t), CommitTx(t), any other
record, I/O fault} with txids symbolic in 1..3; the loop is unrolled up to N records. Each terminated path is compared with a
reference bracket parser evaluated on the same symbolic record sequence (txid equalities decided by z3 under the path condition).
"""
import z3

from ..symex import (FALSE, GENERIC_MODELS, TRUE, Enum, Exec, Opaque, PyVec, Ref, State, Struct, Tup, Unsupported, bv,
                     m_opt_scalar_eq)
from .util import variant_index


def models(max_txid=3):
    def m_as_ref(ex, st, a, dst, callee):
        return [(Opaque("path"), [], None)]

    def m_open(ex, st, a, dst, callee):
        return [(Enum("Ok", [Struct("WalReader", {})]), [], None), (Enum("Err", [Enum("Io", [Opaque("open failed")])]), [], "open -> I/O fault")]

    def m_next_record(ex, st, a, dst, callee):
        off = ex.fresh_bv("off", 64)
        alts = [(Enum("Ok", [Enum("None")]), [], "END")]
        for kind in ("BeginTx", "CommitTx"):
            t = ex.fresh_bv("txid", 64)
            alts.append((Enum("Ok", [Enum("Some", [Tup([off, Enum(kind, [t])])])]), [z3.UGE(t, 1), z3.ULE(t, max_txid)], "%s(%s)" % (kind, t)))
        alts.append((Enum("Ok", [Enum("Some", [Tup([off, Enum("CreateNode", [ex.fresh_bv("op", 64)])])])]), [], "Op"))
        alts.append((Enum("Err", [Enum("Io", [Opaque("io")])]), [], "I/O fault"))
        return alts
    return GENERIC_MODELS + [
        (r"AsRef<Path>>::as_ref$", m_as_ref),
        (r"WalReader::open$", m_open),
        (r"WalReader::next_record$", m_next_record),
        (r"Option<u64> as PartialEq>::ne$", m_opt_scalar_eq(True)),
        (r"Option<u64> as PartialEq>::eq$", m_opt_scalar_eq(False)),
    ]


def parse_events(p):
    recs = []
    for e in p.events:
        if e == "END":
            recs.append(("END",))
        elif e == "I/O fault":
            recs.append(("IO",))
        elif e == "Op":
            recs.append(("Op",))
        elif e.startswith("BeginTx(") or e.startswith("CommitTx("):
            kind, t = e[:-1].split("(")
            recs.append((kind, z3.BitVec(t, 64)))
    return recs


def reference(ex, pc, recs):
    """Reference bracket parser: returns ('Ok', [(txid, n_ops)]) / ('Err', why) / None if the sequence is not terminated."""
    out, cur, pend = [], None, 0
    for r in recs:
        if r[0] == "END":
            return ("Ok", out)
        if r[0] == "IO":
            return ("Err", "io")
        if r[0] == "BeginTx":
            cur, pend = r[1], 0
        elif r[0] == "CommitTx":
            if cur is None:
                return ("Err", "CommitTx without matching BeginTx")
            if ex.entails(pc, cur == r[1]):
                out.append((r[1], pend))
                cur, pend = None, 0
            elif ex.entails(pc, cur != r[1]):
                return ("Err", "CommitTx without matching BeginTx")
            else:
                raise Unsupported("path does not decide a txid equality")
        else:
            if cur is None:
                return ("Err", "op outside tx")
            pend += 1
    return None


def run_replay(nrec):
    def run(mf, tier):
        fn = mf.find(r"^fn wal::<impl at [^>]*>::replay_committed_from_path\(")
        vi = variant_index("nervusdb-storage/src/wal.rs", "WalRecord")
        ex = Exec(fn, models(), bound=nrec + 1, variant_index=vi, max_paths=60000)
        st = State()
        st.env["_1"] = Opaque("path-arg")
        paths = ex.run("bb0", st)
        failed, n, agree, truncated = [], 0, 0, 0
        samples = []
        for p in paths:
            if p.kind == "bound":
                truncated += 1
                continue
            if p.kind == "panic":
                failed.append("panic possible on [%s]" % p.signature())
                continue
            if p.kind != "return":
                continue
            if any(e == "open -> I/O fault" for e in p.events):
                continue
            n += 1
            recs = parse_events(p)
            want = reference(ex, p.pc, recs)
            ret = p.ret
            pretty = " ".join(e for e in p.events)
            if want is None:
                failed.append("returned before the end of the log on [%s]" % pretty)
                continue
            if isinstance(ret, Enum) and ret.variant == "Ok":
                txs = ret.fields[0].items
                got = [(tx.fields[0], len(tx.fields[1].items)) for tx in txs]
                same = want[0] == "Ok" and len(want[1]) == len(got) and all(
                    a[1] == b[1] and ex.entails(p.pc, a[0] == b[0]) for a, b in zip(want[1], got))
                if not same:
                    shape = [e.split("(")[0] for e in p.events]
                    failed.append("replay returns %d committed transactions with op counts %s, the log holds %s: record kinds [%s]" % (
                        len(got), [g[1] for g in got], [w[1] for w in want[1]] if want[0] == "Ok" else want, " ".join(shape)))
                else:
                    agree += 1
            else:
                if want[0] != "Err":
                    shape = [e.split("(")[0] for e in p.events]
                    failed.append("replay fails (%r) on a well-bracketed log: record kinds [%s]" % (ret, " ".join(shape)))
                else:
                    agree += 1
            if len(samples) < 8 and len(recs) >= 4:
                samples.append(pretty + " => " + repr(ret)[:80])
        res = {"paths": n, "queries": ex.queries, "solver_time_s": round(ex.solver_time, 3), "sample": samples,
               "functions": [fn.header[:110]], "paths_cut_by_bound": truncated, "paths_agreeing_with_reference": agree}
        if failed:
            res.update({"status": "fail", "failed": sorted(set(failed))[:20], "reason": "; ".join(sorted(set(failed)))[:400]})
        else:
            res["status"] = "pass"
        return res
    return run


TARGETS = [
    {"name": "c02_o1_q_replay_brackets_4_records", "crate": "nervusdb-storage", "run": run_replay(4)},
    {"name": "c02_o1_t_replay_brackets_6_records", "crate": "nervusdb-storage", "run": run_replay(6)},
    # C17 shares the obligation: "recovers exactly the completely written committed transactions" (a torn bracket must not leak into the next one)
    {"name": "c17_o5_q_replay_brackets_4_records", "crate": "nervusdb-storage", "run": run_replay(4)},
]
