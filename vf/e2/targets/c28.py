"""C28-O1: vacuum's reachability marking reads the segment meta page exactly as the CSR writer lays it out.

Both sides are executed symbolically on the same byte image: csr::encode_meta writes a page (a Python list of 8192 8-bit z3
terms; positions concrete, page ids symbolic) through std::io::Cursor::write_all, then vacuum::mark_csr_segment_pages reads that
image through slice indexing / try_into / from_le_bytes. Obligation: the reader accepts the page and marks every page id the
writer listed (forward and reverse index blobs) as reachable.
"""
import re

import z3

from ..symex import (FALSE, GENERIC_MODELS, TRUE, Enum, Exec, Opaque, PyVec, Ref, State, Struct, Tup, Unsupported, b2bv, bv, deref_val)
from .. import witness

PAGE = 8192


def const_bytes(mf, name_regex, depth=0):
    txt = "\n".join(mf.lines)
    m = re.search(r"\nconst (?:\S*::)?%s: [^=]*= \{(.*?)\n\}" % name_regex, txt, re.S)
    if not m:
        raise Unsupported("constant %s not found" % name_regex)
    b = re.search(r'const b"((?:[^"\\]|\\.)*)"', m.group(1))
    if not b:
        # one level of indirection: `_1 = const path::to::OTHER;`
        r = re.search(r"= const ([\w:]+);", m.group(1))
        if r and depth < 3:
            tail = "::".join(r.group(1).split("::")[-2:])
            return const_bytes(mf, re.escape(tail), depth + 1)
        raise Unsupported("constant %s is not a byte-string literal" % name_regex)
    raw = b.group(1).encode().decode("unicode_escape").encode("latin1")
    return [bv(x, 8) for x in raw]


def promoted_byte_consts(mf, fn):
    """Resolve every `const path::promoted[k]` operand of fn that denotes a byte string (directly or through one named constant)."""
    out = {}
    for l in fn.lines:
        for m in re.finditer(r"const ((?:\w+::)*(\w+)::promoted\[(\d+)\])", l):
            full, owner, k = m.group(1), m.group(2), m.group(3)
            try:
                out["%s::promoted[%s]" % (owner, k)] = PyVec(const_bytes(mf, r"%s::promoted\[%s\]" % (re.escape(owner), k)))
            except Unsupported:
                pass
    return out


def concrete(v):
    s = z3.simplify(v)
    if not z3.is_bv_value(s):
        raise Unsupported("position is not concrete: %s" % s)
    return s.as_long()


class SetExec(Exec):
    def write(self, st, place, val):
        if isinstance(val, tuple) and val and val[0] == "ADV":
            _, ref, newv, result = val
            self._write(st, ref.root, list(ref.projs), newv)
            val = result
        return super().write(st, place, val)


def writer_models(magic):
    def m_as_mut_slice(ex, st, a, dst, callee):
        return [(a[0], [], None)]

    def m_cursor_new(ex, st, a, dst, callee):
        return [(Struct("Cursor", {0: a[0], 1: bv(0, 64)}), [], None)]

    def m_write_all(ex, st, a, dst, callee):
        cur = deref_val(ex, st, a[0])
        data = deref_val(ex, st, a[1]) if isinstance(a[1], Ref) else a[1]
        if not isinstance(cur, Struct) or not isinstance(data, PyVec):
            return None
        pos = concrete(cur.fields[1])
        img_ref = cur.fields[0]
        img = deref_val(ex, st, img_ref)
        if pos + len(data.items) > len(img.items):
            return [(Enum("Err", [Opaque("WriteZero")]), [], "write_all beyond the page")]
        items = list(img.items)
        items[pos:pos + len(data.items)] = data.items
        ex._write(st, img_ref.root, list(img_ref.projs), PyVec(items))
        ex._write(st, a[0].root, list(a[0].projs), Struct("Cursor", {0: img_ref, 1: bv(pos + len(data.items), 64)}))
        return [(Enum("Ok", [Tup([])]), [], None)]

    def m_to_le(ex, st, a, dst, callee):
        v = a[0]
        return [(PyVec([z3.Extract(8 * i + 7, 8 * i, v) for i in range(v.size() // 8)]), [], None)]

    def m_map_err(ex, st, a, dst, callee):
        return [(a[0], [], None)]

    def m_into_iter(ex, st, a, dst, callee):
        if isinstance(a[0], Ref):
            return [(Struct("SliceIter", {0: a[0], 1: bv(0, 64)}), [], None)]
        return None

    def m_slice_next(ex, st, a, dst, callee):
        it = deref_val(ex, st, a[0])
        if not (isinstance(it, Struct) and it.name == "SliceIter"):
            return None
        vec = deref_val(ex, st, it.fields[0])
        pos = concrete(it.fields[1])
        if pos >= len(vec.items):
            return [(Enum("None"), [], None)]
        slot = "$elem_%s_%d" % (it.fields[0].root.strip("$"), pos)
        st.env[slot] = vec.items[pos]
        return [(("ADV", a[0], Struct("SliceIter", {0: it.fields[0], 1: bv(pos + 1, 64)}), Enum("Some", [Ref(slot)])), [], None)]

    return [(r"array::<impl \[u8; \d+\]>::as_mut_slice$", m_as_mut_slice), (r"Cursor::<&mut \[u8\]>::new$", m_cursor_new),
            (r"as std::io::Write>::write_all$|as Write>::write_all$", m_write_all), (r"num::<impl u(64|32)>::to_le_bytes$", m_to_le),
            (r"Result::<\(\), std::io::Error>::map_err::<", m_map_err), (r"<&\[u64\] as IntoIterator>::into_iter$", m_into_iter),
            (r"slice::Iter<'_, u64> as Iterator>::next$", m_slice_next)] + GENERIC_MODELS


def reader_models(image, reader_magic):
    def m_read_page(ex, st, a, dst, callee):
        return [(Enum("Ok", [image]), [], None)]

    def m_index(ex, st, a, dst, callee):
        arr = deref_val(ex, st, a[0]) if isinstance(a[0], Ref) else a[0]
        rng = a[1]
        if not isinstance(arr, PyVec) or not isinstance(rng, Struct):
            return None
        s, e = concrete(rng.fields[0]), concrete(rng.fields[1])
        if s > e or e > len(arr.items):
            return [(Opaque("slice-panic"), [], "slice index out of range")]
        return [(PyVec(arr.items[s:e]), [], None)]

    def m_ne(ex, st, a, dst, callee):
        l = deref_val(ex, st, a[0]) if isinstance(a[0], Ref) else a[0]
        r = deref_val(ex, st, a[1]) if isinstance(a[1], Ref) else a[1]
        if not isinstance(l, PyVec):
            return None
        rb = r.items if isinstance(r, PyVec) else reader_magic
        if len(l.items) != len(rb):
            return [(TRUE, [], None)]
        return [(b2bv(z3.Or([x != y for x, y in zip(l.items, rb)])), [], None)]

    def m_try_into(ex, st, a, dst, callee):
        v = deref_val(ex, st, a[0]) if isinstance(a[0], Ref) else a[0]
        m = re.search(r"TryInto<\[u8; (\d+)\]>", callee)
        if not isinstance(v, PyVec) or not m:
            return None
        if len(v.items) != int(m.group(1)):
            return [(Enum("Err", [Opaque("TryFromSliceError")]), [], "try_into length mismatch")]
        return [(Enum("Ok", [v]), [], None)]

    def m_unwrap(ex, st, a, dst, callee):
        v = a[0]
        if isinstance(v, Enum) and v.variant == "Ok":
            return [(v.fields[0], [], None)]
        return None

    def m_from_le(ex, st, a, dst, callee):
        v = a[0]
        if not isinstance(v, PyVec):
            return None
        return [(z3.Concat(list(reversed(v.items))), [], None)]

    def m_range_next(ex, st, a, dst, callee):
        r = deref_val(ex, st, a[0])
        if not (isinstance(r, Struct) and r.name == "Range"):
            return None
        s, e = r.fields[0], r.fields[1]
        adv = Struct("Range", {0: s + 1, 1: e})
        return [(("ADV", a[0], adv, Enum("Some", [s])), [z3.ULT(s, e)], None), (Enum("None"), [z3.UGE(s, e)], None)]

    def m_page_id(ex, st, a, dst, callee):
        return [(a[0], [], None)]

    def m_insert(ex, st, a, dst, callee):
        st.env["$reachable"] = st.env.get("$reachable", []) + [a[1]]
        return [(TRUE, [], None)]

    return [(r"Pager::read_page$", m_read_page), (r"as std::ops::Index<std::ops::Range<usize>>>::index$", m_index),
            (r"<\[u8\] as PartialEq<\[u8; \d+\]>>::ne$", m_ne), (r"<&\[u8\] as TryInto<\[u8; \d+\]>>::try_into$", m_try_into),
            (r"Result::<\[u8; \d+\], TryFromSliceError>::unwrap$", m_unwrap), (r"num::<impl u(64|32)>::from_le_bytes$", m_from_le),
            (r"<std::ops::Range<usize> as IntoIterator>::into_iter$", lambda ex, st, a, d, c: [(a[0], [], None)]),
            (r"<std::ops::Range<usize> as Iterator>::next$", m_range_next), (r"PageId::new$", m_page_id),
            (r"BTreeSet::<PageId>::insert$", m_insert)] + GENERIC_MODELS


def run_layout(shape):
    def run(mf, tier):
        wfn = mf.find(r"^fn encode_meta\(")
        rfn = mf.find(r"^fn mark_csr_segment_pages\(")
        magic = const_bytes(mf, r"csr::META_MAGIC")
        rmagic = const_bytes(mf, r"(?:vacuum::)?mark_csr_segment_pages::promoted\[0\]")
        page_size = mf.const_value(r"PAGE_SIZE")
        # ---- writer
        wconsts = {"csr::META_MAGIC": PyVec(magic), "META_MAGIC": PyVec(magic), "PAGE_SIZE": page_size}
        wconsts.update(promoted_byte_consts(mf, wfn))
        ex = SetExec(wfn, writer_models(magic), bound=max(shape) + 3, consts=wconsts, mf=mf)
        st = State()
        st.env["$page"] = PyVec([bv(0, 8)] * PAGE)
        st.env["_1"] = Ref("$page")
        st.env["_2"] = Struct("SegmentId", {0: ex.fresh_bv("seg_id", 64)})
        for i, nm in ((3, "min_src"), (4, "max_src"), (5, "min_dst"), (6, "max_dst")):
            st.env["_%d" % i] = ex.fresh_bv(nm, 32)
        for i, nm in ((7, "offsets_len"), (8, "edges_len"), (9, "in_offsets_len"), (10, "in_edges_len")):
            st.env["_%d" % i] = ex.fresh_bv(nm, 64)
        lists, all_ids, pre = [], [], []
        for li, (argi, nm) in enumerate(((11, "offsets"), (12, "edges"), (13, "in_offsets"), (14, "in_edges"))):
            ids = [ex.fresh_bv("%s_page%d" % (nm, k), 64) for k in range(shape[li])]
            for x in ids:
                pre += [z3.UGE(x, 2), z3.ULT(x, bv(65536, 64))]
            st.env["$%s" % nm] = PyVec(ids)
            st.env["_%d" % argi] = Ref("$%s" % nm)
            lists.append(ids)
            all_ids += [(nm, k, x) for k, x in enumerate(ids)]
        st.pc += pre
        wpaths = [p for p in ex.run("bb0", st) if p.kind == "return" and isinstance(p.ret, Enum) and p.ret.variant == "Ok"]
        if len(wpaths) != 1:
            raise Unsupported("expected exactly one successful path through encode_meta, got %d" % len(wpaths))
        wp = wpaths[0]
        image = wp.st.env["$page"]
        # ---- reader on the writer's image
        rconsts = {"PAGE_SIZE": page_size}
        rconsts.update(promoted_byte_consts(mf, rfn))
        ex2 = SetExec(rfn, reader_models(image, rmagic), bound=sum(shape) + 6, consts=rconsts, mf=mf)
        st2 = State()
        st2.pc = list(wp.pc)
        st2.env["_1"] = Opaque("pager")
        st2.env["_2"] = bv(9, 64)
        st2.env["$set"] = Opaque("reachable-set")
        st2.env["_3"] = Ref("$set")
        rpaths = ex2.run("bb0", st2)
        failed, n = [], 0
        for p in rpaths:
            if p.kind == "panic":
                if ex2.feasible(p.pc):
                    failed.append("vacuum panics while reading the segment meta page: %s" % p.info[:60])
                continue
            if p.kind != "return":
                continue
            n += 1
            if not (isinstance(p.ret, Enum) and p.ret.variant == "Ok"):
                why = p.ret.fields[0] if isinstance(p.ret, Enum) and p.ret.fields else p.ret
                failed.append("vacuum rejects the segment meta page the CSR writer produced: %r" % (why,))
                continue
            reach = p.st.env.get("$reachable", [])
            for nm, k, x in all_ids:
                if not reach or not ex2.entails(p.pc, z3.Or([r == x for r in reach])):
                    failed.append("vacuum does not mark page %d of the %s blob as reachable (it would be reclaimed)" % (k, nm))
        res = {"paths": n, "queries": ex.queries + ex2.queries, "solver_time_s": round(ex.solver_time + ex2.solver_time, 3),
               "sample": ["writer magic %s / reader magic %s" % (bytes(x.as_long() for x in magic), bytes(x.as_long() for x in rmagic)),
                          "blob page counts (offsets, edges, in_offsets, in_edges) = %s" % (shape,)],
               "functions": [wfn.header[:60], rfn.header[:80]]}
        if failed:
            res.update({"status": "fail", "failed": sorted(set(failed)), "reason": "; ".join(sorted(set(failed)))[:400]})
            rep, lines = witness.run(["vacuum-after-compaction"])
            res["witness_text"] = ["public-API replay: one relationship, compact(), close(), vacuum()"] + lines
            res["reproduced"] = rep
        else:
            res["status"] = "pass"
        return res
    return run


TARGETS = [
    {"name": "c28_o1_q_segment_meta_layout_1_1_1_1", "crate": "nervusdb-storage", "run": run_layout((1, 1, 1, 1))},
    {"name": "c28_o1_q_segment_meta_layout_1_0_0_0", "crate": "nervusdb-storage", "run": run_layout((1, 0, 0, 0))},
    {"name": "c28_o1_t_segment_meta_layout_2_2_1_2", "crate": "nervusdb-storage", "run": run_layout((2, 2, 1, 2))},
]
