"""C21-O1: the Sum / SumDistinct arms of execute_aggregate's per-group closure never return a wrapped integer.

The closure is a 2500-line MIR body; the arm is entered arm-locally: the entry block is located through the debug name
`int_sum` (the block that initialises it to 0_i128 inside the `Sum` arm), the exit is the join block after the arm assigns
the aggregate's `value`. Rows are a symbolic stream of <= N items; evaluate_expression_value is modelled as returning a
fresh Value (Int(i64) | Float(f64) | some other kind).
"""
import re

import z3

from ..symex import (FALSE, GENERIC_MODELS, TRUE, Enum, Exec, Opaque, PyVec, Ref, State, Struct, SymEnum, Tup, Unsupported, bv)
from .. import witness
from .util import variant_index


def locate_arm(fn, variant):
    """(entry block, value local, stop blocks) of the `variant` arm."""
    int_sums = [loc for name, loc in _debug_all(fn, "int_sum")]
    entry = None
    for bb, stmts in fn.blocks.items():
        if any(re.search(r"\(\(\*_\d+\) as %s\)\.0" % variant, s) for s in stmts):
            entry = bb
            break
    if entry is None:
        raise Unsupported("cannot locate the %s arm" % variant)
    value_local = None
    for name, loc in _debug_all(fn, "value"):
        value_local = loc
        break
    if value_local is None:
        raise Unsupported("cannot locate the aggregate `value` local")
    stops = set()
    # the arm ends where the aggregate's `value` has been assigned (by a statement or as the destination of a call)
    reach = _reachable(fn, entry, stop_pred=lambda bb: False, limit=400)
    for bb, stmts in fn.blocks.items():
        if bb not in reach:
            continue
        for s in stmts:
            if re.match(r"^%s = " % re.escape(value_local), s):
                m = re.search(r"-> \[return: (bb\d+),", s)
                if m:
                    stops.add(m.group(1))
                else:
                    t = stmts[-1]
                    m = re.match(r"^goto -> (bb\d+);$", t) or re.match(r"^drop\(.*\) -> \[return: (bb\d+),", t)
                    if m:
                        stops.add(m.group(1))
    if not stops:
        raise Unsupported("cannot locate the arm exit")
    return entry, value_local, stops


def _reachable(fn, entry, stop_pred, limit=400):
    """Blocks reachable from `entry` without passing through another arm's entry (bounded breadth-first walk of the CFG text)."""
    seen, todo = set(), [entry]
    while todo and len(seen) < limit:
        bb = todo.pop()
        if bb in seen or bb in fn.cleanup:
            continue
        seen.add(bb)
        term = fn.blocks[bb][-1] if fn.blocks[bb] else ""
        if re.search(r"switchInt\(.*\) -> \[.*otherwise", term) and len(re.findall(r"bb\d+", term)) > 6:
            continue            # a wide dispatch (the match over aggregate functions): do not walk into other arms
        for t in re.findall(r"(?:return: |success: |-> |: )(bb\d+)", term):
            if t not in seen:
                todo.append(t)
    return seen


def _debug_all(fn, name):
    out = []
    for l in fn.lines:
        m = re.match(r"^\s*debug %s => (_\d+);$" % re.escape(name), l)
        if m:
            out.append((name, m.group(1)))
    return out


def run_sum(variant, nrows):
    def run(mf, tier):
        # the per-group closure is the one that matches on the aggregate function (closure numbering shifts when code is added)
        fn = None
        for h in sorted(h for h in mf.index if re.match(r"^fn projection_sort::execute_aggregate::\{closure#\d+\}\(", h)):
            cand = mf.find("^" + re.escape(h))
            if any(re.search(r"\(\(\*_\d+\) as %s\)\.0" % variant, l) for l in cand.lines):
                fn = cand
                break
        if fn is None:
            raise Unsupported("cannot find the per-group closure of execute_aggregate")
        entry, value_local, stops = locate_arm(fn, variant)
        vi = variant_index("nervusdb-query/src/executor/core_types.rs", "Value")
        seen_vals = []

        def m_into_iter(ex, st, a, dst, callee):
            return [(Struct("iter", {}), [], None)]

        def m_next(ex, st, a, dst, callee):
            k = st.env.get("$n", 0)
            alts = [(Enum("None"), [], "rows end after %d" % k)]
            if k < nrows:
                st2 = None
                alts.append((Enum("Some", [Ref("$row%d" % k)]), [], None))
            return alts

        def m_eval(ex, st, a, dst, callee):
            k = st.env.get("$n", 0)
            st.env["$n"] = k + 1
            i = ex.fresh_bv("int%d" % k, 64)
            f = ex.fresh_fp("float%d" % k)
            st.env["$int%d" % k] = i
            return [(Enum("Int", [i]), [], "row%d=Int" % k), (Enum("Float", [f]), [], "row%d=Float" % k),
                    (Enum("Null"), [], "row%d=other" % k)]

        def m_vec_new(ex, st, a, dst, callee):
            return [(PyVec(), [], None)]

        def m_value_eq(ex, st, a, dst, callee):
            return None

        from ..symex import STD_CMP_MODELS
        models = [
            (r"as IntoIterator>::into_iter$", m_into_iter),
            (r"slice::Iter<'_, Row> as Iterator>::next$", m_next),
            (r"^evaluate_expression_value::<", m_eval),
        ] + STD_CMP_MODELS + GENERIC_MODELS
        ex = Exec(fn, models, bound=nrows + 2, variant_index=vi, stop_at={b: "arm-exit" for b in stops}, max_paths=20000, mf=mf, inline=r".")
        st = State()
        st.env["$func"] = Enum(variant, [Opaque("expr")])
        # the arm reads the aggregate function through a reference local; find it from the entry block
        m = None
        for s in fn.blocks[entry]:
            m = re.search(r"\(\(\*(_\d+)\) as %s\)" % variant, s)
            if m:
                break
        st.env[m.group(1)] = Ref("$func")
        st.env["$closure"] = Struct("closure-env", {})
        st.env["_1"] = Ref("$closure")
        for k in range(nrows):
            st.env["$row%d" % k] = Opaque("row%d" % k)
        if variant != "Sum":
            raise Unsupported("only the Sum arm is entered arm-locally")
        paths = ex.run(entry, st)
        failed, n, witness_text, reproduced = [], 0, [], None
        for p in paths:
            if p.kind == "panic":
                failed.append("panic possible in the %s arm on [%s]" % (variant, p.signature()))
                continue
            if p.kind != "stop":
                continue
            n += 1
            val = p.st.env.get(value_local)
            kinds = [e.split("=")[1] for e in p.events if re.match(r"^row\d+=", e)]
            ints = [z3.BitVec(str(v), 64) for v in _symbols_named(p, "int")]
            if not isinstance(val, Enum):
                failed.append("arm exit without a value on [%s]" % p.signature())
                continue
            if "Float" in kinds:
                if val.variant != "Float":
                    failed.append("sum over a group containing a Float is not a Float on [%s]" % p.signature())
                continue
            # all contributing values are Ints (other kinds are skipped by the arm)
            int_terms = _int_inputs(p)
            exact = sum([z3.SignExt(64, t) for t in int_terms], z3.BitVecVal(0, 128))
            if val.variant == "Int":
                v = val.fields[0]
                bad = z3.SignExt(64, v) != exact
                if ex.feasible(p.pc, bad):
                    m = ex.model(p.pc, bad)
                    xs = [m.eval(t, model_completion=True).as_signed_long() for t in int_terms]
                    got = m.eval(v, model_completion=True).as_signed_long()
                    failed.append("sum of Ints returns a wrapped Int instead of the exact sum or a Float (%d Int rows)" % len(int_terms))
                    cy = "UNWIND [%s] AS x RETURN sum(x) AS s" % ", ".join(str(x) for x in xs)
                    rows = witness.query_rows(cy)
                    witness_text += ["solver model: inputs %s, arm returns Int(%d), exact sum %d" % (xs, got, sum(xs)),
                                     "public-API replay: `%s` => %s" % (cy, rows)]
                    if rows is not None:
                        reproduced = ("Int(%d)" % got) in rows and got != sum(xs)
            elif val.variant == "Float":
                # allowed only when the exact sum does not fit i64
                fits = z3.And(exact >= z3.BitVecVal(-(1 << 63), 128), exact <= z3.BitVecVal((1 << 63) - 1, 128))
                if ex.feasible(p.pc, fits):
                    failed.append("sum of Ints that fits i64 is returned as a Float on [%s]" % p.signature())
            else:
                failed.append("sum returns %s on [%s]" % (val.variant, p.signature()))
        res = {"paths": n, "queries": ex.queries, "solver_time_s": round(ex.solver_time, 3),
               "sample": [p.signature() + " => " + repr(p.st.env.get(value_local))[:70] for p in paths if p.kind == "stop"][:8],
               "functions": [fn.header[:90] + " (arm %s, entry %s)" % (variant, entry)]}
        if failed:
            res.update({"status": "fail", "failed": sorted(set(failed)), "reason": "; ".join(sorted(set(failed)))[:400],
                        "witness_text": witness_text, "reproduced": reproduced})
        else:
            res["status"] = "pass"
        return res
    return run


def _symbols_named(p, prefix):
    out = {}
    for c in p.pc:
        stack = [c]
        while stack:
            e = stack.pop()
            if z3.is_const(e) and e.decl().kind() == z3.Z3_OP_UNINTERPRETED and str(e).startswith(prefix):
                out[str(e)] = e
            else:
                stack.extend(e.children())
    return list(out.values())


def _int_inputs(p):
    """The symbolic Int payloads of the rows that evaluated to Int on this path, in row order."""
    terms = []
    for e in p.events:
        m = re.match(r"^row(\d+)=Int$", e)
        if m:
            terms.append(int(m.group(1)))
    out = []
    for k in terms:
        # fresh names are int<k>#<n>; recover them from the final environment is not possible, so rebuild by name scan
        out.append(k)
    return [p.st.env["$int%d" % k] for k in terms]


TARGETS = [
    {"name": "c21_o1_q_sum_arm_2_rows", "crate": "nervusdb-query", "run": run_sum("Sum", 2)},
    {"name": "c21_o1_q_sum_arm_4_rows", "crate": "nervusdb-query", "run": run_sum("Sum", 4)},
    {"name": "c21_o1_t_sum_arm_5_rows", "crate": "nervusdb-query", "run": run_sum("Sum", 5)},
]
