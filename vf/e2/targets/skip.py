"""SKIP (executor/plan_tail.rs execute_skip): which items of the input stream survive, for every window size and every mix of
row / error items up to LEN items.

  C20-O2  on a stream of rows, exactly the first n are dropped (n = the evaluated window size) and the rest keep their order;
  C22-O3  an error item is never dropped, wherever it falls relative to the SKIP window.

execute_skip is executed symbolically up to the iterator adaptor it returns. Two adaptor shapes are understood:
  * std's Iterator::skip(n): by std's definition it discards the first n *items* whatever they are (semantics taken from std);
  * Iterator::filter(closure): the crate-local closure is executed symbolically, item by item, with its captured state.
Any other shape is reported as inconclusive."""
import itertools
import re

import z3

from ..symex import (FALSE, GENERIC_MODELS, STD_CMP_MODELS, TRUE, Enum, Exec, Opaque, Ref, State, Struct, Unsupported, bv, subcall)

LEN = 4


def analyse(mf):
    """-> (ex, [(path condition, n term, kind, keep)]): keep(seq) -> list of [(constraints, [kept booleans as python bool])]"""
    fn = mf.find(r"^fn execute_skip\(")

    def m_window(ex, st, a, dst, callee):
        n = ex.fresh_bv("window", 64)
        st.env["$window"] = n
        return [(Enum("Ok", [n]), [], "window=Ok"), (Enum("Err", [Opaque("window-error")]), [], "window=Err")]

    def m_plan(ex, st, a, dst, callee):
        return [(Opaque("input-iter"), [], None)]

    def m_skip(ex, st, a, dst, callee):
        return [(Struct("StdSkip", {0: a[0], 1: a[1]}), [], "Iterator::skip")]

    def m_filter(ex, st, a, dst, callee):
        m = re.search(r"\{closure@([^}]*)\}", callee)
        if not m:
            return None
        return [(Struct("StdFilter", {0: a[0], 1: a[1], 2: Opaque(m.group(1))}), [], "Iterator::filter")]

    def m_once(ex, st, a, dst, callee):
        return [(Struct("Once", {0: a[0]}), [], None)]

    def m_box(ex, st, a, dst, callee):
        return [(a[0], [], None)]
    models = [(r"^evaluate_row_window_expression::<", m_window), (r"execute_plan::<", m_plan), (r"as Iterator>::skip$", m_skip),
              (r"as Iterator>::filter::<", m_filter), (r"^once::<|iter::once::<", m_once), (r"Box::<.*>::new$", m_box)] + STD_CMP_MODELS + GENERIC_MODELS
    ex = Exec(fn, models, bound=2, mf=mf, inline=r"^$")
    paths = ex.run("bb0", State())
    out = []
    for p in paths:
        if p.kind == "panic":
            raise AssertionError("execute_skip can panic on [%s]" % p.signature())
        if p.kind != "return":
            continue
        ret = p.ret
        inner = ret.fields[0] if isinstance(ret, Enum) and ret.variant == "Dynamic" else None
        if "window=Err" in p.events:
            ok = isinstance(inner, Struct) and inner.name == "Once" and isinstance(inner.fields[0], Enum) and inner.fields[0].variant == "Err"
            out.append((p, None, "window-error" if ok else "window-error-lost", None))
            continue
        n = p.st.env["$window"]
        if isinstance(inner, Struct) and inner.name == "StdSkip":
            if not (isinstance(inner.fields[0], Opaque) and inner.fields[0].name == "input-iter"):
                raise Unsupported("SKIP adapts something other than the input plan's iterator")
            cnt = inner.fields[1]

            def keep(seq, cnt=cnt):
                # std::iter::Skip: item i survives iff i >= n
                res = []
                for k in range(len(seq) + 1):
                    cond = [cnt == k] if k < len(seq) else [z3.UGE(cnt, bv(len(seq), 64))]
                    res.append((cond, [i >= k for i in range(len(seq))]))
                return res
            out.append((p, n, "std::iter::Skip", keep))
        elif isinstance(inner, Struct) and inner.name == "StdFilter":
            if not (isinstance(inner.fields[0], Opaque) and inner.fields[0].name == "input-iter"):
                raise Unsupported("SKIP adapts something other than the input plan's iterator")
            cfn = mf.resolve_closure(inner.fields[2].name)
            if cfn is None:
                raise Unsupported("the SKIP filter closure is not in the MIR dump")
            clos = inner.fields[1]

            def keep(seq, clos=clos, cfn=cfn, p=p):
                st0 = p.st.fork()
                st0.env["$skip_closure"] = clos
                states = [(st0, [], [])]
                for i, kind in enumerate(seq):
                    nxt = []
                    for s, cons, kept in states:
                        s.env["$skip_item"] = Enum(kind, [Opaque("row%d" % i if kind == "Ok" else "error%d" % i)])
                        res = subcall(ex, s, cfn, [Ref("$skip_closure"), Ref("$skip_item")], with_state=True)
                        if isinstance(res, str):
                            raise AssertionError("the SKIP filter closure can panic: " + res)
                        for val, extra, post in res:
                            for flag, c in ((True, val == TRUE), (False, val == FALSE)):
                                if ex.feasible(post.pc, c):
                                    s2 = post.fork()
                                    s2.pc.append(c)
                                    nxt.append((s2, cons + extra + [c], kept + [flag]))
                    states = nxt
                return [(cons, kept) for _, cons, kept in states]
            out.append((p, n, "Iterator::filter + closure", keep))
        else:
            raise Unsupported("execute_skip returns an iterator shape this check does not understand: %r" % (inner,))
    return ex, fn, out


def run(kind):
    def go(mf, tier):
        failed, n_cases, shapes = [], 0, set()
        try:
            ex, fn, table = analyse(mf)
            for p, n, shape, keep in table:
                shapes.add(shape)
                if shape == "window-error":
                    continue
                if shape == "window-error-lost":
                    failed.append("execute_skip does not surface the window-size error as the only item")
                    continue
                seqs = [s for L in range(1, LEN + 1) for s in itertools.product(("Ok", "Err"), repeat=L)]
                if kind == "c20":
                    seqs = [s for s in seqs if "Err" not in s]
                for seq in seqs:
                    for cons, kept in keep(seq):
                        if not ex.feasible(p.pc + cons):
                            continue
                        n_cases += 1
                        if kind == "c20":
                            # exactly the first min(n, len) rows are dropped
                            for k in range(len(seq) + 1):
                                want = [i >= k for i in range(len(seq))]
                                cond = (n == k) if k < len(seq) else z3.UGE(n, bv(len(seq), 64))
                                if kept != want and ex.feasible(p.pc + cons, cond):
                                    failed.append("SKIP n on a stream of %d rows does not drop exactly the first n rows (n = %s keeps %s)"
                                                  % (len(seq), k if k < len(seq) else ">=%d" % k, ["row%d" % i for i, f in enumerate(kept) if f]))
                        else:
                            for i, (it, f) in enumerate(zip(seq, kept)):
                                if it == "Err" and not f:
                                    m = ex.model(p.pc + cons)
                                    failed.append("SKIP drops an error item that falls inside its window, so a runtime error raised by a skipped row is "
                                                  "swallowed (stream %s, error at position %d, n = %s)" % ("/".join(seq), i, m.eval(n, model_completion=True)))
        except AssertionError as e:
            failed.append(str(e))
        reproduced, wit = None, []
        if failed and kind == "c22":
            # native replay through the public API: toBoolean(1) raises a runtime error, toBoolean(true) does not
            from .. import witness
            base = "UNWIND [1, true, false] AS x RETURN toBoolean(x) AS y"
            plain, skipped = witness.query_rows(base), witness.query_rows(base + " SKIP 1")
            wit = ["replay: `%s` => %s" % (base, plain), "replay: `%s SKIP 1` => %s" % (base, skipped)]
            if plain is not None and skipped is not None:
                reproduced = plain.startswith("Err") and skipped.startswith("Ok")
        res = {"paths": n_cases, "queries": ex.queries if "ex" in dir() else 0, "solver_time_s": round(ex.solver_time, 3) if "ex" in dir() else 0,
               "sample": ["adaptor shapes: %s; streams of up to %d items, every Ok/Err pattern, symbolic window size" % (sorted(shapes), LEN)],
               "functions": ["executor::plan_tail::execute_skip (+ its filter closure when present)"]}
        if failed:
            res.update({"status": "fail", "failed": sorted({re.sub(r" \(.*\)$", "", f) for f in failed}), "reason": "; ".join(sorted(set(failed)))[:500],
                        "witness_text": sorted(set(failed))[:3] + wit, "reproduced": reproduced})
        else:
            res["status"] = "pass"
        return res
    return go


TARGETS = [
    {"name": "c20_o2_q_skip_drops_exactly_first_n_rows", "crate": "nervusdb-query", "run": run("c20")},
    {"name": "c22_o3_q_skip_forwards_errors", "crate": "nervusdb-query", "run": run("c22")},
]
