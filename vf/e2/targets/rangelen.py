"""C33-O4: estimate_range_len (the guard in front of range()) on the FULL i64 input space, decided by z3 on the function's MIR.

The guard may over-estimate (it then refuses a range that would have fitted - safe) but must never under-estimate by more than a
factor of two (the known effect of clamping a span that does not fit i64): otherwise a range far above the collection limit passes
the guard and is materialised - unbounded work instead of a resource-limit error.

    exact = number of elements of range(start, end, step) over the integers (128-bit arithmetic)
    obligation: 2 * estimate + 1 >= exact, and estimate == 0 only if exact == 0, and estimate == exact whenever the span fits i64."""
import z3

from ..symex import GENERIC_MODELS, STD_CMP_MODELS, Enum, Exec, State, Unsupported, bv


def models():
    def m_unsigned_abs(ex, st, a, dst, callee):
        x = a[0]
        return [(z3.If(x < 0, -x, x), [], None)]

    def m_try_from(ex, st, a, dst, callee):
        x = a[0]
        fits = z3.ULE(x, z3.BitVecVal((1 << 64) - 1, 128))
        return [(Enum("Ok", [z3.Extract(63, 0, x)]), [fits], None), (Enum("Err", []), [z3.Not(fits)], None)]

    def m_unwrap_or(ex, st, a, dst, callee):
        v = a[0]
        if isinstance(v, Enum) and v.variant == "Ok":
            return [(v.fields[0], [], None)]
        if isinstance(v, Enum) and v.variant == "Err":
            return [(a[1], [], None)]
        return None
    return [(r"num::<impl i64>::unsigned_abs$", m_unsigned_abs), (r"^<usize as TryFrom<u128>>::try_from$", m_try_from),
            (r"Result::<usize, TryFromIntError>::unwrap_or$", m_unwrap_or)] + STD_CMP_MODELS + GENERIC_MODELS


def run(steps, label):
    """start/end symbolic over all of i64; the step is enumerated (division by a symbolic 128-bit divisor does not finish in z3)."""
    def go(mf, tier):
        import re
        fn = mf.find(r"^fn (?:\S*::)?estimate_range_len\(")
        start, end = z3.BitVec("start", 64), z3.BitVec("end", 64)
        failed, n, queries, stime = [], 0, 0, 0.0
        for stepv in steps:
            step = z3.BitVecVal(stepv, 64)
            st = State()
            st.env["_1"], st.env["_2"], st.env["_3"] = start, end, step
            ex = Exec(fn, models(), bound=3, mf=mf, inline=r"^$", consts={"impl usize>::MAX": ((1 << 64) - 1, "usize")})
            paths = ex.run("bb0", st)
            s128, e128 = z3.SignExt(64, start), z3.SignExt(64, end)
            span = (e128 - s128) if stepv > 0 else (s128 - e128)
            exact = z3.If(span < 0, z3.BitVecVal(0, 128), z3.UDiv(span, z3.BitVecVal(abs(stepv), 128)) + 1)
            fits = z3.And(span >= 0, z3.ULE(span, z3.BitVecVal((1 << 63) - 1, 128)))
            for p in paths:
                if p.kind == "panic":
                    m = ex.model(p.pc)
                    failed.append("estimate_range_len can panic (%s), e.g. range(%s, %s, %s)" % (str(p.info)[:50], m.eval(start, model_completion=True).as_signed_long(),
                                                                                               m.eval(end, model_completion=True).as_signed_long(), stepv))
                    continue
                if p.kind != "return":
                    continue
                n += 1
                est = z3.ZeroExt(64, p.ret)
                for msg, cond in (("the estimate is below half of the exact length: a range far above the limit passes the guard", z3.UGE(2 * est + 1, exact)),
                                  ("a non-empty range is estimated as empty", z3.Implies(exact != 0, est != 0)),
                                  ("the estimate differs from the exact length although the span fits i64", z3.Implies(fits, est == exact))):
                    if not ex.entails(p.pc, cond):
                        m = ex.model(p.pc, z3.Not(cond))
                        failed.append("%s, e.g. range(%s, %s, %s): estimate %s, exact %s" % (msg, m.eval(start, model_completion=True).as_signed_long(),
                                      m.eval(end, model_completion=True).as_signed_long(), stepv, m.eval(p.ret, model_completion=True), m.eval(exact, model_completion=True)))
            queries += ex.queries
            stime += ex.solver_time
        res = {"paths": n, "queries": queries, "solver_time_s": round(stime, 3), "sample": ["start, end: all i64; step in %s" % label],
               "functions": ["executor::plan_mid::estimate_range_len"]}
        if failed:
            res.update({"status": "fail", "failed": sorted({re.sub(r", e\.g\. .*$", "", f) for f in failed}), "reason": "; ".join(sorted(set(failed)))[:500],
                        "witness_text": sorted(set(failed))[:3]})
        else:
            res["status"] = "pass"
        return res
    return go


POW2 = [s * (1 << k) for k in (0, 1, 4, 20, 31, 32, 44, 62) for s in (1, -1)] + [-(1 << 63)]
MORE = [s * (1 << k) for k in range(63) for s in (1, -1)] + [-(1 << 63)]      # odd divisors: z3 does not finish the 128-bit division (outside the claim)
TARGETS = [
    {"name": "c33_o4_q_range_estimate_all_bounds_selected_steps", "crate": "nervusdb-query", "run": run(POW2, "{+-2^k : k in 0,1,4,20,31,32,44,62} and i64::MIN")},
    {"name": "c33_o4_t_range_estimate_all_bounds_more_steps", "crate": "nervusdb-query", "run": run(MORE, "{+-2^k : k < 63} and i64::MIN")},
]
