"""Iterator adaptors: FilterIter::next (C19-O1, C22-O2), RuntimeGuardIter::next (C33-O3, C22-O2), evaluate_expression_bool (C19-O2).

The input stream is symbolic: every `inner.next()` forks into {exhausted, Some(Ok(row_k)), Some(Err(e_k))}; rows and errors are
opaque tokens so that identity (which input item came out) can be checked. One call of `next()` is explored for every prefix of
<= N input items.
"""
import re

import z3

from ..symex import (FALSE, GENERIC_MODELS, TRUE, Enum, Exec, Opaque, Ref, State, Struct, SymEnum, Tup, Unsupported)
from .util import variant_index


def stream_model(nmax):
    def m_next(ex, st, a, dst, callee):
        k = st.env.get("$k", 0)
        if k >= nmax:
            return [(Enum("None"), [], "in%d=end" % k)]
        st.env["$k"] = k + 1
        return [(Enum("None"), [], "in%d=end" % k),
                (Enum("Some", [Enum("Ok", [Opaque("row%d" % k)])]), [], "in%d=Ok" % k),
                (Enum("Some", [Enum("Err", [Opaque("err%d" % k)])]), [], "in%d=Err" % k)]
    return m_next


def expected_filter(events):
    """Reference semantics of one FilterIter::next() call over the event list; returns ('none',) | ('row',k) | ('err', tag)."""
    k = None
    for e in events:
        m = re.match(r"^in(\d+)=(\w+)$", e)
        if m:
            k = int(m.group(1))
            if m.group(2) == "end":
                return ("none",)
            if m.group(2) == "Err":
                return ("err", "err%d" % k)
            continue
        if e == "compat=Err":
            return ("err", "compat%d" % k)
        if e == "pred=true":
            return ("row", k)
    return None


def classify(ret):
    if isinstance(ret, Enum) and ret.variant == "None":
        return ("none",)
    if isinstance(ret, Enum) and ret.variant == "Some":
        r = ret.fields[0]
        if isinstance(r, Enum) and r.variant == "Ok" and isinstance(r.fields[0], Opaque):
            m = re.match(r"^row(\d+)$", r.fields[0].name)
            if m:
                return ("row", int(m.group(1)))
        if isinstance(r, Enum) and r.variant == "Err" and isinstance(r.fields[0], Opaque):
            return ("err", r.fields[0].name)
    return ("?", repr(ret))


def run_filter(nmax):
    def run(mf, tier):
        fn = mf.find(r"^fn plan_iterators::<impl at [^>]*>::next\(_1: &mut FilterIter<'_, S>\)")

        def m_compat(ex, st, a, dst, callee):
            k = st.env.get("$k", 0) - 1
            return [(Enum("Ok", [Tup([])]), [], "compat=Ok"), (Enum("Err", [Opaque("compat%d" % k)]), [], "compat=Err")]

        def m_pred(ex, st, a, dst, callee):
            return [(TRUE, [], "pred=true"), (FALSE, [], "pred=other")]

        models = GENERIC_MODELS + [(r"as Iterator>::next$", stream_model(nmax)),
                                   (r"^ensure_runtime_expression_compatible::<", m_compat),
                                   (r"^evaluate_expression_bool::<", m_pred)]
        ex = Exec(fn, models, bound=nmax + 2, max_paths=20000)
        st = State()
        st.env["$self"] = Struct("FilterIter", {0: Opaque("snapshot"), 1: Opaque("input"), 2: Opaque("predicate"), 3: Opaque("params")})
        st.env["_1"] = Ref("$self")
        paths = ex.run("bb0", st)
        failed, n, cut = [], 0, 0
        for p in paths:
            if p.kind == "bound":
                cut += 1
                continue
            if p.kind == "panic":
                failed.append("panic possible on [%s]" % p.signature())
                continue
            if p.kind != "return":
                continue
            n += 1
            want = expected_filter(p.events)
            got = classify(p.ret)
            if want is None:
                failed.append("next() returned before deciding an item on [%s]" % p.signature())
            elif got != want:
                failed.append("FilterIter::next returns %s where the filter semantics require %s on [%s]" % (got, want, _shape(p)))
        res = {"paths": n, "queries": ex.queries, "solver_time_s": round(ex.solver_time, 3), "paths_cut_by_bound": cut,
               "sample": [p.signature() + " => " + repr(p.ret) for p in paths if p.kind == "return"][:8], "functions": [fn.header[:110]]}
        if failed:
            res.update({"status": "fail", "failed": sorted(set(failed))[:12], "reason": "; ".join(sorted(set(failed)))[:400]})
        else:
            res["status"] = "pass"
        return res
    return run


def _shape(p):
    return " ".join(re.sub(r"\d+", "", e) for e in p.events)


def run_guard(nmax):
    def run(mf, tier):
        fn = mf.find(r"^fn runtime_limits::<impl at [^>]*>::next\(_1: &mut RuntimeGuardIter<'_>\)")

        def m_timeout(ex, st, a, dst, callee):
            return [(Enum("Ok", [Tup([])]), [], "timeout=Ok"), (Enum("Err", [Opaque("timeout-error")]), [], "timeout=Err")]

        def m_note(ex, st, a, dst, callee):
            st.env["$noted"] = st.env.get("$noted", 0) + 1
            return [(Enum("Ok", [Tup([])]), [], "limit=Ok"), (Enum("Err", [Opaque("limit-error")]), [], "limit=Err")]

        models = GENERIC_MODELS + [(r"as Iterator>::next$", stream_model(nmax)),
                                   (r"Params::check_timeout$", m_timeout), (r"Params::note_emitted_row$", m_note)]
        ex = Exec(fn, models, bound=3)
        st = State()
        st.env["$self"] = Struct("RuntimeGuardIter", {0: Opaque("inner"), 1: Opaque("params"), 2: Opaque("stage")})
        st.env["_1"] = Ref("$self")
        paths = ex.run("bb0", st)
        failed, n = [], 0
        for p in paths:
            if p.kind == "panic":
                failed.append("panic possible on [%s]" % p.signature())
                continue
            if p.kind != "return":
                continue
            n += 1
            ev = p.events
            got = classify(p.ret)
            noted = p.st.env.get("$noted", 0)
            if "timeout=Err" in ev:
                want = ("err", "timeout-error")
            elif "in0=end" in ev:
                want = ("none",)
            elif "in0=Err" in ev:
                want = ("err", "err0")
            elif "in0=Ok" in ev:
                if noted != 1:
                    failed.append("an emitted row bypasses note_emitted_row on [%s]" % _shape(p))
                want = ("err", "limit-error") if "limit=Err" in ev else ("row", 0)
            else:
                want = None
            if want is None or got != want:
                failed.append("RuntimeGuardIter::next returns %s where the guard semantics require %s on [%s]" % (got, want, _shape(p)))
        res = {"paths": n, "queries": ex.queries, "solver_time_s": round(ex.solver_time, 3),
               "sample": [p.signature() + " => " + repr(p.ret) for p in paths if p.kind == "return"][:8], "functions": [fn.header[:110]]}
        if failed:
            res.update({"status": "fail", "failed": sorted(set(failed))[:12], "reason": "; ".join(sorted(set(failed)))[:400]})
        else:
            res["status"] = "pass"
        return res
    return run


def run_eval_bool(mf, tier):
    fn = mf.find(r"^fn evaluate_expression_bool\(")
    vi = variant_index("nervusdb-query/src/executor/core_types.rs", "Value")

    def m_eval(ex, st, a, dst, callee):
        b = ex.fresh_bv("b", 1)
        alts = [(Enum("Bool", [b]), [], "value=Bool"), (Enum("Null"), [], "value=Null"),
                (Enum("Int", [ex.fresh_bv("i", 64)]), [], "value=Int"), (Enum("String", [Opaque("s")]), [], "value=String")]
        return alts
    ex = Exec(fn, GENERIC_MODELS + [(r"^evaluate_expression_value::<", m_eval)], bound=2, variant_index=vi)
    paths = ex.run("bb0", State())
    failed, n = [], 0
    for p in paths:
        if p.kind != "return":
            if p.kind == "panic":
                failed.append("panic possible on [%s]" % p.signature())
            continue
        n += 1
        ret = p.ret
        if "value=Bool" in p.events:
            bsym = [c for c in _syms(p.st, "b")]
            # result must equal the Bool payload
            b = p.st.env.get("$bool")
            # find the payload symbol through the path: result is a 1-bit term; check both directions
            if not z3.is_bv(ret):
                failed.append("non-boolean result")
                continue
            # the result must not be constant: true iff payload true
            if not (ex.feasible(p.pc, ret == TRUE) and ex.feasible(p.pc, ret == FALSE)):
                failed.append("predicate value Bool(b) does not decide the filter on [%s]" % p.signature())
        else:
            if ex.feasible(p.pc, ret == TRUE):
                failed.append("a non-Bool predicate value lets the row pass on [%s]" % p.signature())
    res = {"paths": n, "queries": ex.queries, "solver_time_s": round(ex.solver_time, 3),
           "sample": [p.signature() + " => " + str(p.ret)[:40] for p in paths if p.kind == "return"][:6], "functions": [fn.header[:110]]}
    if failed:
        res.update({"status": "fail", "failed": sorted(set(failed)), "reason": "; ".join(sorted(set(failed)))[:400]})
    else:
        res["status"] = "pass"
    return res


def _syms(st, prefix):
    return []


TARGETS = [
    {"name": "c19_o1_q_filter_iter_next_3_items", "crate": "nervusdb-query", "run": run_filter(3)},
    {"name": "c19_o1_t_filter_iter_next_5_items", "crate": "nervusdb-query", "run": run_filter(5)},
    {"name": "c19_o2_q_evaluate_expression_bool", "crate": "nervusdb-query", "run": run_eval_bool},
    {"name": "c22_o2_q_filter_iter_forwards_errors", "crate": "nervusdb-query", "run": run_filter(2)},
    {"name": "c22_o2_q_runtime_guard_forwards_errors", "crate": "nervusdb-query", "run": run_guard(1)},
    {"name": "c33_o3_q_runtime_guard_iter_next", "crate": "nervusdb-query", "run": run_guard(1)},
]
