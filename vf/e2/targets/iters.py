"""Iterator adaptors: FilterIter::next (C19-O1, C22-O2), RuntimeGuardIter::next (C33-O3, C22-O2), evaluate_expression_bool (C19-O2).

The input stream is symbolic: every `inner.next()` forks into {exhausted, Some(Ok(row_k)), Some(Err(e_k))}; rows and errors are
opaque tokens so that identity (which input item came out) can be checked. One call of `next()` is explored for every prefix of
<= N input items.
"""
import re

import z3

from .. import witness
from ..symex import (FALSE, GENERIC_MODELS, TRUE, Enum, Exec, Opaque, Ref, State, Struct, SymEnum, Tup, Unsupported)
from .util import variant_index


def stream_model(nmax):
    def m_next(ex, st, a, dst, callee):
        k = st.env.get("$k", 0)
        if k >= nmax:
            return [(Enum("None"), [], "in%d=end" % k)]
        st.env["$k"] = k + 1
        return [(Enum("None"), [], "in%d=end" % k),
                (Enum("Some", [Enum("Ok", [Opaque("row%d" % k)])]), [], "in%d=Ok" % k),
                (Enum("Some", [Enum("Err", [Opaque("err%d" % k)])]), [], "in%d=Err" % k)]
    return m_next


def expected_filter(events):
    """Reference semantics of one FilterIter::next() call, independent of the order in which the implementation asks its questions:
    walking the input in order, an Err item is forwarded; an Ok row whose runtime compatibility check fails yields that error; an Ok
    row whose predicate value is exactly Bool(true) is emitted; any other row is skipped; end of input yields None.
    Returns ('none',) | ('row',k) | ('err', tag) | ('unchecked', k) when a row was decided without consulting the compatibility check."""
    rows = {}
    order = []
    for e in events:
        m = re.match(r"^in(\d+)=(\w+)$", e)
        if m:
            order.append((int(m.group(1)), m.group(2)))
            continue
        m = re.match(r"^compat(\d+)=(\w+)$", e)
        if m:
            rows.setdefault(int(m.group(1)), {})["compat"] = m.group(2)
            continue
        m = re.match(r"^pred(\d+)=(\w+)$", e)
        if m:
            rows.setdefault(int(m.group(1)), {})["pred"] = m.group(2)
    for k, kind in order:
        if kind == "end":
            return ("none",)
        if kind == "Err":
            return ("err", "err%d" % k)
        r = rows.get(k, {})
        if "compat" not in r:
            return ("unchecked", k)
        if r["compat"] == "Err":
            return ("err", "compat%d" % k)
        if "pred" not in r:
            return None
        if r["pred"] == "true":
            return ("row", k)
    return None


def classify(ret):
    if isinstance(ret, Enum) and ret.variant == "None":
        return ("none",)
    if isinstance(ret, Enum) and ret.variant == "Some":
        r = ret.fields[0]
        if isinstance(r, Enum) and r.variant == "Ok" and isinstance(r.fields[0], Opaque):
            m = re.match(r"^row(\d+)$", r.fields[0].name)
            if m:
                return ("row", int(m.group(1)))
        if isinstance(r, Enum) and r.variant == "Err" and isinstance(r.fields[0], Opaque):
            return ("err", r.fields[0].name)
    return ("?", repr(ret))


def run_filter(nmax):
    def run(mf, tier):
        fn = mf.find(r"^fn plan_iterators::<impl at [^>]*>::next\(_1: &mut FilterIter<'_, S>\)")

        # latent per-row outcomes: each question is answered consistently for a row, whenever and however often it is asked
        def m_compat(ex, st, a, dst, callee):
            k = st.env.get("$k", 0) - 1
            known = st.env.get("$compat%d" % k)
            if known is not None:
                return [(known, [], None)]
            ok, err = Enum("Ok", [Tup([])]), Enum("Err", [Opaque("compat%d" % k)])
            return [(("SET", "$compat%d" % k, ok), [], "compat%d=Ok" % k), (("SET", "$compat%d" % k, err), [], "compat%d=Err" % k)]

        def m_pred(ex, st, a, dst, callee):
            k = st.env.get("$k", 0) - 1
            known = st.env.get("$pred%d" % k)
            if known is not None:
                return [(TRUE if known == "true" else FALSE, [], None)]
            return [(("SET", "$pred%d" % k, "true", TRUE), [], "pred%d=true" % k), (("SET", "$pred%d" % k, "other", FALSE), [], "pred%d=other" % k)]

        def m_value(ex, st, a, dst, callee):
            # the predicate evaluated as a Value (refactorings may call the evaluator directly): Bool(true) | Bool(false) | Null
            k = st.env.get("$k", 0) - 1
            known = st.env.get("$pred%d" % k)
            vals = {"true": Enum("Bool", [TRUE]), "false": Enum("Bool", [FALSE]), "other": Enum("Null")}
            if known is not None:
                return [(vals[known if known in vals else "other"], [], None)]
            return [(("SET", "$pred%d" % k, "true", vals["true"]), [], "pred%d=true" % k),
                    (("SET", "$pred%d" % k, "false", vals["false"]), [], "pred%d=other" % k),
                    (("SET", "$pred%d" % k, "other", vals["other"]), [], "pred%d=other" % k)]

        models = GENERIC_MODELS + [(r"as Iterator>::next$", stream_model(nmax)),
                                   (r"ensure_runtime_expression_compatible::<", m_compat),
                                   (r"evaluate_expression_bool::<", m_pred), (r"evaluate_expression_value::<", m_value)]
        vi = dict(variant_index("nervusdb-query/src/executor/core_types.rs", "Value"))
        ex = SetExec(fn, models, bound=nmax + 2, max_paths=20000, variant_index=vi)
        st = State()
        st.env["$self"] = Struct("FilterIter", {0: Opaque("snapshot"), 1: Opaque("input"), 2: Opaque("predicate"), 3: Opaque("params")})
        st.env["_1"] = Ref("$self")
        paths = ex.run("bb0", st)
        failed, n, cut = [], 0, 0
        for p in paths:
            if p.kind == "bound":
                cut += 1
                continue
            if p.kind == "panic":
                failed.append("panic possible on [%s]" % p.signature())
                continue
            if p.kind != "return":
                continue
            n += 1
            want = expected_filter(p.events)
            got = classify(p.ret)
            if want is None:
                failed.append("next() returned before deciding an item on [%s]" % p.signature())
            elif want[0] == "unchecked":
                failed.append("FilterIter::next decides a row (returns %s) without consulting the runtime compatibility check, so a failing row "
                              "can be dropped or emitted silently: [%s]" % (got, _shape(p)))
            elif got != want:
                failed.append("FilterIter::next returns %s where the filter semantics require %s on [%s]" % (got, want, _shape(p)))
        res = {"paths": n, "queries": ex.queries, "solver_time_s": round(ex.solver_time, 3), "paths_cut_by_bound": cut,
               "sample": [p.signature() + " => " + repr(p.ret) for p in paths if p.kind == "return"][:8], "functions": [fn.header[:110]]}
        if failed:
            res.update({"status": "fail", "failed": sorted(set(failed))[:12], "reason": "; ".join(sorted(set(failed)))[:400]})
            # public-API replay: a row whose predicate hides an ill-typed call behind a NULL-absorbing test must raise, with WHERE as without
            cy = "UNWIND [1, [2], 3] AS x WITH x WHERE toInteger(x) IS NOT NULL RETURN x"
            plain = "UNWIND [1, [2], 3] AS x RETURN toInteger(x) AS y"
            r1, r2 = witness.query_rows(plain), witness.query_rows(cy)
            res["witness_text"] = ["public-API replay: `%s` => %s" % (plain, r1), "                   `%s` => %s" % (cy, r2)]
            if r1 is not None and r2 is not None:
                res["reproduced"] = True if (r1.startswith("Err(") and r2.startswith("Ok(")) else None
        else:
            res["status"] = "pass"
        return res
    return run


class SetExec(Exec):
    """Models may return ("SET", env_key, env_value[, result]) to record a latent outcome on the chosen alternative only."""

    def write(self, st, place, val):
        if isinstance(val, tuple) and val and val[0] == "SET":
            st.env[val[1]] = val[2]
            val = val[3] if len(val) > 3 else val[2]
        return super().write(st, place, val)


def _shape(p):
    return " ".join(re.sub(r"\d+", "", e) for e in p.events)


def run_guard(nmax):
    def run(mf, tier):
        fn = mf.find(r"^fn runtime_limits::<impl at [^>]*>::next\(_1: &mut RuntimeGuardIter<'_>\)")

        def m_timeout(ex, st, a, dst, callee):
            return [(Enum("Ok", [Tup([])]), [], "timeout=Ok"), (Enum("Err", [Opaque("timeout-error")]), [], "timeout=Err")]

        def m_note(ex, st, a, dst, callee):
            st.env["$noted"] = st.env.get("$noted", 0) + 1
            return [(Enum("Ok", [Tup([])]), [], "limit=Ok"), (Enum("Err", [Opaque("limit-error")]), [], "limit=Err")]

        models = GENERIC_MODELS + [(r"as Iterator>::next$", stream_model(nmax)),
                                   (r"Params::check_timeout$", m_timeout), (r"Params::note_emitted_row$", m_note)]
        ex = Exec(fn, models, bound=3)
        st = State()
        st.env["$self"] = Struct("RuntimeGuardIter", {0: Opaque("inner"), 1: Opaque("params"), 2: Opaque("stage")})
        st.env["_1"] = Ref("$self")
        paths = ex.run("bb0", st)
        failed, n = [], 0
        for p in paths:
            if p.kind == "panic":
                failed.append("panic possible on [%s]" % p.signature())
                continue
            if p.kind != "return":
                continue
            n += 1
            ev = p.events
            got = classify(p.ret)
            noted = p.st.env.get("$noted", 0)
            if "timeout=Err" in ev:
                want = ("err", "timeout-error")
            elif "in0=end" in ev:
                want = ("none",)
            elif "in0=Err" in ev:
                want = ("err", "err0")
            elif "in0=Ok" in ev:
                if noted != 1:
                    failed.append("an emitted row bypasses note_emitted_row on [%s]" % _shape(p))
                want = ("err", "limit-error") if "limit=Err" in ev else ("row", 0)
            else:
                want = None
            if want is None or got != want:
                failed.append("RuntimeGuardIter::next returns %s where the guard semantics require %s on [%s]" % (got, want, _shape(p)))
        res = {"paths": n, "queries": ex.queries, "solver_time_s": round(ex.solver_time, 3),
               "sample": [p.signature() + " => " + repr(p.ret) for p in paths if p.kind == "return"][:8], "functions": [fn.header[:110]]}
        if failed:
            res.update({"status": "fail", "failed": sorted(set(failed))[:12], "reason": "; ".join(sorted(set(failed)))[:400]})
        else:
            res["status"] = "pass"
        return res
    return run


def run_eval_bool(mf, tier):
    fn = mf.find(r"^fn evaluate_expression_bool\(")
    vi = variant_index("nervusdb-query/src/executor/core_types.rs", "Value")

    def m_eval(ex, st, a, dst, callee):
        b = ex.fresh_bv("b", 1)
        alts = [(Enum("Bool", [b]), [], "value=Bool"), (Enum("Null"), [], "value=Null"),
                (Enum("Int", [ex.fresh_bv("i", 64)]), [], "value=Int"), (Enum("String", [Opaque("s")]), [], "value=String")]
        return alts
    ex = Exec(fn, GENERIC_MODELS + [(r"^evaluate_expression_value::<", m_eval)], bound=2, variant_index=vi)
    paths = ex.run("bb0", State())
    failed, n = [], 0
    for p in paths:
        if p.kind != "return":
            if p.kind == "panic":
                failed.append("panic possible on [%s]" % p.signature())
            continue
        n += 1
        ret = p.ret
        if "value=Bool" in p.events:
            bsym = [c for c in _syms(p.st, "b")]
            # result must equal the Bool payload
            b = p.st.env.get("$bool")
            # find the payload symbol through the path: result is a 1-bit term; check both directions
            if not z3.is_bv(ret):
                failed.append("non-boolean result")
                continue
            # the result must not be constant: true iff payload true
            if not (ex.feasible(p.pc, ret == TRUE) and ex.feasible(p.pc, ret == FALSE)):
                failed.append("predicate value Bool(b) does not decide the filter on [%s]" % p.signature())
        else:
            if ex.feasible(p.pc, ret == TRUE):
                failed.append("a non-Bool predicate value lets the row pass on [%s]" % p.signature())
    res = {"paths": n, "queries": ex.queries, "solver_time_s": round(ex.solver_time, 3),
           "sample": [p.signature() + " => " + str(p.ret)[:40] for p in paths if p.kind == "return"][:6], "functions": [fn.header[:110]]}
    if failed:
        res.update({"status": "fail", "failed": sorted(set(failed)), "reason": "; ".join(sorted(set(failed)))[:400]})
    else:
        res["status"] = "pass"
    return res


def _syms(st, prefix):
    return []


TARGETS = [
    {"name": "c19_o1_q_filter_iter_next_3_items", "crate": "nervusdb-query", "run": run_filter(3)},
    {"name": "c19_o1_t_filter_iter_next_5_items", "crate": "nervusdb-query", "run": run_filter(5)},
    {"name": "c19_o2_q_evaluate_expression_bool", "crate": "nervusdb-query", "run": run_eval_bool},
    {"name": "c22_o2_q_filter_iter_forwards_errors", "crate": "nervusdb-query", "run": run_filter(2)},
    {"name": "c22_o2_q_runtime_guard_forwards_errors", "crate": "nervusdb-query", "run": run_guard(1)},
    {"name": "c33_o3_q_runtime_guard_iter_next", "crate": "nervusdb-query", "run": run_guard(1)},
]
