"""engine::replay_graph_transactions — recovery applies every operation of every committed, not-yet-checkpointed transaction, in
order, with its own arguments, and skips checkpointed transactions entirely (C01-O3, C02-O2, C04-O3).

Input: a symbolic committed list (<= NTX transactions, <= NOPS records each; every record kind of WalRecord is a possible
alternative; field values symbolic). Every IdMap / MemTable method is modelled as a recorder, so each terminated path carries
the sequence of calls recovery made; it is compared with the reference dispatch table below.
"""
import re

import z3

from ..symex import (FALSE, GENERIC_MODELS, TRUE, Enum, Exec, Opaque, PyVec, Ref, State, Struct, Tup, Unsupported, bv, deref_val)
from .util import enum_variants

# record kind -> (field names with widths or "tok"), reference call (callee, argument field names), None = no effect on replay
KINDS = {
    "BeginTx": ([("txid", 64)], None),
    "CommitTx": ([("txid", 64)], None),
    "PageWrite": ([("page_id", 64), ("page", "tok")], None),
    "PageFree": ([("page_id", 64)], None),
    "CreateLabel": ([("name", "tok"), ("label_id", 32)], None),
    "CreateNode": ([("external_id", 64), ("label_id", 32), ("internal_id", 32)], ("IdMap::apply_create_node", ["external_id", "label_id", "internal_id"])),
    "AddNodeLabel": ([("node", 32), ("label_id", 32)], ("IdMap::apply_add_label", ["node", "label_id"])),
    "RemoveNodeLabel": ([("node", 32), ("label_id", 32)], ("IdMap::apply_remove_label", ["node", "label_id"])),
    "CreateEdge": ([("src", 32), ("rel", 32), ("dst", 32)], ("MemTable::create_edge", ["src", "rel", "dst"])),
    "TombstoneNode": ([("node", 32)], ("MemTable::tombstone_node", ["node"])),
    "TombstoneEdge": ([("src", 32), ("rel", 32), ("dst", 32)], ("MemTable::tombstone_edge", ["src", "rel", "dst"])),
    "ManifestSwitch": ([("epoch", 64), ("segments", "tok"), ("properties_root", 64), ("stats_root", 64)], None),
    "Checkpoint": ([("up_to_txid", 64), ("epoch", 64), ("properties_root", 64), ("stats_root", 64)], None),
    "SetNodeProperty": ([("node", 32), ("key", "tok"), ("value", "tok")], ("MemTable::set_node_property", ["node", "key", "value"])),
    "SetEdgeProperty": ([("src", 32), ("rel", 32), ("dst", 32), ("key", "tok"), ("value", "tok")],
                        ("MemTable::set_edge_property", ["src", "rel", "dst", "key", "value"])),
    "RemoveNodeProperty": ([("node", 32), ("key", "tok")], ("MemTable::remove_node_property", ["node", "key"])),
    "RemoveEdgeProperty": ([("src", 32), ("rel", 32), ("dst", 32), ("key", "tok")], ("MemTable::remove_edge_property", ["src", "rel", "dst", "key"])),
}


class It:
    def __init__(self, kind, pos=0, tx=None):
        self.kind, self.pos, self.tx = kind, pos, tx

    def __repr__(self):
        return "It(%s,%d)" % (self.kind, self.pos)


class AdvExec(Exec):
    def write(self, st, place, val):
        if isinstance(val, tuple) and val and val[0] == "ADV":
            _, ref, newit, result, log = val
            self._write(st, ref.root, list(ref.projs), newit)
            if log is not None:
                st.env["$log"] = st.env.get("$log", []) + [log]
            val = result
        return super().write(st, place, val)


def same(ex, pc, a, b):
    if isinstance(a, Opaque) or isinstance(b, Opaque):
        return isinstance(a, Opaque) and isinstance(b, Opaque) and a.name == b.name
    if z3.is_bv(a) and z3.is_bv(b) and a.size() == b.size():
        return ex.entails(pc, a == b)
    return False


def run_replay(ntx, nops):
    def run(mf, tier):
        fn = mf.find(r"^fn replay_graph_transactions\(")
        order = enum_variants("nervusdb-storage/src/wal.rs", "WalRecord")
        if set(order) != set(KINDS):
            raise Unsupported("WalRecord variants changed: %s" % sorted(set(order) ^ set(KINDS)))
        vi = {n: i for i, n in enumerate(order)}

        def rec(name):
            def f(ex, st, a, dst, callee):
                args = [deref_val(ex, st, x) if isinstance(x, Ref) else x for x in a[1:]]
                args = [x for x in args if not (isinstance(x, Opaque) and x.name in ("pager", "idmap"))]
                st.env["$calls"] = st.env.get("$calls", []) + [(name, args)]
                if name.startswith("IdMap::apply"):
                    return [(Enum("Ok", [Tup([])]), [], None)]
                return [(Tup([]), [], None)]
            return f

        def m_into_iter(ex, st, a, dst, callee):
            v = a[0]
            if isinstance(v, Opaque) and v.name == "committed":
                return [(It("txs", 0), [], None)]
            if isinstance(v, Opaque) and v.name.startswith("ops-of-tx"):
                return [(It("ops", 0, int(v.name[9:])), [], None)]
            return None

        def m_next(ex, st, a, dst, callee):
            ref = a[0]
            it = deref_val(ex, st, ref)
            if not isinstance(it, It):
                return None
            if it.kind == "txs":
                res = [(Enum("None"), [], "end")]
                if it.pos < ntx:
                    k = it.pos
                    txid = ex.fresh_bv("txid%d" % k, 64)
                    tx = Struct("CommittedTx", {0: txid, 1: Opaque("ops-of-tx%d" % k)})
                    res.append((("ADV", ref, It("txs", k + 1), Enum("Some", [tx]), ("tx", k, txid)), [], "tx%d" % k))
                return res
            res = [(Enum("None"), [], None)]
            if it.pos < nops:
                k, j = it.tx, it.pos
                for kind in order:
                    fields, _ = KINDS[kind]
                    vals = []
                    for fname, w in fields:
                        vals.append(Opaque("%s.%s@tx%d.op%d" % (kind, fname, k, j)) if w == "tok" else ex.fresh_bv("%s_%s" % (kind, fname), w))
                    res.append((("ADV", ref, It("ops", j + 1, k), Enum("Some", [Enum(kind, vals)]), ("op", k, kind, vals)), [], kind))
            return res

        def m_default(ex, st, a, dst, callee):
            st.env["$memtables"] = st.env.get("$memtables", 0) + 1
            return [(Struct("MemTable", {0: bv(st.env["$memtables"], 64)}), [], None)]

        def m_lookup(ex, st, a, dst, callee):
            ext = a[1]
            ex_id = ex.fresh_bv("existing", 32)
            st.env["$lookups"] = st.env.get("$lookups", []) + [ext]
            return [(Enum("None"), [], "lookup=None"), (Enum("Some", [ex_id]), [], "lookup=Some")]

        def m_freeze(ex, st, a, dst, callee):
            st.env["$frozen"] = st.env.get("$frozen", []) + [a[1]]
            return [(Struct("L0Run", {0: a[1]}), [], None)]

        def m_arc_new(ex, st, a, dst, callee):
            return [(a[0], [], None)]

        def m_is_empty(ex, st, a, dst, callee):
            return [(TRUE, [], "run empty"), (FALSE, [], "run non-empty")]

        def m_push(ex, st, a, dst, callee):
            st.env["$pushed"] = st.env.get("$pushed", []) + [a[1]]
            return [(Tup([]), [], None)]

        def m_str_deref(ex, st, a, dst, callee):
            return [(deref_val(ex, st, a[0]) if isinstance(a[0], Ref) else a[0], [], None)]

        models = [(r"as Iterator>::next$", m_next), (r"as IntoIterator>::into_iter$", m_into_iter), (r"<MemTable as Default>::default$", m_default),
                  (r"IdMap::lookup$", m_lookup), (r"MemTable::freeze_into_run$", m_freeze), (r"Arc::<L0Run>::new$", m_arc_new),
                  (r"L0Run::is_empty$", m_is_empty), (r"Vec::<Arc<L0Run>>::push$", m_push), (r"<std::string::String as Deref>::deref$", m_str_deref)]
        for kind, (_, ref_call) in KINDS.items():
            if ref_call:
                models.append((re.escape(ref_call[0]) + "$", rec(ref_call[0])))
        models += GENERIC_MODELS
        ex = AdvExec(fn, models, bound=ntx * (nops + 2) + 4, variant_index=vi, max_paths=100000)
        st = State()
        ckpt = ex.fresh_bv("checkpoint_txid", 64)
        st.env["_1"] = Opaque("pager")
        st.env["_2"] = Opaque("idmap")
        st.env["_3"] = Opaque("committed")
        st.env["_4"] = ckpt
        st.env["$runs"] = Opaque("out_runs")
        st.env["_5"] = Ref("$runs")
        paths = ex.run("bb0", st)
        failed, n, cut = [], 0, 0
        kinds_seen = set()
        for p in paths:
            if p.kind == "bound":
                cut += 1
                continue
            if p.kind == "panic":
                failed.append("panic possible on [%s]" % p.signature())
                continue
            if p.kind != "return":
                continue
            n += 1
            log = p.st.env.get("$log", [])
            calls = list(p.st.env.get("$calls", []))
            ok_ret = isinstance(p.ret, Enum) and p.ret.variant == "Ok"
            # reference: walk the log
            expected, cur_applied, want_err = [], None, False
            lookups = [e for e in p.events if e.startswith("lookup=")]
            li = 0
            frozen_expected = []
            for e in log:
                if e[0] == "tx":
                    skipped_sure = ex.entails(p.pc, z3.ULE(e[2], ckpt))
                    applied_sure = ex.entails(p.pc, z3.UGT(e[2], ckpt))
                    if not (skipped_sure or applied_sure):
                        failed.append("path does not decide whether a transaction is checkpointed")
                    cur_applied = applied_sure
                    if applied_sure:
                        frozen_expected.append(e[2])
                else:
                    _, k, kind, vals = e
                    kinds_seen.add(kind)
                    if not cur_applied:
                        continue
                    fields, ref_call = KINDS[kind]
                    if ref_call is None:
                        continue
                    byname = {fn_: v for (fn_, _), v in zip(fields, vals)}
                    if kind == "CreateNode":
                        lk = lookups[li] if li < len(lookups) else None
                        li += 1
                        if lk == "lookup=Some":
                            # existing mapping: same internal id => skip; different => error (decided by the path)
                            expected.append(("SKIP-OR-ERR", byname))
                            continue
                    expected.append((ref_call[0], [byname[a] for a in ref_call[1]]))
            shape = " ".join(("tx" if e[0] == "tx" else e[2]) for e in log)
            exp_calls = [c for c in expected if c[0] != "SKIP-OR-ERR"]
            if ok_ret:
                if len(calls) != len(exp_calls):
                    failed.append("recovery applies %d operations where the committed log holds %d to apply: [%s]" % (len(calls), len(exp_calls), shape))
                else:
                    for (cn, ca), (en, ea) in zip(calls, exp_calls):
                        if cn != en or len(ca) != len(ea) or not all(same(ex, p.pc, x, y) for x, y in zip(ca, ea)):
                            failed.append("recovery dispatches a %s record to %s with other arguments / in another order: [%s]" % (en.split("::")[-1], cn, shape))
                            break
                frozen = p.st.env.get("$frozen", [])
                if len(frozen) != len(frozen_expected) or not all(same(ex, p.pc, x, y) for x, y in zip(frozen, frozen_expected)):
                    failed.append("recovery does not build exactly one run per applied transaction, tagged with its txid: [%s]" % shape)
                pushed = p.st.env.get("$pushed", [])
                nonempty = sum(1 for e in p.events if e == "run non-empty")
                if len(pushed) != nonempty:
                    failed.append("a non-empty run is not published / an empty run is published: [%s]" % shape)
            else:
                if not any(c[0] == "SKIP-OR-ERR" for c in expected):
                    failed.append("recovery fails although every apply step succeeded: [%s]" % shape)
        missing = set(KINDS) - kinds_seen
        if missing and nops > 0:
            failed.append("record kinds never reached: %s" % sorted(missing))
        res = {"paths": n, "queries": ex.queries, "solver_time_s": round(ex.solver_time, 3), "paths_cut_by_bound": cut,
               "sample": [p.signature()[:140] for p in paths if p.kind == "return"][3:9], "functions": [fn.header[:110]]}
        if failed:
            res.update({"status": "fail", "failed": sorted(set(failed))[:12], "reason": "; ".join(sorted(set(failed)))[:400]})
        else:
            res["status"] = "pass"
        return res
    return run


TARGETS = [
    {"name": "c01_o3_q_replay_dispatch_1tx_2ops", "crate": "nervusdb-storage", "run": run_replay(1, 2)},
    {"name": "c01_o3_q_replay_dispatch_2tx_1op", "crate": "nervusdb-storage", "run": run_replay(2, 1)},
    {"name": "c02_o2_q_replay_skips_checkpointed_2tx_1op", "crate": "nervusdb-storage", "run": run_replay(2, 1)},
    {"name": "c01_o3_t_replay_dispatch_3tx_1op", "crate": "nervusdb-storage", "run": run_replay(3, 1)},
]
