"""Helpers shared by E2 targets."""
import os
import re

from ... import common as C


def enum_variants(rel_path, enum_name):
    """Variant names of `enum <name>` in a repo source file, in declaration order (= discriminant order when no explicit values)."""
    src = open(os.path.join(C.REPO, rel_path)).read()
    m = re.search(r"\benum %s\b[^{]*\{" % re.escape(enum_name), src)
    if not m:
        raise RuntimeError("enum %s not found in %s" % (enum_name, rel_path))
    i = m.end()
    depth, cur, names = 1, "", []
    body = ""
    while depth > 0:
        ch = src[i]
        if ch in "{(<[":
            depth += 1
        elif ch in "})>]":
            depth -= 1
        if depth >= 1:
            body += ch if depth == 1 else " "
        i += 1
    body = re.sub(r"//[^\n]*", "", body)
    body = re.sub(r"#\[[^\]]*\]", "", body)
    for part in body.split(","):
        mm = re.match(r"\s*([A-Z]\w*)", part)
        if mm:
            if "=" in part:
                raise RuntimeError("enum %s has explicit discriminants" % enum_name)
            names.append(mm.group(1))
    return names


def variant_index(rel_path, enum_name):
    return {n: i for i, n in enumerate(enum_variants(rel_path, enum_name))}


def struct_fields(rel_path, struct_name):
    """Field names of `struct <name> { ... }` in a repo source file, in declaration order (= MIR field indices)."""
    src = open(os.path.join(C.REPO, rel_path)).read()
    m = re.search(r"\bstruct %s\b[^{;]*\{" % re.escape(struct_name), src)
    if not m:
        raise RuntimeError("struct %s not found in %s" % (struct_name, rel_path))
    i, depth, body = m.end(), 1, ""
    while depth > 0:
        ch = src[i]
        if ch in "{(<[":
            depth += 1
        elif ch in "})>]":
            if not (ch == ">" and src[i - 1] == "-"):
                depth -= 1
        if depth > 0:
            body += ch
        i += 1
    body = re.sub(r"//[^\n]*", "", body)
    body = re.sub(r"#\[[^\]]*\]", "", body)
    names, d, cur = [], 0, ""
    for ch in body:
        if ch in "(<[{":
            d += 1
        elif ch in ")>]}":
            d -= 1
        if ch == "," and d == 0:
            names.append(cur)
            cur = ""
        else:
            cur += ch
    names.append(cur)
    out = []
    for n in names:
        mm = re.match(r"\s*(?:pub(?:\([^)]*\))?\s+)?(\w+)\s*:", n)
        if mm:
            out.append(mm.group(1))
    return out
