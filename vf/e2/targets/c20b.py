"""C20-O3: the comparator ORDER BY actually sorts with (the sort_by closure of execute_order_by) decides every pair of numeric
sort keys exactly as the evaluator's `order_compare` does, honours ASC/DESC, and lets the first non-equal key decide.

The closure is executed with every crate-local callee inlined (order_compare, order_compare_non_null, compare_int_float, … or
whatever helper a refactoring introduces); `order_compare` itself is executed the same way on the same symbolic values as the
reference. The two results are compared under the conjunction of both path conditions.
"""
import re

import z3

from ..symex import (FALSE, GENERIC_MODELS, STD_CMP_MODELS, TRUE, Enum, Exec, Opaque, PyVec, Ref, State, Struct, SymEnum, Tup,
                     Unsupported, deref_val)
from .. import witness
from .util import variant_index
from .util2 import promoted_consts

REV = {"Less": "Greater", "Greater": "Less", "Equal": "Equal"}


class It:
    def __init__(self, kind, pos=0, a=None, b=None):
        self.kind, self.pos, self.a, self.b = kind, pos, a, b


class AdvExec(Exec):
    def write(self, st, place, val):
        if isinstance(val, tuple) and val and val[0] == "ADV":
            _, ref, newit, result = val
            self._write(st, ref.root, list(ref.projs), newit)
            val = result
        return super().write(st, place, val)


def iter_models():
    def m_slice_iter(ex, st, a, dst, callee):
        if isinstance(a[0], Ref):
            return [(It("slice", 0, a[0]), [], None)]
        return None

    def m_zip(ex, st, a, dst, callee):
        if isinstance(a[0], It) and isinstance(a[1], It):
            return [(It("zip", 0, a[0].a, a[1].a), [], None)]
        return None

    def m_into_iter(ex, st, a, dst, callee):
        return [(a[0], [], None)] if isinstance(a[0], It) else None

    def m_next(ex, st, a, dst, callee):
        it = deref_val(ex, st, a[0])
        if not isinstance(it, It) or it.kind != "zip":
            return None
        va, vb = deref_val(ex, st, it.a), deref_val(ex, st, it.b)
        n = min(len(va.items), len(vb.items))
        if it.pos >= n:
            return [(Enum("None"), [], None)]
        ra = Ref(it.a.root, list(it.a.projs) + [("elem", it.pos)])
        rb = Ref(it.b.root, list(it.b.projs) + [("elem", it.pos)])
        return [(("ADV", a[0], It("zip", it.pos + 1, it.a, it.b), Enum("Some", [Tup([ra, rb])])), [], None)]
    return [(r"slice::<impl \[.*\]>::iter$", m_slice_iter), (r"as Iterator>::zip::<", m_zip), (r"as IntoIterator>::into_iter$", m_into_iter),
            (r"^<Zip<.*> as Iterator>::next$", m_next)]


def value_alts(ex, tag):
    i, f = ex.fresh_bv("int_" + tag, 64), ex.fresh_fp("float_" + tag)
    return SymEnum(tag, [("Int", [lambda e, s: i]), ("Float", [lambda e, s: f]), ("Null", [])])


def patch_elem_projection():
    """Teach the executor a constant-index projection ("elem", k) used by the zip model for element references."""
    orig = Exec._step

    def _step(self, st, v, pr, where):
        if pr[0] == "elem":
            if isinstance(v, PyVec) and pr[1] < len(v.items):
                return v.items[pr[1]]
            raise Unsupported("element %d of %r" % (pr[1], v))
        return orig(self, st, v, pr, where)
    Exec._step = _step
    orig_upd = Exec._updated

    def _updated(self, st, v, projs, val):
        if projs and projs[0][0] == "elem":
            items = list(v.items)
            items[projs[0][1]] = self._updated(st, items[projs[0][1]], projs[1:], val)
            return PyVec(items)
        return orig_upd(self, st, v, projs, val)
    Exec._updated = _updated


patch_elem_projection()


def run_comparator(nkeys):
    def run(mf, tier):
        fn = mf.find(r"^fn execute_order_by::\{closure#1\}\(")
        ref_fn = mf.find(r"^fn order_compare\(_1: &Value, _2: &Value\)")
        vi = dict(variant_index("nervusdb-query/src/executor/core_types.rs", "Value"))
        vi.update({"Less": (1 << 64) - 1, "Equal": 0, "Greater": 1})
        vi.update(variant_index("nervusdb-query/src/ast.rs", "Direction"))
        models = iter_models() + STD_CMP_MODELS + GENERIC_MODELS
        ex = AdvExec(fn, models, bound=nkeys + 2, variant_index=vi, consts=promoted_consts(mf, fn), mf=mf, inline=r".", max_paths=20000)
        st = State()
        keys_a, keys_b = [], []
        for k in range(nkeys):
            d = SymEnum("dir%d" % k, [("Ascending", []), ("Descending", [])])
            keys_a.append(Tup([value_alts(ex, "a%d" % k), d]))
            keys_b.append(Tup([value_alts(ex, "b%d" % k), d]))
        st.env["$a"] = Tup([Opaque("row-a"), PyVec(keys_a)])
        st.env["$b"] = Tup([Opaque("row-b"), PyVec(keys_b)])
        st.env["_1"] = Opaque("closure-env")
        st.env["_2"] = Ref("$a")
        st.env["_3"] = Ref("$b")
        paths = ex.run("bb0", st)
        failed, n, queries = [], 0, ex.queries
        stime = ex.solver_time
        for p in paths:
            if p.kind == "panic":
                failed.append("the ORDER BY comparator can panic: %s" % p.info[:60])
                continue
            if p.kind != "return":
                continue
            if not isinstance(p.ret, Enum) or p.ret.variant not in REV:
                raise Unsupported("comparator returned %r" % (p.ret,))
            n += 1
            # reference: first key whose order_compare is not Equal decides, reversed for DESC
            a_keys = p.st.env["$a"].fields[1].items
            b_keys = p.st.env["$b"].fields[1].items
            expected_opts = [(list(p.pc), None)]     # (pc, decided ordering or None)
            for k in range(nkeys):
                va, vb, d = a_keys[k].fields[0], b_keys[k].fields[0], a_keys[k].fields[1]
                new = []
                for pc, decided in expected_opts:
                    if decided is not None:
                        new.append((pc, decided))
                        continue
                    if isinstance(va, SymEnum) or isinstance(vb, SymEnum):
                        # this key was never inspected by the comparator on this path: it must not matter => previous keys decided
                        new.append((pc, "UNINSPECTED"))
                        continue
                    rex = Exec(ref_fn, STD_CMP_MODELS + GENERIC_MODELS, bound=3, variant_index=vi, mf=mf, inline=r".")
                    rst = State()
                    rst.pc = list(pc)
                    rst.env["$va"], rst.env["$vb"] = va, vb
                    rst.env["_1"], rst.env["_2"] = Ref("$va"), Ref("$vb")
                    for rp in rex.run("bb0", rst):
                        if rp.kind != "return":
                            continue
                        o = rp.ret.variant
                        if o == "Equal":
                            new.append((rp.pc, None))
                        elif isinstance(d, SymEnum):
                            # the comparator never looked at ASC/DESC for this key, so it treated the pair as equal; order_compare does not
                            new.append((rp.pc, "ANYDIR:" + o))
                        else:
                            new.append((rp.pc, o if d.variant == "Ascending" else REV[o]))
                    queries += rex.queries
                    stime += rex.solver_time
                expected_opts = new
            for pc, decided in expected_opts:
                want = "Equal" if decided is None else decided
                if want == "UNINSPECTED":
                    failed.append("the comparator returns %s without inspecting every key up to the deciding one" % p.ret.variant)
                    continue
                if want.startswith("ANYDIR:"):
                    want = want[7:] + " (before ASC/DESC)"
                if want != p.ret.variant and ex.feasible(pc):
                    m = ex.model(pc)
                    vals = []
                    for k in range(nkeys):
                        for side, keys in (("a", a_keys), ("b", b_keys)):
                            v = keys[k].fields[0]
                            if isinstance(v, Enum) and v.fields:
                                x = m.eval(v.fields[0], model_completion=True)
                                vals.append("%s%d=%s(%s)" % (side, k, v.variant, x.as_signed_long() if z3.is_bv(x) else x))
                            elif isinstance(v, Enum):
                                vals.append("%s%d=%s" % (side, k, v.variant))
                    kinds = "/".join("%s,%s" % (a_keys[k].fields[0].variant, b_keys[k].fields[0].variant) for k in range(nkeys)
                                     if isinstance(a_keys[k].fields[0], Enum) and isinstance(b_keys[k].fields[0], Enum))
                    failed.append("ORDER BY's comparator orders a pair of (%s) keys differently from order_compare (returns %s, order_compare "
                                  "gives %s), e.g. %s" % (kinds, p.ret.variant, want, " ".join(vals)))
        uniq = {}
        for f in failed:
            uniq.setdefault(re.sub(r", e\.g\. .*$", "", f), f)
        res = {"paths": n, "queries": queries, "solver_time_s": round(stime, 3),
               "sample": ["inlined: " + ", ".join(sorted(ex.inlined))[:200]], "functions": [fn.header[:70], ref_fn.header[:60]]}
        if uniq:
            res.update({"status": "fail", "failed": sorted(uniq)[:10], "reason": "; ".join(sorted(uniq.values()))[:500],
                        "witness_text": sorted(uniq.values())[:6]})
            # public-API replay of an (Int, Int) counterexample: the two integers in descending input order must come back ascending
            for f in uniq.values():
                m = re.search(r"\(Int,Int\).*a0=Int\((-?\d+)\) b0=Int\((-?\d+)\)", f)
                if m:
                    x, y = int(m.group(1)), int(m.group(2))
                    hi, lo = max(x, y), min(x, y)
                    cy = "UNWIND [%d, %d] AS x RETURN x ORDER BY x" % (hi, lo)
                    rows = witness.query_rows(cy)
                    res["witness_text"].append("public-API replay: `%s` => %s" % (cy, rows))
                    if rows is not None:
                        got = [int(v) for v in re.findall(r"Int\((-?\d+)\)", rows)]
                        res["reproduced"] = True if got == [hi, lo] else (False if got == [lo, hi] else None)
                    break
        else:
            res["status"] = "pass"
        return res
    return run


TARGETS = [
    {"name": "c20_o3_q_order_by_comparator_one_key", "crate": "nervusdb-query", "run": run_comparator(1)},
    {"name": "c20_o3_t_order_by_comparator_two_keys", "crate": "nervusdb-query", "run": run_comparator(2)},
]
