"""C30-O3: BulkLoader::build_segments keeps the relationship MULTISET.

The transactional path stores parallel relationships (same source, type, target) as separate relationships; the bulk loader must hand
every input relationship to the segment builder. The real MIR of build_segments is executed from its entry to the `is_empty` test that
follows the sort: the input holds n relationships whose endpoints / types are symbolic (so any of them may coincide), the id map and
the type interner are recorders, sorting is a permutation (modelled as identity: only the multiset is observed). At the stop the
internal relationship list must have exactly n entries, the i-th being the translation of the i-th input."""
import re

import z3

from ..symex import GENERIC_MODELS, STD_CMP_MODELS, Enum, Exec, Opaque, PyVec, Ref, State, Struct, Tup, Unsupported, deref_val
from ..vecmodel import VEC_MODELS
from ..bytesmodel import ByteIt, m_byteit_next, buf_of
from .util import struct_fields


def run(n):
    def go(mf, tier):
        fn = mf.find(r"^fn bulkload::<impl at [^>]*>::build_segments\(")
        bf = {nm: i for i, nm in enumerate(struct_fields("nervusdb-storage/src/bulkload.rs", "BulkEdge"))}
        lf = {nm: i for i, nm in enumerate(struct_fields("nervusdb-storage/src/bulkload.rs", "BulkLoader"))}
        stop = {}
        for bb, stmts in fn.blocks.items():
            if bb not in fn.cleanup and stmts and re.search(r"= Vec::<nervusdb_api::EdgeKey>::is_empty\(", stmts[-1]):
                stop[bb] = "relationship list complete"
        if len(stop) != 1:
            raise Unsupported("cannot locate the is_empty test after the sort")
        ext = [(z3.BitVec("src_ext%d" % i, 64), z3.BitVec("type_name%d" % i, 32), z3.BitVec("dst_ext%d" % i, 64)) for i in range(n)]
        idmap = z3.Function("internal_id", z3.BitVecSort(64), z3.BitVecSort(32))
        typeid = z3.Function("type_id", z3.BitVecSort(32), z3.BitVecSort(32))

        def m_into_iter(ex, st, a, dst, callee):
            return [(ByteIt(a[0]), [], None)] if isinstance(a[0], Ref) else None

        def m_index(ex, st, a, dst, callee):
            k = a[1]
            for _ in range(3):
                if isinstance(k, Ref):
                    k = deref_val(ex, st, k)
            slot = "$idx%d" % len([x for x in st.env if x.startswith("$idx")])
            st.env[slot] = idmap(k)
            return [(Ref(slot), [], None)]

        def m_get_id(ex, st, a, dst, callee):
            k = a[1]
            for _ in range(3):
                if isinstance(k, Ref):
                    k = deref_val(ex, st, k)
            return [(Enum("Some", [typeid(k)]), [], None)]

        def m_ok_or(ex, st, a, dst, callee):
            v = a[0]
            return [(Enum("Ok", [v.fields[0]]) if v.variant == "Some" else Enum("Err", [a[1]]), [], None)]

        def m_sort(ex, st, a, dst, callee):
            return [(Tup([]), [], "sorted")]

        def m_dedup(ex, st, a, dst, callee):
            v = buf_of(ex, st, a[0])
            outs = [([], [])]
            for it in v.items:
                nxt = []
                for kept, conds in outs:
                    if not kept:
                        nxt.append(([it], conds))
                        continue
                    last = kept[-1]
                    same = z3.And([last.fields[k] == it.fields[k] for k in sorted(it.fields, key=str)])
                    nxt.append((kept, conds + [same]))
                    nxt.append((kept + [it], conds + [z3.Not(same)]))
                outs = nxt
            alts = []
            for kept, conds in outs:
                alts.append((("WRITE", kept), conds, "dedup keeps %d" % len(kept)))
            res = []
            for (tag, kept), conds, evn in alts:
                res.append((Tup([]), conds, evn + "|" + str(len(kept))))
            st.env["$dedup"] = [(kept, conds) for kept, conds in outs]
            st.env["$dedup_target"] = a[0]
            return res

        def m_string_deref(ex, st, a, dst, callee):
            return [(a[0], [], None)]

        models = [(r"^<&Vec<BulkEdge> as IntoIterator>::into_iter$", m_into_iter), (r"^<std::slice::Iter<'_, BulkEdge> as Iterator>::next$", m_byteit_next),
                  (r"^<BTreeMap<u64, u32> as std::ops::Index<&u64>>::index$", m_index), (r"^LabelInterner::get_id$", m_get_id),
                  (r"^std::option::Option::<u32>::ok_or::<error::Error>$", m_ok_or), (r"^<std::string::String as Deref>::deref$", m_string_deref),
                  (r"slice::<impl \[nervusdb_api::EdgeKey\]>::(sort|sort_unstable)$", m_sort),
                  (r"^Vec::<nervusdb_api::EdgeKey>::dedup$", m_dedup),
                  (r"^Vec::<nervusdb_api::EdgeKey>::with_capacity$", lambda ex, st, a, dst, callee: [(PyVec(), [], None)])] + VEC_MODELS + STD_CMP_MODELS + GENERIC_MODELS
        st = State()
        edges = PyVec([Struct("BulkEdge", {bf["src_external_id"]: s, bf["rel_type"]: t, bf["dst_external_id"]: d}) for s, t, d in ext])
        loader = {i: Opaque("loader." + nm) for nm, i in lf.items()}
        loader[lf["edges"]] = edges
        st.env["$loader"] = Struct("BulkLoader", loader)
        st.env["_1"], st.env["_2"], st.env["_3"] = Ref("$loader"), Opaque("external_to_internal"), Opaque("label_interner")
        ex = Exec(fn, models, bound=n + 2, mf=mf, max_paths=500, stop_at=stop)
        paths = ex.run("bb0", st)
        failed, cnt = [], 0
        lst_local = None
        for l in fn.lines:
            m = re.match(r"^\s*debug edges => (_\d+);$", l)
            if m:
                lst_local = m.group(1)
        if lst_local is None:
            raise Unsupported("no local named edges")
        for p in paths:
            if p.kind == "panic":
                failed.append("build_segments can panic before the segments are built: %s" % str(p.info)[:60])
                continue
            if p.kind == "bound":
                raise Unsupported("cut by the loop bound")
            if p.kind != "stop":
                continue
            cnt += 1
            got = list(p.st.env[lst_local].items)
            ded = [e for e in p.events if e.startswith("dedup keeps ")]
            if ded:
                k = int(ded[-1].split("|")[1])
                if k != n:
                    mdl = ex.model(p.pc)
                    failed.append("the bulk loader drops %d of %d relationships (parallel relationships with equal source, type and target are merged); "
                                  "the transactional path keeps them" % (n - k, n))
                continue
            if len(got) != n:
                failed.append("the internal relationship list has %d entries for %d input relationships" % (len(got), n))
                continue
            for i, (s, t, d) in enumerate(ext):
                e = got[i]
                vals = [e.fields[k] for k in sorted(e.fields, key=str)]
                want = [idmap(s), typeid(t), idmap(d)]
                if not all(any(ex.entails(p.pc, v == w) for v in vals if z3.is_expr(v) and v.sort() == w.sort()) for w in want):
                    failed.append("relationship %d is not translated endpoint-for-endpoint and type-for-type" % i)
        res = {"paths": cnt, "queries": ex.queries, "solver_time_s": round(ex.solver_time, 3),
               "sample": ["%d input relationships, all ids symbolic (may coincide); %d paths reach the end of list construction" % (n, cnt)],
               "functions": [fn.header[:110]]}
        if failed:
            res.update({"status": "fail", "failed": sorted(set(failed)), "reason": "; ".join(sorted(set(failed)))[:400]})
        else:
            res["status"] = "pass"
        return res
    return go


TARGETS = [{"name": "c30_o3_q_bulk_keeps_relationship_multiset_%d" % k, "crate": "nervusdb-storage", "run": run(k)} for k in (1, 2, 3)] + \
          [{"name": "c30_o3_t_bulk_keeps_relationship_multiset_%d" % k, "crate": "nervusdb-storage", "run": run(k)} for k in (4, 5, 6)]
