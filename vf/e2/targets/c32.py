"""C32-O1: the external-id expression of execute_create_from_rows under a symbolic clock.

The id of a created node is computed in a handful of blocks of a 2000-line MIR body: `created_count as u64 + now_ns as u64`.
Those blocks are entered arm-locally at the `Utc::now()` call and left after the id has been assigned; the id comes out as a
z3 term over (counter c, clock reading t). Two evaluations are then compared under different clock assumptions.
"""
import re

import z3

from ..symex import (GENERIC_MODELS, Enum, Exec, Opaque, Ref, State, Struct, Unsupported, bv)
from .. import witness


def id_term(mf):
    fn = mf.find(r"^fn execute_create_from_rows\(")
    entry = None
    for bb, stmts in fn.blocks.items():
        if any(re.search(r"= Utc::now\(\) ->", s) for s in stmts):
            entry = bb
            break
    if entry is None:
        raise Unsupported("Utc::now() call not found: the id expression changed shape")
    ext = [m.group(1) for l in fn.lines for m in [re.match(r"^\s*debug external_id => (_\d+);$", l)] if m]
    cnt = [m.group(1) for l in fn.lines for m in [re.match(r"^\s*debug created_count => (_\d+);$", l)] if m]
    if not ext or not cnt:
        raise Unsupported("debug names external_id / created_count not found")
    ext_local, cnt_local = ext[0], cnt[0]
    stops = {}
    for bb, stmts in fn.blocks.items():
        for s in stmts:
            m = re.match(r"^%s = .* -> \[return: (bb\d+)," % re.escape(ext_local), s)
            if m:
                stops[m.group(1)] = "id assigned"
            elif re.match(r"^%s = " % re.escape(ext_local), s) and stmts[-1].startswith("goto -> "):
                stops[stmts[-1][8:-1]] = "id assigned"
    if not stops:
        raise Unsupported("assignment of external_id not found")

    def m_now(ex, st, a, dst, callee):
        return [(Opaque("now"), [], None)]

    def m_nanos(ex, st, a, dst, callee):
        t = st.env["$t"]
        return [(Enum("Some", [t]), [], "clock in range"), (Enum("None"), [], "clock out of the i64-nanosecond range")]

    def m_unwrap_or(ex, st, a, dst, callee):
        v = a[0]
        if isinstance(v, Enum) and v.variant == "Some":
            return [(v.fields[0], [], None)]
        if isinstance(v, Enum) and v.variant == "None":
            return [(a[1], [], None)]
        return None

    def m_from(ex, st, a, dst, callee):
        return [(a[0], [], None)]

    models = GENERIC_MODELS + [(r"^Utc::now$", m_now), (r"timestamp_nanos_opt$", m_nanos), (r"Option::<i64>::unwrap_or$", m_unwrap_or),
                               (r"<u64 as From<u64>>::from$", m_from)]
    ex = Exec(fn, models, bound=2, stop_at=stops)
    st = State()
    c = ex.fresh_bv("created_count", 32)
    t = ex.fresh_bv("now_ns", 64)
    st.env[cnt_local] = c
    st.env["$t"] = t
    paths = ex.run(entry, st)
    terms = []
    for p in paths:
        if p.kind == "stop":
            terms.append((p, p.st.env.get(ext_local)))
    panics = [p for p in paths if p.kind == "panic"]
    return fn, ex, c, t, terms, panics, entry


def _setup(mf):
    fn, ex, c, t, terms, panics, entry = id_term(mf)
    in_range = [(p, term) for p, term in terms if "clock in range" in p.events]
    if len(in_range) != 1 or in_range[0][1] is None:
        raise Unsupported("expected exactly one in-range path through the id expression, got %d" % len(in_range))
    p, term = in_range[0]
    c1, c2 = z3.BitVec("c1", 32), z3.BitVec("c2", 32)
    t1, t2 = z3.BitVec("t1", 64), z3.BitVec("t2", 64)
    id1 = z3.substitute(term, (c, c1), (t, t1))
    id2 = z3.substitute(term, (c, c2), (t, t2))
    sane = [t1 >= 0, t2 >= 0, z3.ULT(t1, bv(1 << 62, 64)), z3.ULT(t2, bv(1 << 62, 64)), z3.ULT(c1, bv(1 << 31, 32)), z3.ULT(c2, bv(1 << 31, 32))]
    return fn, ex, entry, term, terms, panics, (c1, c2, t1, t2, id1, id2, sane)


def _result(fn, ex, entry, term, terms, failed, samples, witness_text=None, reproduced=None):
    res = {"paths": len(terms), "queries": ex.queries, "solver_time_s": round(ex.solver_time, 3),
           "sample": samples + ["id term: " + str(z3.simplify(term))[:120]], "functions": [fn.header[:80] + " (id expression, entry %s)" % entry]}
    if failed:
        res.update({"status": "fail", "failed": sorted(set(failed)), "reason": "; ".join(sorted(set(failed)))[:400],
                    "witness_text": witness_text or [], "reproduced": reproduced})
    else:
        res["status"] = "pass"
    return res


def run_same_statement(mf, tier):
    """S1 (must hold): inside one statement with a clock that never goes backwards, ids strictly increase."""
    fn, ex, entry, term, terms, panics, (c1, c2, t1, t2, id1, id2, sane) = _setup(mf)
    failed = []
    if ex.feasible(sane + [z3.UGT(c2, c1), t2 >= t1, z3.Not(z3.UGT(id2, id1))]):
        failed.append("two nodes of one statement get the same or a decreasing id although the clock never went backwards")
    # and the id must actually depend on the counter (otherwise equal clock readings collide inside a statement)
    if ex.feasible(sane + [c2 == c1 + 1, t2 == t1, id1 == id2]):
        failed.append("two consecutive nodes of one statement get the same id when the clock reading is unchanged")
    return _result(fn, ex, entry, term, terms, failed, ["S1 same statement, monotone clock: id(c2,t2) > id(c1,t1) for c2 > c1, t2 >= t1"])


def run_across_statements(mf, tier):
    """S2: a later statement (its counter restarts), clock never goes backwards => ids differ."""
    fn, ex, entry, term, terms, panics, (c1, c2, t1, t2, id1, id2, sane) = _setup(mf)
    failed, witness_text, reproduced = [], [], None
    s2 = sane + [t2 >= t1, id1 == id2]
    if ex.feasible(s2):
        m = ex.model(s2 + [z3.ULE(c1, 3), c2 == 0, z3.UGT(c1, 0)]) or ex.model(s2)
        vc1, vc2 = m.eval(c1, model_completion=True).as_long(), m.eval(c2, model_completion=True).as_long()
        vt1, vt2 = m.eval(t1, model_completion=True).as_long(), m.eval(t2, model_completion=True).as_long()
        failed.append("a later statement can reuse an id although the clock never went backwards (counter restarts at 0 while the clock advanced by less than the earlier counter)")
        witness_text.append("solver model: statement A node #%d at clock %d, statement B node #%d at clock %d => same id %d" % (vc1, vt1, vc2, vt2, vc1 + vt1))
        if vc2 == 0 and vc1 <= 8:
            base = vt1 % 1000
            seq = [base] * vc1 + [base, base + (vt2 - vt1)]
            rep, lines = witness.run(["id-collision", str(vc1)], clock_seq=seq)
            witness_text += ["replayed with a scripted wall clock (LD_PRELOAD shim), readings (ns) %s:" % seq] + lines
            reproduced = rep
    return _result(fn, ex, entry, term, terms, failed, ["S2 two statements, monotone clock: id(c1,t1) != id(c2,t2) for t2 >= t1 (counters unrelated)"],
                   witness_text, reproduced)


def run_clock_steps_back(mf, tier):
    """S3: the clock may step backwards inside one statement; S4: extreme clock values must not panic."""
    fn, ex, entry, term, terms, panics, (c1, c2, t1, t2, id1, id2, sane) = _setup(mf)
    failed = []
    if ex.feasible(sane + [c2 == c1 + 1, id1 == id2]):
        failed.append("two consecutive nodes of one statement get the same id when the clock steps back by one nanosecond")
    for pp in panics:
        failed.append("id computation can panic (arithmetic overflow) for an extreme clock value [%s]" % pp.signature())
    return _result(fn, ex, entry, term, terms, failed, ["S3 one statement, clock may step backwards: id(c,t1) != id(c+1,t2)",
                                                        "S4 no arithmetic panic for any clock value"])


TARGETS = [
    {"name": "c32_o1_q_ids_increase_within_statement", "crate": "nervusdb-query", "run": run_same_statement},
    {"name": "c32_o1_q_ids_unique_across_statements", "crate": "nervusdb-query", "run": run_across_statements},
    {"name": "c32_o1_q_ids_survive_clock_anomalies", "crate": "nervusdb-query", "run": run_clock_steps_back},
]
