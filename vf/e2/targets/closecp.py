"""C01-O4 / C04-O2: GraphEngine::checkpoint_on_close. The Checkpoint record written when a database is closed tells recovery which
transaction ids it may skip. It must cover exactly the ids handed out BEFORE the close snapshot and never an id that a later
transaction can still receive:

    up_to_txid < system_txid            (the snapshot transaction itself is replayed: it carries the labels and the manifest)
    up_to_txid + 1 == the value of next_txid when close began (every earlier transaction is covered, nothing else)
    next_txid afterwards > system_txid  (the next transaction gets a fresh id, hence an id > up_to_txid)

and nothing is rewritten while unflushed L0 runs exist. The atomics are symbolic 64-bit cells; locks, the label snapshot, the
segment pointer list and the root loads are opaque."""
import z3

from ..symex import (GENERIC_MODELS, STD_CMP_MODELS, Enum, Exec, Opaque, PyVec, Ref, State, Struct, Tup, Unsupported, bv, deref_val)
from ..bytesmodel import m_unwrap
from .util import struct_fields, variant_index


def models(cap):
    def m_lock(ex, st, a, dst, callee):
        return [(Enum("Ok", [a[0]]), [], None)]

    def m_clone(ex, st, a, dst, callee):
        return [(a[0], [], None)]

    def m_runs_empty(ex, st, a, dst, callee):
        from ..symex import FALSE, TRUE
        return [(TRUE, [], "runs=empty"), (FALSE, [], "runs=present")]

    def m_ok(ex, st, a, dst, callee):
        return [(Enum("Ok", [Tup([])]), [], None)]

    def m_opaque(name):
        def f(ex, st, a, dst, callee):
            return [(Opaque(name), [], None)]
        return f

    def m_load(ex, st, a, dst, callee):
        cell = deref_val(ex, st, a[0])
        if not (isinstance(cell, Struct) and cell.name == "AtomicCell"):
            raise Unsupported("atomic load of an unmodelled cell")
        return [(cell.fields[0], [], None)]

    def m_fetch_add(ex, st, a, dst, callee):
        cell = deref_val(ex, st, a[0])
        if not (isinstance(cell, Struct) and cell.name == "AtomicCell"):
            raise Unsupported("atomic fetch_add of an unmodelled cell")
        old = cell.fields[0]
        ex._write(st, a[0].root, list(a[0].projs), Struct("AtomicCell", {0: old + a[1]}))
        return [(old, [], None)]

    def m_store(ex, st, a, dst, callee):
        ex._write(st, a[0].root, list(a[0].projs), Struct("AtomicCell", {0: a[1]}))
        return [(Tup([]), [], None)]

    def m_iter_ids(ex, st, a, dst, callee):
        return [(Struct("Range", {0: bv(0, 32), 1: bv(0, 32)}), [], None)]

    def m_identity(ex, st, a, dst, callee):
        return [(a[0], [], None)]

    def m_range_next(ex, st, a, dst, callee):
        return [(Enum("None"), [], None)]

    def m_roots(ex, st, a, dst, callee):
        return [(Tup([ex.fresh_bv("properties_root", 64), ex.fresh_bv("stats_root", 64)]), [], None)]

    def m_rewrite(ex, st, a, dst, callee):
        cap.append((a[1], deref_val(ex, st, a[2]) if isinstance(a[2], Ref) else a[2], st))
        st.env["$rewritten"] = (a[1], a[2])
        return [(Enum("Ok", [Tup([])]), [], "rewrite_as_snapshot"), (Enum("Err", [Opaque("io")]), [], "rewrite fails")]

    return [(r"^std::sync::Mutex::<.*>::lock$|^std::sync::RwLock::<.*>::(read|write)$", m_lock),
            (r"^<Arc<.*> as Clone>::clone$", m_clone), (r"^Vec::<Arc<L0Run>>::is_empty$", m_runs_empty),
            (r"^Pager::sync$|^Wal::fsync$", m_ok), (r"^LabelInterner::snapshot$", m_opaque("label-snapshot")),
            (r"slice::<impl \[Arc<CsrSegment>\]>::iter$|^<std::slice::Iter<'_, Arc<CsrSegment>> as Iterator>::map::<", m_opaque("segments-iter")),
            (r" as Iterator>::collect::<Vec<SegmentPointer>>$", m_opaque("segment-pointers")),
            (r"^Atomic::<u64>::load$|AtomicU64::load$", m_load), (r"^Atomic::<u64>::fetch_add$|AtomicU64::fetch_add$", m_fetch_add),
            (r"^Atomic::<u64>::store$|AtomicU64::store$", m_store),
            (r"^LabelSnapshot::iter_ids$", m_iter_ids), (r"^<std::ops::Range<u32> as IntoIterator>::into_iter$", m_identity),
            (r"^<std::ops::Range<u32> as Iterator>::next$", m_range_next), (r"^load_properties_and_stats_roots$", m_roots),
            (r"^Wal::rewrite_as_snapshot$", m_rewrite), (r"(?:Result|Option)::<.*>::(?:unwrap|expect)$", m_unwrap)] + STD_CMP_MODELS + GENERIC_MODELS


def run(mf, tier):
    fn = mf.find(r"::checkpoint_on_close\(_1: &GraphEngine\)")
    fields = struct_fields("nervusdb-storage/src/engine.rs", "GraphEngine")
    idx = {n: i for i, n in enumerate(fields)}
    for need in ("next_txid", "manifest_epoch"):
        if need not in idx:
            raise Unsupported("GraphEngine has no field %s" % need)
    next0, epoch0 = z3.BitVec("next_txid_at_close", 64), z3.BitVec("manifest_epoch", 64)
    st = State()
    st.pc += [z3.UGE(next0, 1), z3.ULT(next0, bv(1 << 62, 64))]          # transaction ids start at 1; no wrap in reach
    eng = {i: Opaque("engine." + n) for n, i in idx.items()}
    eng[idx["next_txid"]] = Struct("AtomicCell", {0: next0})
    eng[idx["manifest_epoch"]] = Struct("AtomicCell", {0: epoch0})
    for n in ("checkpoint_txid", "properties_root", "stats_root", "next_segment_id"):
        if n in idx:
            eng[idx[n]] = Struct("AtomicCell", {0: z3.BitVec(n, 64)})
    st.env["$engine"] = Struct("GraphEngine", eng)
    st.env["_1"] = Ref("$engine")
    cap = []
    vi = variant_index("nervusdb-storage/src/wal.rs", "WalRecord")
    ex = Exec(fn, models(cap), bound=3, mf=mf, inline=r"^$", variant_index=vi)
    paths = ex.run("bb0", st)
    failed, n = [], 0
    wrote = 0
    for p in paths:
        if p.kind == "panic":
            failed.append("checkpoint_on_close can panic on [%s]" % p.signature())
            continue
        if p.kind != "return":
            continue
        n += 1
        rew = p.st.env.get("$rewritten")
        if "runs=present" in p.events:
            if rew is not None:
                failed.append("the log is rewritten as a snapshot although unflushed runs exist (their content lives only in the log)")
            continue
        if rew is None:
            if isinstance(p.ret, Enum) and p.ret.variant == "Ok":
                failed.append("close succeeds on a run-free database without writing the checkpoint snapshot")
            continue
        wrote += 1
        system_txid, ops = rew
        ops = deref_val(ex, p.st, ops) if isinstance(ops, Ref) else ops
        cps = [o for o in ops.items if isinstance(o, Enum) and o.variant == "Checkpoint"]
        mss = [o for o in ops.items if isinstance(o, Enum) and o.variant == "ManifestSwitch"]
        if len(cps) != 1 or len(mss) != 1:
            failed.append("the close snapshot does not carry exactly one ManifestSwitch and one Checkpoint record")
            continue
        up_to = cps[0].fields[0]
        nxt = p.st.env["$engine"].fields[idx["next_txid"]].fields[0]
        checks = [("the Checkpoint written on close covers the snapshot transaction itself or a later id (up_to_txid >= the id it is logged under): "
                   "recovery would skip transactions committed after reopen", z3.ULT(up_to, system_txid)),
                  ("the Checkpoint written on close does not cover every transaction id handed out before close began", up_to + 1 == next0),
                  ("after close the next transaction id is not above the snapshot's id", z3.UGT(nxt, system_txid)),
                  ("Checkpoint and ManifestSwitch of the close snapshot disagree on the manifest epoch", cps[0].fields[1] == mss[0].fields[0]),
                  ("the close snapshot is logged under an id that was already handed out", z3.UGE(system_txid, next0))]
        for msg, cond in checks:
            if not ex.entails(p.pc, cond):
                m = ex.model(p.pc, z3.Not(cond))
                failed.append(msg + " [next_txid at close = %s, up_to_txid = %s, snapshot txid = %s]" % (
                    m.eval(next0, model_completion=True), m.eval(up_to, model_completion=True), m.eval(system_txid, model_completion=True)))
    if not wrote and not failed:
        raise Unsupported("no path reaches rewrite_as_snapshot (vacuous)")
    import re as _re
    res = {"paths": n, "queries": ex.queries, "solver_time_s": round(ex.solver_time, 3),
           "sample": [p.signature()[:160] for p in paths if p.kind == "return"][:4], "functions": ["engine::GraphEngine::checkpoint_on_close"]}
    if failed:
        res.update({"status": "fail", "failed": sorted({_re.sub(r" \[next_txid.*$", "", f) for f in failed}), "reason": "; ".join(sorted(set(failed)))[:500],
                    "witness_text": sorted(set(failed))[:4]})
    else:
        res["status"] = "pass"
    return res


TARGETS = [
    {"name": "c01_o4_q_close_checkpoint_covers_exactly_earlier_txids", "crate": "nervusdb-storage", "run": run},
    {"name": "c04_o2_q_close_checkpoint_covers_exactly_earlier_txids", "crate": "nervusdb-storage", "run": run},
]
