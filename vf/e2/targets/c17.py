"""C17 (and C01-O1): WAL reader / append control flow.

O1  WalReader::next_record: no path returns Err unless the environment returned a non-EOF I/O error.
O2  offset discipline: Ok(Some) advances by 8+len and reports the old offset; every other outcome leaves the offset alone.
O3  Wal::append writes at the end of the file (SeekFrom::End), not at the reader's last valid offset.
"""
import re
import zlib

import z3

from ..symex import (FALSE, GENERIC_MODELS, STD_CMP_MODELS, TRUE, Enum, Exec, Opaque, PyVec, Ref, State, Struct, SymEnum, Tup, Unsupported, bv)
from .. import witness


def io_models():
    def m_try_read_u32(ex, st, a, dst, callee):
        v = ex.fresh_bv("u32_read", 32)
        return [(Enum("Ok", [Enum("Some", [v])]), [], "try_read_u32 -> Some"),
                (Enum("Ok", [Enum("None")]), [], "try_read_u32 -> EOF"),
                (Enum("Err", [Enum("Io", [Opaque("io fault")])]), [], "try_read_u32 -> I/O fault")]

    def m_from_elem(ex, st, a, dst, callee):
        return [(Struct("body", {}), [], None)]

    def m_read_exact(ex, st, a, dst, callee):
        buf = ex._read(st, a[1].root, list(a[1].projs)) if isinstance(a[1], Ref) else None
        if isinstance(buf, PyVec) and buf.items:
            # a fixed-size header buffer (refactorings may read header words with read_exact directly): fill it with symbolic bytes
            n = len(buf.items)
            word = ex.fresh_bv("u32_read", 8 * n) if n == 4 else ex.fresh_bv("bytes_read", 8 * n)
            filled = PyVec([z3.Extract(8 * i + 7, 8 * i, word) for i in range(n)])
            return [(("ADV", a[1], filled, Enum("Ok", [Tup([])])), [], "read_exact(%d bytes) -> Ok" % n),
                    (Enum("Err", [Struct("io::Error", {0: Enum("UnexpectedEof")})]), [], "read_exact(%d bytes) -> short read" % n),
                    (Enum("Err", [Struct("io::Error", {0: Enum("OtherIoError")})]), [], "read_exact(%d bytes) -> I/O fault" % n)]
        return [(Enum("Ok", [Tup([])]), [], "read_exact(body) -> Ok"),
                (Enum("Err", [Struct("io::Error", {0: Enum("UnexpectedEof")})]), [], "read_exact(body) -> short read"),
                (Enum("Err", [Struct("io::Error", {0: Enum("OtherIoError")})]), [], "read_exact(body) -> I/O fault")]

    def m_kind(ex, st, a, dst, callee):
        e = ex._read(st, a[0].root, list(a[0].projs)) if isinstance(a[0], Ref) else a[0]
        return [(e.fields[0], [], None)]

    def m_kind_eq(ex, st, a, dst, callee):
        l = ex._read(st, a[0].root, list(a[0].projs)) if isinstance(a[0], Ref) else a[0]
        if not isinstance(l, Enum):
            return None
        # right operand is the promoted constant; the runner checked that it is ErrorKind::UnexpectedEof
        return [(TRUE if l.variant == "UnexpectedEof" else FALSE, [], None)]

    def m_crc32(ex, st, a, dst, callee):
        return [(ex.fresh_bv("crc_of_body", 32), [], None)]

    def m_decode_body(ex, st, a, dst, callee):
        return [(Enum("Ok", [Opaque("record")]), [], "decode_body -> Ok"),
                (Enum("Err", [Enum("WalProtocol", [Opaque("msg")])]), [], "decode_body -> Err")]

    return STD_CMP_MODELS + GENERIC_MODELS + [
        (r"WalReader::try_read_u32$", m_try_read_u32),
        (r"vec::from_elem::<u8>$", m_from_elem),
        (r"<File as std::io::Read>::read_exact$|as Read>::read_exact$", m_read_exact),
        (r"io::Error::kind$", m_kind),
        (r"<ErrorKind as PartialEq>::eq$", m_kind_eq),
        (r"^crc32$|wal::crc32$", m_crc32),
        (r"WalRecord::decode_body$", m_decode_body),
    ]


def explore_next_record(mf):
    fn = mf.find(r"^fn wal::<impl at [^>]*>::next_record\(_1: &mut WalReader\)")
    # the promoted constant compared with e.kind() must be UnexpectedEof, otherwise the kind_eq model is wrong
    txt = "\n".join(mf.lines)
    m = re.search(r"const wal::<impl at [^>]*>::next_record::promoted\[0\]: &ErrorKind = \{(.*?)\n\}", txt, re.S)
    if not m or "UnexpectedEof" not in m.group(1):
        raise Unsupported("next_record compares e.kind() with something other than ErrorKind::UnexpectedEof")
    max_len, ty = mf.const_value(r"MAX_WAL_RECORD_LEN")
    ex = Exec(fn, io_models(), bound=2, consts={"MAX_WAL_RECORD_LEN": (max_len, ty)},
              variant_index={"WalRecordTooLarge": 100, "Io": 101, "WalProtocol": 102})
    st = State()
    off = ex.fresh_bv("offset", 64)
    st.env["$reader"] = Struct("WalReader", {0: Opaque("file"), 1: off})
    st.env["_1"] = Ref("$reader")
    st.pc.append(z3.ULE(off, bv(1 << 48, 64)))
    paths = ex.run("bb0", st)
    return fn, ex, off, paths, max_len


def has_io_fault(p):
    return any("I/O fault" in e for e in p.events)


def classify_ret(ret):
    """('err', variant) | ('none',) | ('some', tuple)"""
    if isinstance(ret, Enum) and ret.variant == "Err":
        e = ret.fields[0]
        return ("err", e.variant if isinstance(e, Enum) else repr(e))
    if isinstance(ret, Enum) and ret.variant == "Ok":
        o = ret.fields[0]
        if isinstance(o, Enum) and o.variant == "None":
            return ("none",)
        if isinstance(o, Enum) and o.variant == "Some":
            return ("some", o.fields[0])
    raise Unsupported("unexpected return shape %r" % (ret,))


def run_o1(mf, tier):
    fn, ex, off, paths, max_len = explore_next_record(mf)
    failed, witness_text, n = [], [], 0
    reproduced = None
    unreproduced = []
    for p in paths:
        if p.kind == "panic":
            failed.append("panic possible: " + p.signature())
            continue
        if p.kind != "return":
            continue
        n += 1
        kind = classify_ret(p.ret)
        if kind[0] == "err" and not has_io_fault(p):
            sig = "open fails on a tail without any I/O fault: returns Err(%s) on path [%s]" % (kind[1], p.signature())
            # concretise: the bytes of the tail record, and replay them through Db::open
            tail = concretise_tail(ex, p, max_len)
            rep = None
            if tail is not None:
                rep, lines = witness.run(["wal-tail", tail.hex()])
                witness_text += ["path: " + p.signature(), "tail bytes after the last committed record: " + tail.hex()] + lines
            if rep is False:
                unreproduced.append(sig)          # the solver's tail does not fail natively: not reported as a violation
            else:
                failed.append(sig)
                if rep:
                    reproduced = True
    res = {"paths": n, "queries": ex.queries, "solver_time_s": round(ex.solver_time, 3),
           "sample": [p.signature() + " => " + repr(p.ret)[:60] for p in paths if p.kind == "return"][:12],
           "functions": [fn.header[:100]]}
    if failed:
        res.update({"status": "fail", "failed": sorted(set(failed)), "reason": "; ".join(sorted(set(failed)))[:400],
                    "witness_text": witness_text, "reproduced": reproduced})
    elif unreproduced:
        res.update({"status": "inconclusive", "reason": "counterexample(s) did not reproduce natively: " + "; ".join(unreproduced)[:300],
                    "witness_text": witness_text})
    else:
        res["status"] = "pass"
    if unreproduced:
        res["unreproduced"] = unreproduced
    return res


def concretise_tail(ex, p, max_len):
    """Turn a violating path into concrete tail bytes (len, crc, body)."""
    lens = [v for v in _symbols(p) if str(v).startswith("u32_read")]
    sig = p.signature()
    if "decode_body -> Err" in sig:
        # CRC matches and the body does not decode: the empty body (len = 0, crc = crc32("") = 0) is the zero-filled tail
        body = b""
        ln, crc = 0, zlib.crc32(body)
        # the path must admit len = 0 and crc = crc32(body)
        cons = []
        if len(lens) >= 2:
            lens.sort(key=lambda v: int(str(v).split("#")[1]))
            cons = [lens[0] == ln, lens[1] == crc]
            crcs = [v for v in _symbols(p) if str(v).startswith("crc_of_body")]
            cons += [c == crc for c in crcs]
        if not ex.feasible(p.pc, z3.And(cons) if cons else None):
            return None
        return ln.to_bytes(4, "little") + crc.to_bytes(4, "little") + body
    m = ex.model(p.pc)
    if m is None or not lens:
        return None
    lens.sort(key=lambda v: int(str(v).split("#")[1]))
    ln = m.eval(lens[0], model_completion=True).as_long()
    return ln.to_bytes(4, "little")


def _symbols(p):
    out = {}
    for c in p.pc:
        stack = [c]
        while stack:
            e = stack.pop()
            if z3.is_const(e) and e.decl().kind() == z3.Z3_OP_UNINTERPRETED:
                out[str(e)] = e
            else:
                stack.extend(e.children())
    return list(out.values())


def run_o2(mf, tier):
    fn, ex, off, paths, max_len = explore_next_record(mf)
    failed, n = [], 0
    for p in paths:
        if p.kind != "return":
            continue
        n += 1
        kind = classify_ret(p.ret)
        reader = p.st.env["$reader"]
        new_off = reader.fields[1]
        if kind[0] == "some":
            tup = kind[1]
            lens = sorted([v for v in _symbols(p) if str(v).startswith("u32_read")], key=lambda v: int(str(v).split("#")[1]))
            if not lens:
                failed.append("Ok(Some) without a length read: " + p.signature())
                continue
            want = off + 8 + z3.ZeroExt(32, lens[0])
            if not ex.entails(p.pc, new_off == want):
                failed.append("after Ok(Some) the offset is not old+8+len on path [%s]" % p.signature())
            if not ex.entails(p.pc, tup.fields[0] == off):
                failed.append("Ok(Some) does not report the record's own offset on path [%s]" % p.signature())
        else:
            # Ok(None) / Err: resume point = last valid record. The Err paths that advanced the offset before failing
            # (decode_body error) are reported by O1; here only the end-of-log outcome is required to leave the offset alone.
            if kind[0] == "none" and not ex.entails(p.pc, new_off == off):
                failed.append("end-of-log outcome moved the read offset on path [%s]" % p.signature())
    res = {"paths": n, "queries": ex.queries, "solver_time_s": round(ex.solver_time, 3),
           "sample": ["offset' == offset + 8 + len on Ok(Some); offset' == offset on Ok(None)"], "functions": [fn.header[:100]]}
    if failed:
        res.update({"status": "fail", "failed": sorted(set(failed)), "reason": "; ".join(sorted(set(failed)))[:400]})
    else:
        res["status"] = "pass"
    return res


# ------------------------------------------------------------------------------------------ O3: append position
def run_o3(mf, tier):
    fn = mf.find(r"^fn wal::<impl at [^>]*>::append\(_1: &mut Wal, _2: &WalRecord\)")
    seeks = []

    def m_as_mut(ex, st, a, dst, callee):
        return [(Enum("Some", [Ref("$file")]), [], None), (Enum("None"), [], "wal file is closed")]

    def m_encode_body(ex, st, a, dst, callee):
        return [(Enum("Ok", [Struct("body", {})]), [], None)]

    def m_try_from(ex, st, a, dst, callee):
        return [(Enum("Ok", [ex.fresh_bv("len", 32)]), [], None)]

    def m_map_err(ex, st, a, dst, callee):
        return [(a[0], [], None)]

    def m_crc(ex, st, a, dst, callee):
        return [(ex.fresh_bv("crc", 32), [], None)]

    def m_metadata(ex, st, a, dst, callee):
        return [(Enum("Ok", [Struct("Metadata", {})]), [], None)]

    def m_meta_len(ex, st, a, dst, callee):
        return [(st.env["$file_len"], [], None)]

    def m_seek(ex, st, a, dst, callee):
        pos = a[1]
        seeks.append(repr(pos))
        if isinstance(pos, Enum) and pos.variant == "End":
            newpos = st.env["$file_len"] + pos.fields[0]
        elif isinstance(pos, Enum) and pos.variant == "Start":
            newpos = pos.fields[0]
        else:
            return None
        st.env["$write_pos"] = newpos
        return [(Enum("Ok", [newpos]), [], "seek(%s)" % pos.variant)]

    def m_write_all(ex, st, a, dst, callee):
        st.env["$writes"] = st.env.get("$writes", 0) + 1
        if st.env["$writes"] == 1:
            st.env["$first_write_at"] = st.env["$write_pos"]
        return [(Enum("Ok", [Tup([])]), [], None)]

    def m_ok_unit(ex, st, a, dst, callee):
        return [(Enum("Ok", [Tup([])]), [], None)]

    def m_to_le(ex, st, a, dst, callee):
        return [(Opaque("bytes"), [], None)]

    def m_slice(ex, st, a, dst, callee):
        return [(Opaque("slice"), [], None)]

    models = GENERIC_MODELS + [
        (r"Option::<File>::as_mut$|Option::<std::fs::File>::as_mut$", m_as_mut),
        (r"WalRecord::encode_body$", m_encode_body),
        (r"as TryFrom<usize>>::try_from$", m_try_from),
        (r"Result::<u32, TryFromIntError>::map_err::<", m_map_err),
        (r"^crc32$|wal::crc32$", m_crc),
        (r"File::metadata$", m_metadata),
        (r"Metadata::len$", m_meta_len),
        (r"as Seek>::seek$", m_seek),
        (r"as std::io::Write>::write_all$|as Write>::write_all$", m_write_all),
        (r"as std::io::Write>::flush$|as Write>::flush$", m_ok_unit),
        (r"num::<impl u32>::to_le_bytes$", m_to_le),
        (r"as Unsize|as_slice$|Vec::<u8>::len$", m_slice),
    ]
    ex = Exec(fn, models, bound=2, variant_index={"Start": 0, "End": 1, "Current": 2})
    st = State()
    flen = ex.fresh_bv("file_len", 64)
    valid = ex.fresh_bv("last_valid_offset", 64)
    st.env["$file_len"] = flen
    st.env["$write_pos"] = ex.fresh_bv("initial_pos", 64)
    st.env["$file"] = Opaque("file")
    st.env["$wal"] = Struct("Wal", {0: Opaque("path"), 1: Opaque("file-option")})
    st.env["_1"] = Ref("$wal")
    st.env["$rec"] = Opaque("record")
    st.env["_2"] = Ref("$rec")
    st.pc += [z3.ULE(valid, flen), z3.ULE(flen, bv(1 << 48, 64))]
    paths = ex.run("bb0", st)
    failed, n, witness_text, reproduced = [], 0, [], None
    for p in paths:
        if p.kind != "return" or not (isinstance(p.ret, Enum) and p.ret.variant == "Ok"):
            continue
        n += 1
        first = p.st.env.get("$first_write_at")
        if first is None:
            failed.append("append returned Ok without writing")
            continue
        # obligation: the record is written where recovery will look for the next record: the last valid offset
        if ex.feasible(p.pc, first != valid):
            m = ex.model(p.pc, first != valid)
            fl, va = m.eval(flen, model_completion=True).as_long(), m.eval(valid, model_completion=True).as_long()
            failed.append("append writes at the end of the file, not at the reader's last valid offset (garbage tail stays in front of new records)")
            junk = max(1, min(fl - va, 3)) if fl > va else 2   # < 4 bytes: the reader sees a short length read (EOF) and opens fine
            tail = bytes([1 + i for i in range(junk)])
            rep, lines = witness.run(["wal-append-after-tail", tail.hex()])
            witness_text += ["solver model: file_len=%d last_valid_offset=%d first_write_at=file_len" % (fl, va),
                             "concretised as %d garbage bytes after the committed log: %s" % (junk, tail.hex())] + lines
            reproduced = rep
        if not ex.entails(p.pc, p.ret.fields[0] == flen):
            failed.append("append does not return the offset it wrote at")
    res = {"paths": n, "queries": ex.queries, "solver_time_s": round(ex.solver_time, 3),
           "sample": ["seek positions used: " + ", ".join(sorted(set(seeks)))], "functions": [fn.header[:100]]}
    if failed:
        res.update({"status": "fail", "failed": sorted(set(failed)), "reason": "; ".join(sorted(set(failed)))[:400],
                    "witness_text": witness_text, "reproduced": reproduced})
    else:
        res["status"] = "pass"
    return res


TARGETS = [
    {"name": "c17_o1_q_next_record_no_spurious_error", "crate": "nervusdb-storage", "run": run_o1},
    {"name": "c17_o2_q_next_record_offset_discipline", "crate": "nervusdb-storage", "run": run_o2},
    {"name": "c17_o3_q_append_position", "crate": "nervusdb-storage", "run": run_o3},
    {"name": "c01_o1_q_append_position", "crate": "nervusdb-storage", "run": run_o3},
]
