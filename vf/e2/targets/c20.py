"""C20-O2: SKIP / LIMIT window arithmetic — the row-window expression yields exactly the non-negative integer it evaluates to
(no clamping, no wrap), anything else is an error; execute_limit hands exactly that number to Iterator::take (execute_skip: see skip.py,
which decides the surviving items for either adaptor shape instead of demanding one particular std adaptor)."""
import re

import z3

from ..symex import (GENERIC_MODELS, Enum, Exec, Opaque, Ref, State, Struct, Unsupported, bv)
from .util import variant_index


def value_alts(ex):
    return [(Enum("Int", [ex.fresh_bv("v", 64)]), [], "value=Int"), (Enum("Float", [ex.fresh_fp("f")]), [], "value=Float"),
            (Enum("Null"), [], "value=Null"), (Enum("String", [Opaque("s")]), [], "value=String"),
            (Enum("Bool", [ex.fresh_bv("b", 1)]), [], "value=Bool")]


def window_models():
    def m_default(ex, st, a, dst, callee):
        return [(Opaque("empty-row"), [], None)]

    def m_eval(ex, st, a, dst, callee):
        alts = value_alts(ex)
        st.env["$int"] = alts[0][0].fields[0]
        return alts

    def m_to_string(ex, st, a, dst, callee):
        return [(Opaque(a[0].name if isinstance(a[0], Opaque) else "msg"), [], None)]

    def m_map_err(ex, st, a, dst, callee):
        v = a[0]
        if isinstance(v, Enum) and v.variant == "Ok":
            return [(v, [], None)]
        if isinstance(v, Enum) and v.variant == "Err":
            return [(Enum("Err", [Enum("Other", [Opaque("str:syntax error: InvalidArgumentType")])]), [], None)]
        return None
    return GENERIC_MODELS + [(r"<Row as Default>::default$", m_default), (r"^evaluate_expression_value::<", m_eval),
                             (r"<str as ToString>::to_string$", m_to_string), (r"Result::<usize, TryFromIntError>::map_err::<", m_map_err)]


def run_window(mf, tier):
    fn = mf.find(r"^fn evaluate_row_window_expression\(")
    vi = variant_index("nervusdb-query/src/executor/core_types.rs", "Value")
    ex = Exec(fn, window_models(), bound=2, variant_index=vi)
    paths = ex.run("bb0", State())
    failed, n = [], 0
    for p in paths:
        if p.kind == "panic":
            failed.append("panic possible on [%s]" % p.signature())
            continue
        if p.kind != "return":
            continue
        n += 1
        ret = p.ret
        if "value=Int" in p.events:
            v = p.st.env["$int"]
            if isinstance(ret, Enum) and ret.variant == "Ok":
                if not ex.entails(p.pc, z3.And(v >= 0, ret.fields[0] == v)):
                    failed.append("window size differs from the evaluated integer (clamped or wrapped) on [%s]" % p.signature())
            else:
                if ex.feasible(p.pc, v >= 0):
                    failed.append("a non-negative integer window size is rejected on [%s]" % p.signature())
        else:
            if not (isinstance(ret, Enum) and ret.variant == "Err"):
                failed.append("a non-integer window size is accepted on [%s]" % p.signature())
    # both outcomes must be reachable for Int (vacuity)
    outcomes = {(("value=Int" in p.events), isinstance(p.ret, Enum) and p.ret.variant) for p in paths if p.kind == "return"}
    if (True, "Ok") not in outcomes or (True, "Err") not in outcomes:
        failed.append("integer window sizes do not reach both the accepted and the rejected outcome")
    res = {"paths": n, "queries": ex.queries, "solver_time_s": round(ex.solver_time, 3),
           "sample": [p.signature() + " => " + repr(p.ret)[:60] for p in paths if p.kind == "return"][:8], "functions": [fn.header[:110]]}
    if failed:
        res.update({"status": "fail", "failed": sorted(set(failed)), "reason": "; ".join(sorted(set(failed)))[:400]})
    else:
        res["status"] = "pass"
    return res


def run_adaptor(fname, adaptor):
    def run(mf, tier):
        fn = mf.find(r"^fn %s\(" % fname)
        used = []

        def m_window(ex, st, a, dst, callee):
            n = ex.fresh_bv("window", 64)
            st.env["$window"] = n
            return [(Enum("Ok", [n]), [], "window=Ok"), (Enum("Err", [Opaque("window-error")]), [], "window=Err")]

        def m_plan(ex, st, a, dst, callee):
            return [(Opaque("input-iter"), [], None)]

        def m_adapt(ex, st, a, dst, callee):
            st.env["$adapted_with"] = a[1]
            st.env["$adapted_on"] = a[0]
            return [(Struct(adaptor, {0: a[0], 1: a[1]}), [], "%s(n)" % adaptor)]

        def m_once(ex, st, a, dst, callee):
            return [(Struct("Once", {0: a[0]}), [], None)]

        def m_box(ex, st, a, dst, callee):
            return [(a[0], [], None)]
        models = GENERIC_MODELS + [(r"^evaluate_row_window_expression::<", m_window), (r"execute_plan::<", m_plan),
                                   (r"as Iterator>::%s$" % adaptor, m_adapt), (r"^once::<|iter::once::<", m_once), (r"Box::<.*>::new$", m_box)]
        ex = Exec(fn, models, bound=2)
        paths = ex.run("bb0", State())
        failed, n = [], 0
        for p in paths:
            if p.kind != "return":
                if p.kind == "panic":
                    failed.append("panic possible on [%s]" % p.signature())
                continue
            n += 1
            ret = p.ret
            inner = ret.fields[0] if isinstance(ret, Enum) and ret.variant == "Dynamic" else None
            if "window=Ok" in p.events:
                if not (isinstance(inner, Struct) and inner.name == adaptor):
                    failed.append("%s does not wrap the input in Iterator::%s on [%s]" % (fname, adaptor, p.signature()))
                    continue
                if not (isinstance(inner.fields[0], Opaque) and inner.fields[0].name == "input-iter"):
                    failed.append("%s adapts something other than the input plan's iterator" % fname)
                if not ex.entails(p.pc, inner.fields[1] == p.st.env["$window"]):
                    failed.append("%s passes a number different from the evaluated window size to Iterator::%s" % (fname, adaptor))
            else:
                ok = isinstance(inner, Struct) and inner.name == "Once" and isinstance(inner.fields[0], Enum) and inner.fields[0].variant == "Err"
                if not ok:
                    failed.append("%s does not surface the window-size error as the only item on [%s]" % (fname, p.signature()))
        res = {"paths": n, "queries": ex.queries, "solver_time_s": round(ex.solver_time, 3),
               "sample": [p.signature() + " => " + repr(p.ret)[:80] for p in paths if p.kind == "return"][:4], "functions": [fn.header[:110]]}
        if failed:
            res.update({"status": "fail", "failed": sorted(set(failed)), "reason": "; ".join(sorted(set(failed)))[:400]})
        else:
            res["status"] = "pass"
        return res
    return run


TARGETS = [
    {"name": "c20_o2_q_row_window_expression", "crate": "nervusdb-query", "run": run_window},
    {"name": "c20_o2_q_execute_limit_passes_window", "crate": "nervusdb-query", "run": run_adaptor("execute_limit", "take")},
]
