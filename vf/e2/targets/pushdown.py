"""C19-O2: inline pattern properties are always part of the pushed-down predicate set.

`MATCH (n:L {k: v}) WHERE ...` enforces the inline property ONLY through the per-variable push-down map that
`extend_predicates_from_properties` fills (the WHERE clause is enforced a second time by a Filter, inline properties are not).
Whatever the map already holds - including a WHERE-derived equality on the same variable and the same key - after the call it must
map every inline key of the pattern element to the inline value, and leave every other entry alone. Strings and expressions are
symbolic ids; the map is an association list; `entry`/`insert`/`or_insert_with` fork on key equality (vf/e2/mapmodel.py)."""
import re

import z3

from ..symex import GENERIC_MODELS, STD_CMP_MODELS, Enum, Exec, Opaque, PyVec, Ref, State, Struct, Tup, Unsupported, bv, deref_val
from ..mapmodel import MAP_MODELS, lookup
from ..vecmodel import VEC_MODELS
from ..bytesmodel import ByteIt, m_byteit_next


def models():
    def m_into_iter(ex, st, a, dst, callee):
        if isinstance(a[0], Ref):
            return [(ByteIt(a[0]), [], None)]
        return None

    def m_expr_clone(ex, st, a, dst, callee):
        v = deref_val(ex, st, a[0]) if isinstance(a[0], Ref) else a[0]
        return [(v, [], None)]
    return [(r"^<&Vec<ast::PropertyPair> as IntoIterator>::into_iter$", m_into_iter),
            (r"^<std::slice::Iter<'_, ast::PropertyPair> as Iterator>::next$", m_byteit_next),
            (r"^<ast::Expression as Clone>::clone$", m_expr_clone)] + MAP_MODELS + VEC_MODELS + STD_CMP_MODELS + GENERIC_MODELS


def run(nprops):
    def go(mf, tier):
        fn = mf.find(r"^fn (?:\S*::)?extend_predicates_from_properties\(")
        var, other = z3.BitVec("variable", 32), z3.BitVec("other_variable", 32)
        failed, n, queries, stime = [], 0, 0, 0.0
        # pre-states of the push-down map: empty / the variable already has an entry for a key k0 / another variable has one
        for pre in ("empty", "same-variable", "other-variable", "both"):
            st = State()
            k0, e0, k9, e9 = z3.BitVec("where_key", 32), z3.BitVec("where_value", 32), z3.BitVec("other_key", 32), z3.BitVec("other_value", 32)
            st.pc.append(var != other)
            assoc = []
            if pre in ("other-variable", "both"):
                assoc.append(Tup([other, PyVec([Tup([k9, e9])])]))
            if pre in ("same-variable", "both"):
                assoc.append(Tup([var, PyVec([Tup([k0, e0])])]))
            keys = [z3.BitVec("inline_key%d" % i, 32) for i in range(nprops)]
            vals = [z3.BitVec("inline_value%d" % i, 32) for i in range(nprops)]
            st.pc += [keys[i] != keys[j] for i in range(nprops) for j in range(i + 1, nprops)]          # a map literal's keys are distinct
            st.pc += [v != e0 for v in vals]
            st.env["$preds"] = PyVec(assoc)
            st.env["$props"] = Enum("Some", [Struct("PropertyMap", {0: PyVec([Struct("PropertyPair", {0: keys[i], 1: vals[i]}) for i in range(nprops)])})])
            st.env["_1"], st.env["_2"], st.env["_3"] = var, Ref("$props"), Ref("$preds")
            ex = Exec(fn, models(), bound=nprops + 3, mf=mf, inline=r".", max_paths=4000)
            paths = ex.run("bb0", st)
            queries += ex.queries
            stime += ex.solver_time
            for p in paths:
                if p.kind == "panic":
                    failed.append("extend_predicates_from_properties can panic: %s" % str(p.info)[:60])
                    continue
                if p.kind == "bound":
                    raise Unsupported("cut by the loop bound")
                if p.kind != "return":
                    continue
                n += 1
                preds = p.st.env["$preds"]
                inner, decided = lookup(ex, p.pc, preds, var)
                if not decided:
                    raise Unsupported("the variable's entry is not decided by the path condition")
                if inner is None or not isinstance(inner, PyVec):
                    failed.append("the pattern variable has no push-down entry although the element has inline properties (map before: %s)" % pre)
                    continue
                for i in range(nprops):
                    got, dec = lookup(ex, p.pc, inner, keys[i])
                    if not dec:
                        raise Unsupported("an inline key is not decided by the path condition")
                    if got is None or not ex.entails(p.pc, got == vals[i]):
                        m = ex.model(p.pc)
                        failed.append("an inline pattern property is not enforced: the push-down map keeps another expression for its key (map before: %s%s)"
                                      % (pre, ", WHERE-derived key equals the inline key" if pre in ("same-variable", "both") and
                                         m.eval(k0 == keys[i], model_completion=True) else ""))
                if pre in ("same-variable", "both"):
                    got, dec = lookup(ex, p.pc, inner, k0)
                    if dec and ex.feasible(p.pc, z3.And([k0 != k for k in keys])) and not any(ex.entails(p.pc, k0 == k) for k in keys):
                        if got is None or not ex.entails(p.pc, got == e0):
                            failed.append("a pushed-down predicate on a different key of the same variable is lost")
                if pre in ("other-variable", "both"):
                    o_inner, dec = lookup(ex, p.pc, preds, other)
                    if o_inner is None or not isinstance(o_inner, PyVec) or len(o_inner.items) != 1 or \
                            not ex.entails(p.pc, z3.And(o_inner.items[0].fields[0] == k9, o_inner.items[0].fields[1] == e9)):
                        failed.append("the push-down entry of another variable is changed")
        res = {"paths": n, "queries": queries, "solver_time_s": round(stime, 3),
               "sample": ["%d inline properties with symbolic key/value ids; map before the call: empty | same variable {k0: e0} | other variable | both" % nprops],
               "functions": ["query_api::match_compile::extend_predicates_from_properties"]}
        if failed:
            res.update({"status": "fail", "failed": sorted({re.sub(r" \(map before.*$", "", f) for f in failed}), "reason": "; ".join(sorted(set(failed)))[:500],
                        "witness_text": sorted(set(failed))[:4]})
        else:
            res["status"] = "pass"
        return res
    return go


TARGETS = [
    {"name": "c19_o2_q_inline_properties_always_pushed_down_2_props", "crate": "nervusdb-query", "run": run(2)},
    {"name": "c19_o2_t_inline_properties_always_pushed_down_3_props", "crate": "nervusdb-query", "run": run(3)},
]
