"""C15-O2: execute_index_seek — the seek value is converted kind-for-kind, unsupported kinds and a missing/empty index answer
fall back to the scan plan, and a non-empty index answer is emitted as exactly those node ids (never mixed with the fallback)."""
import z3

from ..symex import (GENERIC_MODELS, Enum, Exec, Opaque, Ref, State, Struct, Tup, Unsupported, deref_val)
from .util import variant_index


def run_seek(mf, tier):
    fn = mf.find(r"^fn execute_index_seek\(")
    vi = dict(variant_index("nervusdb-query/src/executor/core_types.rs", "Value"))

    def m_compat(ex, st, a, dst, callee):
        return [(Enum("Ok", [Tup([])]), [], "compat=Ok"), (Enum("Err", [Opaque("compat-error")]), [], "compat=Err")]

    def m_default(ex, st, a, dst, callee):
        return [(Opaque("empty-row"), [], None)]

    def m_eval(ex, st, a, dst, callee):
        i, f, b = ex.fresh_bv("i", 64), ex.fresh_fp("f"), ex.fresh_bv("b", 1)
        st.env["$payload"] = {"Int": i, "Float": f, "Bool": b, "String": "s"}
        return [(Enum("Null"), [], "value=Null"), (Enum("Bool", [b]), [], "value=Bool"), (Enum("Int", [i]), [], "value=Int"),
                (Enum("Float", [f]), [], "value=Float"), (Enum("String", [Opaque("s")]), [], "value=String"),
                (Enum("List", [Opaque("l")]), [], "value=List"), (Enum("NodeId", [ex.fresh_bv("n", 32)]), [], "value=NodeId"),
                (Enum("DateTime", [ex.fresh_bv("d", 64)]), [], "value=DateTime")]

    def m_lookup(ex, st, a, dst, callee):
        st.env["$looked_up"] = deref_val(ex, st, a[3])
        return [(Enum("None"), [], "index=None"), (Enum("Some", [Struct("ids", {})]), [], "index=Some")]

    def m_sort(ex, st, a, dst, callee):
        st.env["$sorted"] = True
        return [(Tup([]), [], None)]

    def m_plan(ex, st, a, dst, callee):
        return [(Enum("Dynamic", [Struct("fallback", {0: a[1]})]), [], "fallback plan")]

    def m_opaque(name):
        def f(ex, st, a, dst, callee):
            return [(Struct(name, {0: a[0]} if a else {}), [], None)]
        return f

    def m_box(ex, st, a, dst, callee):
        return [(a[0], [], None)]

    models = GENERIC_MODELS + [(r"^ensure_runtime_expression_compatible::<", m_compat), (r"<Row as Default>::default$", m_default),
                               (r"^evaluate_expression_value::<", m_eval), (r"GraphSnapshot>::lookup_index$", m_lookup),
                               (r"slice::<impl \[u32\]>::sort$", m_sort), (r"execute_plan::<", m_plan),
                               (r"<str as ToString>::to_string$", m_opaque("alias")), (r"as IntoIterator>::into_iter$", m_opaque("into_iter")),
                               (r"as Iterator>::map::<", m_opaque("map")), (r"^once::<|iter::once::<", m_opaque("Once")),
                               (r"Box::<.*>::new$", m_box)]
    ex = Exec(fn, models, bound=2, variant_index=vi)
    st = State()
    for i, nm in ((1, "snapshot"), (6, "fallback-plan"), (7, "params"), (5, "value-expr")):
        st.env["_%d" % i] = Opaque(nm)
    paths = ex.run("bb0", st)
    failed, n = [], 0
    for p in paths:
        if p.kind == "panic":
            failed.append("panic possible on [%s]" % p.signature())
            continue
        if p.kind != "return":
            continue
        n += 1
        ev = p.events
        ret = p.ret
        inner = ret.fields[0] if isinstance(ret, Enum) and ret.variant == "Dynamic" and ret.fields else None
        kind = next((e[6:] for e in ev if e.startswith("value=")), None)
        if "compat=Err" in ev:
            if not (isinstance(inner, Struct) and inner.name == "Once"):
                failed.append("an incompatible seek value does not surface its error on [%s]" % p.signature())
            continue
        is_fallback = isinstance(inner, Struct) and inner.name == "fallback"
        if kind in ("List", "NodeId", "DateTime"):
            if not is_fallback or "index=Some" in ev or "index=None" in ev:
                failed.append("a seek value of kind %s does not go straight to the fallback plan" % kind)
            continue
        looked = p.st.env.get("$looked_up")
        if not isinstance(looked, Enum) or looked.variant != kind:
            failed.append("a %s seek value is looked up as %r" % (kind, looked))
        else:
            pay = p.st.env["$payload"].get(kind)
            if kind in ("Int", "Bool"):
                if not ex.entails(p.pc, looked.fields[0] == pay):
                    failed.append("the %s seek value is changed before the index lookup" % kind)
            elif kind == "Float":
                if not ex.entails(p.pc, z3.fpToIEEEBV(looked.fields[0]) == z3.fpToIEEEBV(pay)):
                    failed.append("the Float seek value is changed before the index lookup")
        if "index=None" in ev:
            if not is_fallback:
                failed.append("a missing / empty index answer does not fall back to the scan plan")
            elif not (isinstance(inner.fields[0], Opaque) and inner.fields[0].name == "fallback-plan"):
                failed.append("the fallback executes something other than the fallback plan")
        elif "index=Some" in ev:
            if is_fallback or "fallback plan" in ev:
                failed.append("a non-empty index answer is mixed with / replaced by the fallback plan")
            if not p.st.env.get("$sorted"):
                failed.append("index answers are emitted without sorting the node ids")
        else:
            failed.append("no index lookup on [%s]" % p.signature())
    res = {"paths": n, "queries": ex.queries, "solver_time_s": round(ex.solver_time, 3),
           "sample": [p.signature() + " => " + repr(p.ret)[:50] for p in paths if p.kind == "return"][:8], "functions": [fn.header[:110]]}
    if failed:
        res.update({"status": "fail", "failed": sorted(set(failed)), "reason": "; ".join(sorted(set(failed)))[:400]})
    else:
        res["status"] = "pass"
    return res


def run_label_filter(nlabels):
    """C15-O4: the planner keeps a HasLabel filter for EVERY label of the pattern's first node above NodeScan / IndexSeek.

    Index entries are maintained at commit from property changes only; a node that loses its label keeps its index entry, and a
    NodeScan(label) / IndexSeek(label, ..) restricts by the FIRST label only through the index or the label scan. What keeps the
    rows equal with and without the index is the filter `apply_label_filters_for_alias(plan, alias, src_labels)` that
    `compile_pattern_chain` puts above the start plan in each of its four arms. The real MIR of compile_pattern_chain is executed
    from the statement that clones the element's labels to the join after the four arms; labels are symbolic ids, every callee is
    a recorder. On every path the label list handed to the filter builder must be the element's complete label list."""
    def run(mf, tier):
        import re
        from ..symex import PyVec, TRUE, FALSE
        from ..bytesmodel import buf_of
        fn = mf.find(r"^fn compile_pattern_chain\(")
        loc = {}
        for l in fn.lines:
            m = re.match(r"^\s*debug (\w+) => (_\d+);$", l)
            if m and m.group(1) not in loc:
                loc[m.group(1)] = m.group(2)
        for need in ("src_labels", "src_alias", "src_node_el", "plan"):
            if need not in loc:
                raise Unsupported("compile_pattern_chain has no local named %s" % need)
        entry, stops = None, {}
        for bb, stmts in fn.blocks.items():
            if bb in fn.cleanup or not stmts:
                continue
            t = stmts[-1]
            if re.match(r"^%s = <Vec<std::string::String> as Clone>::clone\(" % re.escape(loc["src_labels"]), t):
                entry = bb
        if entry is None:
            raise Unsupported("cannot locate the statement that computes src_labels")
        # the join after the four arms: the first block that assigns `i` (debug i) — stop where the hop loop is set up
        hop = loc.get("i")
        for bb, stmts in fn.blocks.items():
            if bb in fn.cleanup:
                continue
            if any(re.match(r"^%s = const 1_usize;$" % re.escape(hop or "_none"), s) for s in stmts):
                stops[bb] = "start plan built"
        if not stops:
            raise Unsupported("cannot locate the join after the start-plan arms")
        labels = [z3.BitVec("label%d" % i, 32) for i in range(nlabels)]
        alias = z3.BitVec("alias", 32)

        def ident(ex, st, a, dst, callee):
            v = a[0]
            if isinstance(v, Ref):
                v = deref_val(ex, st, v)
            return [(v, [], None)]

        def keepref(ex, st, a, dst, callee):
            return [(a[0], [], None)]

        def m_first(ex, st, a, dst, callee):
            v = buf_of(ex, st, a[0])
            if not v.items:
                return [(Enum("None"), [], "first=None")]
            return [(Enum("Some", [Ref(a[0].root, list(a[0].projs) + [("elem", 0)])]), [], "first=Some")]

        def m_get_range(ex, st, a, dst, callee):
            n = len(buf_of(ex, st, a[0]).items)
            r = a[1]
            if not isinstance(r, Struct):
                return None
            from ..bytesmodel import conc
            if r.name == "RangeFrom":
                s, e = conc(r.fields[0]), n
            elif r.name == "Range":
                s, e = conc(r.fields[0]), conc(r.fields[1])
            elif r.name == "RangeTo":
                s, e = 0, conc(r.fields[0])
            else:
                return None
            if s > e or e > n:
                return [(Enum("None"), [], None)]
            return [(Enum("Some", [Ref(a[0].root, list(a[0].projs) + [("range", s, e)])]), [], None)]

        def m_cloned(ex, st, a, dst, callee):
            v = a[0]
            if isinstance(v, Enum) and v.variant == "Some":
                return [(Enum("Some", [deref_val(ex, st, v.fields[0])]), [], None)]
            return [(v, [], None)]

        def m_opaque(name):
            def f(ex, st, a, dst, callee):
                return [(Opaque(name), [], None)]
            return f

        def m_binding(ex, st, a, dst, callee):
            st.env["$kind_node"] = Enum("Node")
            st.env["$kind_rel"] = Enum("Relationship")
            return [(Enum("None"), [], "source unbound"), (Enum("Some", [Ref("$kind_node")]), [], "source bound as node"),
                    (Enum("Some", [Ref("$kind_rel")]), [], "source bound as relationship")]

        def m_forkbool(tag):
            def f(ex, st, a, dst, callee):
                return [(TRUE, [], tag + "=true"), (FALSE, [], tag + "=false")]
            return f

        def m_unit(ex, st, a, dst, callee):
            return [(Tup([]), [], None)]

        def m_preds_get(ex, st, a, dst, callee):
            st.env["$inner"] = Opaque("predicates-of-alias")
            return [(Enum("None"), [], "no pushed-down predicate"), (Enum("Some", [Ref("$inner")]), [], "pushed-down predicates")]

        def m_iter(ex, st, a, dst, callee):
            return [(Struct("btree-iter", {}), [], None)]

        def m_iter_next(ex, st, a, dst, callee):
            st.env["$field"], st.env["$vexpr"] = Opaque("field"), Opaque("value-expr")
            return [(Enum("None"), [], "predicate map empty"), (Enum("Some", [Tup([Ref("$field"), Ref("$vexpr")])]), [], "equality predicate")]

        def m_filters(ex, st, a, dst, callee):
            return [(Struct("PropertyFiltered", {0: a[0]}), [], None)]

        def m_label_filters(ex, st, a, dst, callee):
            got = list(buf_of(ex, st, a[2]).items) if isinstance(a[2], Ref) else None
            st.env.setdefault("$label_calls", [])
            st.env["$label_calls"] = st.env["$label_calls"] + [(a[1], got)]
            return [(Struct("LabelFiltered", {0: a[0]}), [], None)]

        models = [(r"^<Vec<std::string::String> as Clone>::clone$", ident),
                  (r"^<std::string::String as Clone>::clone$", ident),
                  (r"^<std::option::Option<std::string::String> as Clone>::clone$", ident),
                  (r"^<ast::Expression as Clone>::clone$", ident),
                  (r"^<BTreeMap<std::string::String, BTreeMap<std::string::String, ast::Expression>> as Clone>::clone$", m_opaque("local-predicates")),
                  (r"slice::<impl \[std::string::String\]>::first$", m_first),
                  (r"slice::<impl \[std::string::String\]>::get::<", m_get_range),
                  (r"Option::<&std::string::String>::cloned$", m_cloned),
                  (r"^BTreeMap::<std::string::String, BindingKind>::get::<", m_binding),
                  (r"^first_relationship_is_bound$", m_forkbool("first relationship bound")),
                  (r"^extend_predicates_from_properties$", m_unit),
                  (r"^BTreeMap::<std::string::String, BTreeMap<std::string::String, ast::Expression>>::get::<", m_preds_get),
                  (r"^BTreeMap::<std::string::String, ast::Expression>::iter$", m_iter),
                  (r"^<std::collections::btree_map::Iter<'_, std::string::String, ast::Expression> as Iterator>::next$", m_iter_next),
                  (r"^apply_filters_for_alias$", m_filters),
                  (r"^apply_label_filters_for_alias$", m_label_filters),
                  (r"Box::<.*>::new$", keepref)] + GENERIC_MODELS
        failed, n, queries, stime, sample = [], 0, 0, 0.0, []
        for has_input in (False, True):
            st = State()
            st.env["$el"] = Struct("NodePattern", {1: PyVec(list(labels)), 2: Opaque("inline-properties")})
            st.env[loc["src_node_el"]] = Ref("$el")
            st.env[loc["src_alias"]] = alias
            st.env["_1"] = Enum("Some", [Opaque("existing-plan")]) if has_input else Enum("None")
            st.env["_2"], st.env["_3"], st.env["_5"] = Opaque("pattern"), Opaque("predicates"), Opaque("known-bindings")
            st.env["_4"] = z3.BitVec("optional", 1)
            ex = Exec(fn, models, bound=2, variant_index=_binding_kind_index(), max_paths=2000, stop_at=stops)
            paths = ex.run(entry, st)
            queries += ex.queries
            stime += ex.solver_time
            for p in paths:
                if p.kind == "panic":
                    failed.append("start-plan construction can panic on [%s]" % p.signature())
                    continue
                if p.kind != "stop":
                    raise Unsupported("a path leaves the start-plan arms as %s on [%s]" % (p.kind, p.signature()))
                n += 1
                calls = p.st.env.get("$label_calls", [])
                plan = p.st.env.get(loc["plan"])
                if len(sample) < 8:
                    sample.append(p.signature() + " => " + repr(plan)[:80])
                if not (isinstance(plan, Struct) and plan.name == "LabelFiltered"):
                    failed.append("the start plan is not wrapped by the label filter on [%s]" % p.signature())
                    continue
                if len(calls) != 1:
                    failed.append("%d label-filter calls on [%s]" % (len(calls), p.signature()))
                    continue
                who, got = calls[0]
                if got is None:
                    raise Unsupported("the label list handed to the filter builder is not a view of a modelled vector")
                if got is None or len(got) != nlabels or not all(ex.entails(p.pc, g == l) for g, l in zip(got, labels)):
                    failed.append("the label filter above the start plan is built from %d of the node's %d labels (%s input plan): a node "
                                  "that lost a label is still matched through a stale index / label-scan answer"
                                  % (len(got) if got is not None else -1, nlabels, "with" if has_input else "without"))
                w = who if not isinstance(who, Ref) else deref_val(ex, p.st, who)
                if z3.is_expr(w) and not ex.entails(p.pc, w == alias):
                    failed.append("the label filter is built for another variable than the pattern's first node")
        res = {"paths": n, "queries": queries, "solver_time_s": round(stime, 3), "sample": sample, "functions": [fn.header[:110]]}
        if failed:
            res.update({"status": "fail", "failed": sorted(set(failed)), "reason": "; ".join(sorted(set(failed)))[:400]})
        else:
            res["status"] = "pass"
        return res
    return run


def run_label_filter_body(nlabels):
    """C15-O5: apply_label_filters_for_alias(plan, alias, labels) — the real body: the result is Filter{input: plan, predicate} whose
    predicate is an And-chain holding, for EVERY label handed in, `alias IS NULL OR alias:label`; no labels -> the plan unchanged."""
    def run(mf, tier):
        from ..symex import PyVec
        from ..bytesmodel import ByteIt, m_byteit_next
        fn = mf.find(r"^fn apply_label_filters_for_alias\(")
        labels = [z3.BitVec("label%d" % i, 32) for i in range(nlabels)]
        alias = z3.BitVec("alias", 32)

        def ident(ex, st, a, dst, callee):
            v = a[0]
            if isinstance(v, Ref):
                v = deref_val(ex, st, v)
            return [(v, [], None)]

        def keep(ex, st, a, dst, callee):
            return [(a[0], [], None)]

        def m_into_iter(ex, st, a, dst, callee):
            return [(ByteIt(a[0]), [], None)] if isinstance(a[0], Ref) else None

        models = [(r"^<&\[std::string::String\] as IntoIterator>::into_iter$", m_into_iter),
                  (r"^<std::slice::Iter<'_, std::string::String> as Iterator>::next$", m_byteit_next),
                  (r"^<str as ToString>::to_string$", ident), (r"^<std::string::String as Clone>::clone$", ident),
                  (r"Box::<.*>::new$", keep)] + GENERIC_MODELS
        st = State()
        st.env["$labels"] = PyVec(list(labels))
        st.env["_1"], st.env["_2"], st.env["_3"] = Opaque("input-plan"), alias, Ref("$labels")
        ex = Exec(fn, models, bound=nlabels + 2, mf=mf, max_paths=200)
        paths = ex.run("bb0", st)
        failed, n, sample = [], 0, []

        def same(x, y, pc):
            return z3.is_expr(x) and ex.entails(pc, x == y)

        def binary(e):
            if isinstance(e, Enum) and e.variant == "Binary":
                b = e.fields[0]
                if isinstance(b, Ref):
                    b = deref_val(ex, cur[0], b)
                if isinstance(b, Struct):
                    f = b.fields
                    op = f.get(bx["operator"])
                    return (op.variant if isinstance(op, Enum) else None), f.get(bx["left"]), f.get(bx["right"])
            return None, None, None

        def conjuncts(e):
            op, l, r = binary(e)
            if op == "And":
                return conjuncts(l) + conjuncts(r)
            return [e]

        def is_var(e, pc):
            return isinstance(e, Enum) and e.variant == "Variable" and same(e.fields[0], alias, pc)

        def guarded_label(e, pc):
            """`alias IS NULL OR alias:label` -> the label term, else None"""
            op, l, r = binary(e)
            if op != "Or":
                return None
            op1, l1, _ = binary(l)
            op2, l2, r2 = binary(r)
            if op1 != "IsNull" or not is_var(l1, pc) or op2 != "HasLabel" or not is_var(l2, pc):
                return None
            if isinstance(r2, Enum) and r2.variant == "Literal" and isinstance(r2.fields[0], Enum) and r2.fields[0].variant == "String":
                return r2.fields[0].fields[0]
            return None

        from .util import struct_fields
        bx = {nm: i for i, nm in enumerate(struct_fields("nervusdb-query/src/ast.rs", "BinaryExpression"))}
        cur = [None]
        for p in paths:
            if p.kind == "panic":
                failed.append("the filter builder can panic on [%s]" % p.signature())
                continue
            if p.kind == "bound":
                raise Unsupported("cut by the loop bound")
            if p.kind != "return":
                continue
            n += 1
            cur[0] = p.st
            ret = p.ret
            if len(sample) < 4:
                sample.append(repr(ret)[:160])
            if nlabels == 0:
                if not (isinstance(ret, Opaque) and ret.name == "input-plan"):
                    failed.append("without labels the plan is not returned unchanged")
                continue
            if not (isinstance(ret, Struct) and ret.name == "Filter" and len(ret.fields) == 2):
                failed.append("the result is not a Filter over the input plan")
                continue
            vals = [deref_val(ex, p.st, v) if isinstance(v, Ref) else v for v in ret.fields.values()]
            inps = [v for v in vals if isinstance(v, Opaque) and v.name == "input-plan"]
            preds = [v for v in vals if isinstance(v, Enum)]
            if len(inps) != 1 or len(preds) != 1:
                failed.append("the Filter does not sit on the input plan")
                continue
            pred = preds[0]
            got = [guarded_label(c, p.pc) for c in conjuncts(pred)]
            if any(g is None for g in got):
                failed.append("the predicate holds a conjunct that is not `alias IS NULL OR alias:label`")
                continue
            for i, l in enumerate(labels):
                if not any(same(g, l, p.pc) for g in got):
                    failed.append("label %d of %d handed to the filter builder has no HasLabel conjunct" % (i + 1, nlabels))
        res = {"paths": n, "queries": ex.queries, "solver_time_s": round(ex.solver_time, 3), "sample": sample, "functions": [fn.header[:110]]}
        if failed:
            res.update({"status": "fail", "failed": sorted(set(failed)), "reason": "; ".join(sorted(set(failed)))[:400]})
        else:
            res["status"] = "pass"
        return res
    return run


def _binding_kind_index():
    import os
    import re
    from .. import mirdump  # noqa: F401
    from ... import common as C
    for rel in ("nervusdb-query/src/query_api.rs", "nervusdb-query/src/query_api/mod.rs"):
        if os.path.exists(os.path.join(C.REPO, rel)) and re.search(r"\benum BindingKind\b", open(os.path.join(C.REPO, rel)).read()):
            return dict(variant_index(rel, "BindingKind"))
    raise Unsupported("enum BindingKind not found")


TARGETS = [{"name": "c15_o2_q_execute_index_seek", "crate": "nervusdb-query", "run": run_seek}] + \
          [{"name": "c15_o4_q_first_label_filter_%dlabels" % k, "crate": "nervusdb-query", "run": run_label_filter(k)} for k in (0, 1, 2, 3)] + \
          [{"name": "c15_o5_q_label_filter_body_%dlabels" % k, "crate": "nervusdb-query", "run": run_label_filter_body(k)} for k in (0, 1, 2, 3)] + \
          [{"name": "c15_o4_t_first_label_filter_%dlabels" % k, "crate": "nervusdb-query", "run": run_label_filter(k)} for k in (4, 5, 6, 8)] + \
          [{"name": "c15_o5_t_label_filter_body_%dlabels" % k, "crate": "nervusdb-query", "run": run_label_filter_body(k)} for k in (4, 5, 6, 8)]
