"""C15-O2: execute_index_seek — the seek value is converted kind-for-kind, unsupported kinds and a missing/empty index answer
fall back to the scan plan, and a non-empty index answer is emitted as exactly those node ids (never mixed with the fallback)."""
import z3

from ..symex import (GENERIC_MODELS, Enum, Exec, Opaque, Ref, State, Struct, Tup, Unsupported, deref_val)
from .util import variant_index


def run_seek(mf, tier):
    fn = mf.find(r"^fn execute_index_seek\(")
    vi = dict(variant_index("nervusdb-query/src/executor/core_types.rs", "Value"))

    def m_compat(ex, st, a, dst, callee):
        return [(Enum("Ok", [Tup([])]), [], "compat=Ok"), (Enum("Err", [Opaque("compat-error")]), [], "compat=Err")]

    def m_default(ex, st, a, dst, callee):
        return [(Opaque("empty-row"), [], None)]

    def m_eval(ex, st, a, dst, callee):
        i, f, b = ex.fresh_bv("i", 64), ex.fresh_fp("f"), ex.fresh_bv("b", 1)
        st.env["$payload"] = {"Int": i, "Float": f, "Bool": b, "String": "s"}
        return [(Enum("Null"), [], "value=Null"), (Enum("Bool", [b]), [], "value=Bool"), (Enum("Int", [i]), [], "value=Int"),
                (Enum("Float", [f]), [], "value=Float"), (Enum("String", [Opaque("s")]), [], "value=String"),
                (Enum("List", [Opaque("l")]), [], "value=List"), (Enum("NodeId", [ex.fresh_bv("n", 32)]), [], "value=NodeId"),
                (Enum("DateTime", [ex.fresh_bv("d", 64)]), [], "value=DateTime")]

    def m_lookup(ex, st, a, dst, callee):
        st.env["$looked_up"] = deref_val(ex, st, a[3])
        return [(Enum("None"), [], "index=None"), (Enum("Some", [Struct("ids", {})]), [], "index=Some")]

    def m_sort(ex, st, a, dst, callee):
        st.env["$sorted"] = True
        return [(Tup([]), [], None)]

    def m_plan(ex, st, a, dst, callee):
        return [(Enum("Dynamic", [Struct("fallback", {0: a[1]})]), [], "fallback plan")]

    def m_opaque(name):
        def f(ex, st, a, dst, callee):
            return [(Struct(name, {0: a[0]} if a else {}), [], None)]
        return f

    def m_box(ex, st, a, dst, callee):
        return [(a[0], [], None)]

    models = GENERIC_MODELS + [(r"^ensure_runtime_expression_compatible::<", m_compat), (r"<Row as Default>::default$", m_default),
                               (r"^evaluate_expression_value::<", m_eval), (r"GraphSnapshot>::lookup_index$", m_lookup),
                               (r"slice::<impl \[u32\]>::sort$", m_sort), (r"execute_plan::<", m_plan),
                               (r"<str as ToString>::to_string$", m_opaque("alias")), (r"as IntoIterator>::into_iter$", m_opaque("into_iter")),
                               (r"as Iterator>::map::<", m_opaque("map")), (r"^once::<|iter::once::<", m_opaque("Once")),
                               (r"Box::<.*>::new$", m_box)]
    ex = Exec(fn, models, bound=2, variant_index=vi)
    st = State()
    for i, nm in ((1, "snapshot"), (6, "fallback-plan"), (7, "params"), (5, "value-expr")):
        st.env["_%d" % i] = Opaque(nm)
    paths = ex.run("bb0", st)
    failed, n = [], 0
    for p in paths:
        if p.kind == "panic":
            failed.append("panic possible on [%s]" % p.signature())
            continue
        if p.kind != "return":
            continue
        n += 1
        ev = p.events
        ret = p.ret
        inner = ret.fields[0] if isinstance(ret, Enum) and ret.variant == "Dynamic" and ret.fields else None
        kind = next((e[6:] for e in ev if e.startswith("value=")), None)
        if "compat=Err" in ev:
            if not (isinstance(inner, Struct) and inner.name == "Once"):
                failed.append("an incompatible seek value does not surface its error on [%s]" % p.signature())
            continue
        is_fallback = isinstance(inner, Struct) and inner.name == "fallback"
        if kind in ("List", "NodeId", "DateTime"):
            if not is_fallback or "index=Some" in ev or "index=None" in ev:
                failed.append("a seek value of kind %s does not go straight to the fallback plan" % kind)
            continue
        looked = p.st.env.get("$looked_up")
        if not isinstance(looked, Enum) or looked.variant != kind:
            failed.append("a %s seek value is looked up as %r" % (kind, looked))
        else:
            pay = p.st.env["$payload"].get(kind)
            if kind in ("Int", "Bool"):
                if not ex.entails(p.pc, looked.fields[0] == pay):
                    failed.append("the %s seek value is changed before the index lookup" % kind)
            elif kind == "Float":
                if not ex.entails(p.pc, z3.fpToIEEEBV(looked.fields[0]) == z3.fpToIEEEBV(pay)):
                    failed.append("the Float seek value is changed before the index lookup")
        if "index=None" in ev:
            if not is_fallback:
                failed.append("a missing / empty index answer does not fall back to the scan plan")
            elif not (isinstance(inner.fields[0], Opaque) and inner.fields[0].name == "fallback-plan"):
                failed.append("the fallback executes something other than the fallback plan")
        elif "index=Some" in ev:
            if is_fallback or "fallback plan" in ev:
                failed.append("a non-empty index answer is mixed with / replaced by the fallback plan")
            if not p.st.env.get("$sorted"):
                failed.append("index answers are emitted without sorting the node ids")
        else:
            failed.append("no index lookup on [%s]" % p.signature())
    res = {"paths": n, "queries": ex.queries, "solver_time_s": round(ex.solver_time, 3),
           "sample": [p.signature() + " => " + repr(p.ret)[:50] for p in paths if p.kind == "return"][:8], "functions": [fn.header[:110]]}
    if failed:
        res.update({"status": "fail", "failed": sorted(set(failed)), "reason": "; ".join(sorted(set(failed)))[:400]})
    else:
        res["status"] = "pass"
    return res


TARGETS = [{"name": "c15_o2_q_execute_index_seek", "crate": "nervusdb-query", "run": run_seek}]
