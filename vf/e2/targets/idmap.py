"""IdMap::apply_create_node_multi_label — C04-O1 (what is persisted determines what reopen rebuilds) and C18-O2 (the node table
allocates exactly one page, when it has none, and writes records relative to it)."""
import re

import z3

from .. import witness
from ..symex import (FALSE, GENERIC_MODELS, TRUE, Enum, Exec, Opaque, PyVec, Ref, State, Struct, SymEnum, Tup, Unsupported, bv, deref_val)


def sort_network(xs):
    xs = list(xs)
    n = len(xs)
    for i in range(n):
        for j in range(n - 1 - i):
            a, b = xs[j], xs[j + 1]
            xs[j], xs[j + 1] = z3.If(z3.ULE(a, b), a, b), z3.If(z3.ULE(a, b), b, a)
    return xs


def explore(mf, nlabels):
    fn = mf.find(r"^fn idmap::<impl at [^>]*>::apply_create_node_multi_label\(")

    def m_next_id(ex, st, a, dst, callee):
        m = deref_val(ex, st, a[0])
        ln = m.fields[4]
        return [(z3.Extract(31, 0, ln), [], None)]

    def m_contains(ex, st, a, dst, callee):
        return [(FALSE, [], "external id is new"), (TRUE, [], "external id exists")]

    def m_sort(ex, st, a, dst, callee):
        v = deref_val(ex, st, a[0])
        if not isinstance(v, PyVec):
            return None
        ex._write(st, a[0].root, list(a[0].projs), PyVec(sort_network(v.items)))
        return [(Tup([]), [], None)]

    def m_dedup(ex, st, a, dst, callee):
        v = deref_val(ex, st, a[0])
        if not isinstance(v, PyVec):
            return None
        items = v.items
        # fork over which adjacent (sorted) elements are equal
        alts = [([], [], "")]
        for i, x in enumerate(items):
            new = []
            for kept, cons, tag in alts:
                if not kept:
                    new.append(([x], cons, tag))
                else:
                    new.append((kept, cons + [kept[-1] == x], tag + "=" ))
                    new.append((kept + [x], cons + [kept[-1] != x], tag + "<"))
            alts = new
        out = []
        for kept, cons, tag in alts:
            out.append((("SETVEC", a[0], PyVec(kept)), cons, "labels after dedup: %d" % len(kept)))
        return out

    def m_first(ex, st, a, dst, callee):
        v = deref_val(ex, st, a[0])
        if not isinstance(v, PyVec):
            return None
        return [(Enum("Some", [v.items[0]]) if v.items else Enum("None"), [], None)]

    def m_copied(ex, st, a, dst, callee):
        return [(a[0], [], None)]

    def m_unwrap_or(ex, st, a, dst, callee):
        v = a[0]
        if isinstance(v, Enum) and v.variant == "Some":
            return [(v.fields[0], [], None)]
        if isinstance(v, Enum) and v.variant == "None":
            return [(a[1], [], None)]
        return None

    def m_alloc(ex, st, a, dst, callee):
        st.env["$allocs"] = st.env.get("$allocs", 0) + 1
        p = ex.fresh_bv("allocated_page", 64)
        st.env["$allocated"] = p
        return [(Enum("Ok", [p]), [], "allocate_page")]

    def m_ok_unit(name):
        def f(ex, st, a, dst, callee):
            st.env["$" + name] = a[1] if len(a) > 1 else None
            return [(Enum("Ok", [Tup([])]), [], None)]
        return f

    def m_write_rec(ex, st, a, dst, callee):
        st.env["$written"] = (a[1], a[2], a[3])
        st.env["$writes"] = st.env.get("$writes", 0) + 1
        return [(Enum("Ok", [Tup([])]), [], "write_i2e_record")]

    def m_hm_insert(ex, st, a, dst, callee):
        return [(Enum("None"), [], None)]

    def m_clone(ex, st, a, dst, callee):
        return [(deref_val(ex, st, a[0]), [], None)]

    models = [(r"IdMap::next_internal_id$", m_next_id), (r"HashMap::<u64, u32>::contains_key::<u64>$", m_contains),
              (r"slice::<impl \[u32\]>::sort_unstable$", m_sort), (r"Vec::<u32>::dedup$", m_dedup),
              (r"slice::<impl \[u32\]>::first$", m_first), (r"Option::<&u32>::copied$", m_copied), (r"Option::<u32>::unwrap_or$", m_unwrap_or),
              (r"Pager::allocate_page$", m_alloc), (r"Pager::set_i2e_start_page$", m_ok_unit("set_start")),
              (r"Pager::set_i2e_len$", m_ok_unit("set_len")), (r"Pager::set_next_internal_id$", m_ok_unit("set_next")),
              (r"^write_i2e_record$|idmap::write_i2e_record$", m_write_rec), (r"HashMap::<u64, u32>::insert$", m_hm_insert),
              (r"<Vec<u32> as Clone>::clone$", m_clone)] + GENERIC_MODELS

    class E(Exec):
        def write(self, st, place, val):
            if isinstance(val, tuple) and val and val[0] == "SETVEC":
                _, ref, newv = val
                self._write(st, ref.root, list(ref.projs), newv)
                val = Tup([])
            return super().write(st, place, val)

    ex = E(fn, models, bound=2)
    st = State()
    ln = ex.fresh_bv("i2e_len", 64)
    start = ex.fresh_bv("existing_start", 64)
    st.env["$idmap"] = Struct("IdMap", {0: Opaque("e2i"), 1: PyVec(), 2: PyVec(),
                                        3: SymEnum("i2e_start", [("None", []), ("Some", [lambda e, s: start])]), 4: ln})
    st.env["_1"] = Ref("$idmap")
    st.env["_2"] = Opaque("pager")
    st.env["_3"] = ex.fresh_bv("external_id", 64)
    labels = [ex.fresh_bv("label%d" % i, 32) for i in range(nlabels)]
    st.env["_4"] = PyVec(labels)
    st.env["_5"] = z3.Extract(31, 0, ln)
    st.pc.append(z3.ULT(ln, bv(1 << 31, 64)))
    paths = ex.run("bb0", st)
    return fn, ex, paths, labels, start


def run_c04(nlabels):
    def run(mf, tier):
        fn, ex, paths, labels, start = explore(mf, nlabels)
        failed, n = [], 0
        for p in paths:
            if p.kind == "panic":
                failed.append("panic possible on [%s]" % p.signature())
                continue
            if p.kind != "return" or not (isinstance(p.ret, Enum) and p.ret.variant == "Ok"):
                continue
            n += 1
            idmap = p.st.env["$idmap"]
            mem_lists = idmap.fields[1].items
            mem_recs = idmap.fields[2].items
            written = p.st.env.get("$written")
            if written is None or len(mem_lists) != 1 or len(mem_recs) != 1:
                failed.append("node created without exactly one persisted record / one in-memory entry on [%s]" % p.signature())
                continue
            rec = written[2]
            mem = mem_lists[0].items
            # reopen rebuilds the label list from the persisted record alone: [record.label_id]
            if len(mem) != 1:
                failed.append("a node created with %d distinct labels persists only its first label in the node record (reopen after a checkpoint rebuilds 1 label)" % len(mem))
            elif not ex.entails(p.pc, mem[0] == rec.fields[1]):
                failed.append("the persisted label differs from the in-memory label on [%s]" % p.signature())
            if not ex.entails(p.pc, rec.fields[0] == p.st.env["_3"]):
                failed.append("the persisted external id differs from the created node's external id")
            if not ex.entails(p.pc, z3.And(mem_recs[0].fields[0] == rec.fields[0], mem_recs[0].fields[1] == rec.fields[1])):
                failed.append("the in-memory node record differs from the persisted node record")
        res = {"paths": n, "queries": ex.queries, "solver_time_s": round(ex.solver_time, 3),
               "sample": [p.signature() + " => " + repr(p.ret)[:30] for p in paths if p.kind == "return"][:8], "functions": [fn.header[:120]]}
        if failed:
            res.update({"status": "fail", "failed": sorted(set(failed)), "reason": "; ".join(sorted(set(failed)))[:400]})
            if any("persists only its first label" in f for f in failed):
                rep, lines = witness.run(["multilabel-reopen", str(nlabels)])
                res["witness_text"] = ["public-API replay: CREATE a node with %d labels, compact(), close(), reopen, count labels" % nlabels] + lines
                res["reproduced"] = rep
        else:
            res["status"] = "pass"
        return res
    return run


def run_c18(mf, tier):
    fn, ex, paths, labels, start = explore(mf, 1)
    failed, n = [], 0
    for p in paths:
        if p.kind != "return" or not (isinstance(p.ret, Enum) and p.ret.variant == "Ok"):
            continue
        n += 1
        had_start = "i2e_start is Some" in " ".join(p.events) or any(e.endswith("is Some") for e in p.events)
        allocs = p.st.env.get("$allocs", 0)
        written = p.st.env.get("$written")
        if had_start and allocs != 0:
            failed.append("the node table allocates another page although it already has a start page")
        if not had_start and allocs != 1:
            failed.append("the node table does not allocate exactly one page when it has none (allocations: %d)" % allocs)
        if written is None or p.st.env.get("$writes", 0) != 1:
            failed.append("not exactly one node record is written")
            continue
        want = start if had_start else p.st.env["$allocated"]
        if not ex.entails(p.pc, written[0] == want):
            failed.append("the node record is written relative to a page other than the table's start page")
        idmap = p.st.env["$idmap"]
        s3 = idmap.fields[3]
        if not (isinstance(s3, Enum) and s3.variant == "Some" and ex.entails(p.pc, s3.fields[0] == want)):
            failed.append("the table's start page is not remembered after the first node")
        if not ex.entails(p.pc, written[1] == z3.ZeroExt(32, p.st.env["_5"])):
            failed.append("the node record is written at an index other than the node's internal id")
    res = {"paths": n, "queries": ex.queries, "solver_time_s": round(ex.solver_time, 3),
           "sample": [p.signature() for p in paths if p.kind == "return"][:8], "functions": [fn.header[:120]]}
    if failed:
        res.update({"status": "fail", "failed": sorted(set(failed)), "reason": "; ".join(sorted(set(failed)))[:400]})
    else:
        res["status"] = "pass"
    return res


def run_load(lengths):
    """C04-O3 / C32-O2: IdMap::load rebuilds the node table from the pages: for a table of N records it returns exactly N entries,
    entry i decoded from page start + i/512 at offset (i % 512) * 16, maps every non-zero external id to its position and hands out
    N as the next internal id - for N next to the page boundary (511, 512, 513) as well."""
    def run(mf, tier):
        from ..bytesmodel import BYTES_MODELS, buf_of
        from ..vecmodel import VEC_MODELS
        from ..symex import STD_CMP_MODELS
        PAGE = 8192
        fn = mf.find(r"idmap\.rs[^>]*>::load\(_1: &mut Pager")
        failed, n, queries, stime = [], 0, 0, 0.0
        for N in lengths:
            # two node-table pages: a fixed pattern with symbolic records at the interesting slots
            sym_slots = sorted({0, 1, 510, 511, 512, N - 1} & set(range(max(N, 1))))
            recs = {}
            pages = {4: [], 5: []}
            for i in range(1024):
                if i in sym_slots:
                    ext, lab, fl = z3.BitVec("ext%d" % i, 64), z3.BitVec("label%d" % i, 32), z3.BitVec("flags%d" % i, 32)
                else:
                    ext, lab, fl = bv(1000 + i, 64), bv(i % 5, 32), bv(0, 32)
                recs[i] = (ext, lab, fl)
                bs = [z3.simplify(z3.Extract(8 * k + 7, 8 * k, ext)) for k in range(8)] + [z3.simplify(z3.Extract(8 * k + 7, 8 * k, lab)) for k in range(4)] + \
                     [z3.simplify(z3.Extract(8 * k + 7, 8 * k, fl)) for k in range(4)]
                pages[4 + i // 512] += bs

            def m_start(ex, st, a, dst, callee):
                return [(Enum("Some", [Struct("PageId", {0: bv(4, 64)})]), [], None)]

            def m_len(ex, st, a, dst, callee, N=N):
                return [(bv(N, 64), [], None)]

            def m_read_page(ex, st, a, dst, callee):
                pid = a[1]
                for _ in range(3):
                    if isinstance(pid, Ref):
                        pid = deref_val(ex, st, pid)
                    if isinstance(pid, (Struct, Enum)) and len(pid.fields) == 1:
                        pid = pid.fields[0]
                pid = z3.simplify(pid)
                if not z3.is_bv_value(pid) or pid.as_long() not in pages:
                    return [(Enum("Err", [Enum("PageNotAllocated", [pid])]), [], "read of page %s" % pid)]
                return [(Enum("Ok", [PyVec(list(pages[pid.as_long()]))]), [], None)]

            def m_map_new(ex, st, a, dst, callee):
                return [(PyVec(), [], None)]

            def m_map_insert(ex, st, a, dst, callee):
                v = deref_val(ex, st, a[0])
                ex._write(st, a[0].root, list(a[0].projs), PyVec(list(v.items) + [Tup([a[1], a[2]])]))
                return [(Enum("None"), [], None)]
            models = [(r"^Pager::i2e_start_page$", m_start), (r"^Pager::i2e_len$", m_len), (r"^Pager::read_page$", m_read_page),
                      (r"^HashMap::<u64, u32>::with_capacity$", m_map_new), (r"^HashMap::<u64, u32>::insert$", m_map_insert)] + \
                BYTES_MODELS + VEC_MODELS + STD_CMP_MODELS + GENERIC_MODELS
            st = State()
            st.env["_1"] = Opaque("pager")
            ex = Exec(fn, models, bound=N + 4, mf=mf, inline=r".", max_paths=2000)
            for p in ex.run("bb0", st):
                if p.kind == "panic":
                    failed.append("IdMap::load can panic for a table of %d records: %s" % (N, str(p.info)[:60]))
                    continue
                if p.kind == "bound":
                    raise Unsupported("IdMap::load cut by the loop bound")
                if p.kind != "return":
                    continue
                n += 1
                if not (isinstance(p.ret, Enum) and p.ret.variant == "Ok"):
                    failed.append("IdMap::load fails for a table of %d records" % N)
                    continue
                idm = p.ret.fields[0]
                e2i, i2l, i2e, ilen = idm.fields[0], idm.fields[1], idm.fields[2], idm.fields[4]
                if not ex.entails(p.pc, ilen == N):
                    failed.append("the loaded table does not report the stored record count (next internal id) for N = %d" % N)
                if len(i2e.items) != N or len(i2l.items) != N:
                    failed.append("a table of %d records is loaded as %d records / %d label lists" % (N, len(i2e.items), len(i2l.items)))
                    continue
                for i in sorted(set(sym_slots) | {N // 2}):
                    if i >= N:
                        continue
                    r = i2e.items[i]
                    ext, lab, fl = recs[i]
                    if not ex.entails(p.pc, z3.And(r.fields[0] == ext, r.fields[1] == lab, r.fields[2] == fl)):
                        failed.append("record %d of a %d-record table is not decoded from its slot (page start + i/512, offset (i %% 512) * 16)" % (i, N))
                    ls = i2l.items[i]
                    if not (isinstance(ls, PyVec) and len(ls.items) == 1 and ex.entails(p.pc, ls.items[0] == lab)):
                        failed.append("the label list of node %d is not rebuilt from its record" % i)
                    hits = [kv for kv in e2i.items if ex.entails(p.pc, z3.And(kv.fields[0] == ext, kv.fields[1] == i))]
                    if not hits and ex.feasible(p.pc, ext != 0):
                        failed.append("a stored external id is not mapped back to its internal id after load (record %d of %d)" % (i, N))
            queries += ex.queries
            stime += ex.solver_time
        res = {"paths": n, "queries": queries, "solver_time_s": round(stime, 3),
               "sample": ["node tables of %s records over two pages; records 0, 1, 510, 511, 512, N-1 symbolic, the rest a fixed pattern" % (list(lengths),)],
               "functions": ["idmap::IdMap::load, idmap::read_i2e_record, idmap::i2e_location, I2eRecord::decode"]}
        if failed:
            res.update({"status": "fail", "failed": sorted(set(failed)), "reason": "; ".join(sorted(set(failed)))[:500]})
        else:
            res["status"] = "pass"
        return res
    return run


TARGETS = [
    {"name": "c04_o3_q_node_table_load_around_page_boundary", "crate": "nervusdb-storage", "run": run_load([0, 1, 2, 512])},
    {"name": "c32_o2_q_node_table_load_around_page_boundary", "crate": "nervusdb-storage", "run": run_load([0, 1, 2, 512])},
    {"name": "c04_o3_t_node_table_load_more_lengths", "crate": "nervusdb-storage", "run": run_load([3, 511, 513, 1024])},
    {"name": "c04_o1_q_create_node_one_label_persisted", "crate": "nervusdb-storage", "run": run_c04(1)},
    {"name": "c04_o1_q_create_node_two_labels_persisted", "crate": "nervusdb-storage", "run": run_c04(2)},
    {"name": "c04_o1_t_create_node_three_labels_persisted", "crate": "nervusdb-storage", "run": run_c04(3)},
    {"name": "c18_o2_q_node_table_allocates_one_page", "crate": "nervusdb-storage", "run": run_c18},
]
