"""C26 through E2: the real B-tree page kernels executed on a symbolic page image (8192 8-bit terms), every crate-local callee
inlined (read_u16_le, slot_get, read_varint_u32, ...). Keys and payloads are symbolic; cell positions are concrete because key
lengths are concrete."""
import re

import z3

from ..symex import (FALSE, GENERIC_MODELS, STD_CMP_MODELS, TRUE, Enum, Exec, Opaque, PyVec, Ref, State, Struct, Tup, Unsupported, bv,
                     deref_val, subcall)
from ..bytesmodel import BYTES_MODELS, buf_of

PAGE = 8192
MODELS = BYTES_MODELS + STD_CMP_MODELS + GENERIC_MODELS


def clear_locals(st):
    for k in [k for k in st.env if re.match(r"^_\d+(@\d+)?$", k)]:
        del st.env[k]
    st.visits = {}
    st.frames = []


def call(mf, fn_regex, args, st, bound=12, extra_models=None, vi=None):
    """Run one real function on state `st` (forked); returns the list of terminated paths."""
    fn = mf.find(fn_regex)
    ex = Exec(fn, (extra_models or []) + MODELS, bound=bound, mf=mf, inline=r".", max_paths=4000,
              variant_index=vi or {"Leaf": 0, "Internal": 1, "WalProtocol": 7})
    s2 = st.fork()
    clear_locals(s2)
    for i, v in enumerate(args):
        s2.env["_%d" % (i + 1)] = v
    paths = ex.run("bb0", s2)
    call.queries += ex.queries
    call.solver_time += ex.solver_time
    call.inlined |= ex.inlined
    return ex, paths


call.queries, call.solver_time, call.inlined = 0, 0.0, set()

IMPL = r"^fn btree::<impl at [^>]*>::"


def ok_paths(paths, what):
    out = []
    for p in paths:
        if p.kind == "panic":
            raise AssertionError("%s can panic: %s" % (what, p.info[:80]))
        if p.kind == "bound":
            raise Unsupported("%s cut by the loop bound" % what)
        if p.kind == "return":
            out.append(p)
    return out


def new_page(st, name):
    st.env["$buf_" + name] = PyVec([bv(0, 8)] * PAGE)
    st.env["$page_" + name] = Struct("Page", {0: Ref("$buf_" + name)})
    return Ref("$page_" + name)


def build_leaf(mf, st, name, keys, payloads):
    """init_leaf + leaf_insert_at(i, [key_i], payload_i) in order, on the real code; returns the states (one per feasible path)."""
    page = new_page(st, name)
    ex, paths = call(mf, IMPL + r"init_leaf\(", [page], st)
    states = [p.st for p in ok_paths(paths, "init_leaf")]
    for i, (k, v) in enumerate(zip(keys, payloads)):
        nxt = []
        for s in states:
            s.env["$key_%s_%d" % (name, i)] = PyVec([k])
            ex, paths = call(mf, IMPL + r"leaf_insert_at\(", [page, bv(i, 64), Ref("$key_%s_%d" % (name, i)), v], s)
            for p in ok_paths(paths, "leaf_insert_at"):
                if not (isinstance(p.ret, Enum) and p.ret.variant == "Ok"):
                    raise Unsupported("leaf_insert_at failed while building the page: %r" % (p.ret,))
                nxt.append(p.st)
        states = nxt
    return page, states


def run_lower_bound(nkeys):
    def run(mf, tier):
        call.queries, call.solver_time, call.inlined = 0, 0.0, set()
        st = State()
        ks = [z3.BitVec("k%d" % i, 8) for i in range(nkeys)]
        ps = [z3.BitVec("p%d" % i, 64) for i in range(nkeys)]
        t = z3.BitVec("t", 8)
        for a, b in zip(ks, ks[1:]):
            st.pc.append(z3.ULE(a, b))
        page, states = build_leaf(mf, st, "a", ks, ps)
        failed, n = [], 0
        for s in states:
            s.env["$target"] = PyVec([t])
            ex, paths = call(mf, IMPL + r"leaf_lower_bound\(", [page, Ref("$target")], s)
            for p in ok_paths(paths, "leaf_lower_bound"):
                n += 1
                if not (isinstance(p.ret, Enum) and p.ret.variant == "Ok"):
                    failed.append("leaf_lower_bound fails on a well-formed leaf: %r" % (p.ret,))
                    continue
                want = sum([z3.If(z3.ULT(k, t), bv(1, 64), bv(0, 64)) for k in ks], bv(0, 64))
                if ex.feasible(p.pc, p.ret.fields[0] != want):
                    m = ex.model(p.pc, p.ret.fields[0] != want)
                    failed.append("leaf_lower_bound is not the number of keys below the target, e.g. keys %s target %s" % (
                        [m.eval(k, model_completion=True).as_long() for k in ks], m.eval(t, model_completion=True).as_long()))
        res = {"paths": n, "queries": call.queries, "solver_time_s": round(call.solver_time, 3),
               "sample": ["%d sorted symbolic 1-byte keys, symbolic target; inlined: %s" % (nkeys, ", ".join(sorted(x.split("::")[-1] for x in call.inlined))[:160])],
               "functions": ["index::btree::Page::{init_leaf, leaf_insert_at, leaf_lower_bound} + helpers"]}
        if failed:
            res.update({"status": "fail", "failed": sorted({re.sub(r", e\.g\. .*$", "", f) for f in failed}), "reason": "; ".join(sorted(set(failed)))[:400],
                        "witness_text": sorted(set(failed))[:4]})
        else:
            res["status"] = "pass"
        return res
    return run


def read_cells(mf, page, st, n):
    """[(key bytes, payload)] of cells 0..n-1 read back through the real leaf_cell_key_and_payload; raises if a read can fail."""
    states = [(st, [])]
    for i in range(n):
        nxt = []
        for s, acc in states:
            ex, paths = call(mf, IMPL + r"leaf_cell_key_and_payload\(", [page, bv(i, 64)], s)
            for p in ok_paths(paths, "leaf_cell_key_and_payload"):
                if not (isinstance(p.ret, Enum) and p.ret.variant == "Ok"):
                    raise AssertionError("cell %d cannot be read back: %r" % (i, p.ret))
                tup = p.ret.fields[0]
                key = tup.fields[0]
                nxt.append((p.st, acc + [(buf_of(ex, p.st, key).items, tup.fields[1])]))
        states = nxt
    return states


def cell_count_of(mf, page, st):
    ex, paths = call(mf, IMPL + r"cell_count\(", [page], st)
    ps = ok_paths(paths, "cell_count")
    if len(ps) != 1:
        raise Unsupported("cell_count forked")
    return ps[0].ret


def run_insert(nkeys):
    def run(mf, tier):
        call.queries, call.solver_time, call.inlined = 0, 0.0, set()
        st = State()
        ks = [z3.BitVec("k%d" % i, 8) for i in range(nkeys)]
        ps = [z3.BitVec("p%d" % i, 64) for i in range(nkeys)]
        t, pn = z3.BitVec("t", 8), z3.BitVec("p_new", 64)
        for a, b in zip(ks, ks[1:]):
            st.pc.append(z3.ULE(a, b))
        page, states = build_leaf(mf, st, "a", ks, ps)
        failed, n = [], 0
        try:
            for s in states:
                s.env["$target"] = PyVec([t])
                ex, paths = call(mf, IMPL + r"leaf_lower_bound\(", [page, Ref("$target")], s)
                for p in ok_paths(paths, "leaf_lower_bound"):
                    idx = p.ret.fields[0]
                    for j in range(nkeys + 1):
                        if not ex.feasible(p.pc, idx == j):
                            continue
                        s2 = p.st.fork()
                        s2.pc.append(idx == j)
                        ex2, paths2 = call(mf, IMPL + r"leaf_insert_at\(", [page, bv(j, 64), Ref("$target"), pn], s2)
                        for p2 in ok_paths(paths2, "leaf_insert_at"):
                            n += 1
                            if not (isinstance(p2.ret, Enum) and p2.ret.variant == "Ok"):
                                failed.append("inserting into a leaf with free space fails: %r" % (p2.ret,))
                                continue
                            cnt = cell_count_of(mf, page, p2.st)
                            if not ex2.entails(p2.pc, cnt == nkeys + 1):
                                failed.append("insert does not add exactly one cell")
                                continue
                            for s3, cells in read_cells(mf, page, p2.st, nkeys + 1):
                                want = [([ks[i]], ps[i]) for i in range(j)] + [([t], pn)] + [([ks[i]], ps[i]) for i in range(j, nkeys)]
                                for pos, ((kb, pv), (wk, wp)) in enumerate(zip(cells, want)):
                                    same = z3.And(len(kb) == 1, kb[0] == wk[0], pv == wp) if len(kb) == 1 else z3.BoolVal(False)
                                    if not ex2.entails(s3.pc, same):
                                        failed.append("after inserting at its lower bound, cell %d of the leaf is not the expected (key,payload) pair "
                                                      "(new pair first among equal keys, every other pair kept in order)" % pos)
                                for (ka, _), (kb2, _) in zip(cells, cells[1:]):
                                    if not ex2.entails(s3.pc, z3.ULE(ka[0], kb2[0])):
                                        failed.append("leaf keys are not sorted after an insert at the lower bound")
        except AssertionError as e:
            failed.append(str(e))
        res = {"paths": n, "queries": call.queries, "solver_time_s": round(call.solver_time, 3),
               "sample": ["%d sorted symbolic keys + symbolic new (key,payload); insert position = the real leaf_lower_bound" % nkeys],
               "functions": ["index::btree::Page::{leaf_lower_bound, leaf_insert_at, shift_slots_right, leaf_cell_key_and_payload} + helpers"]}
        if failed:
            res.update({"status": "fail", "failed": sorted(set(failed)), "reason": "; ".join(sorted(set(failed)))[:400]})
        else:
            res["status"] = "pass"
        return res
    return run


def run_delete_cell(nkeys):
    def run(mf, tier):
        call.queries, call.solver_time, call.inlined = 0, 0.0, set()
        st = State()
        ks = [z3.BitVec("k%d" % i, 8) for i in range(nkeys)]
        ps = [z3.BitVec("p%d" % i, 64) for i in range(nkeys)]
        for a, b in zip(ks, ks[1:]):
            st.pc.append(z3.ULE(a, b))
        page, states = build_leaf(mf, st, "a", ks, ps)
        failed, n = [], 0
        try:
            for s in states:
                for j in range(nkeys):
                    ex, paths = call(mf, IMPL + r"delete_from_leaf\(", [page, bv(j, 64)], s)
                    for p in ok_paths(paths, "delete_from_leaf"):
                        n += 1
                        if not (isinstance(p.ret, Enum) and p.ret.variant == "Ok"):
                            failed.append("deleting an existing cell fails: %r" % (p.ret,))
                            continue
                        cnt = cell_count_of(mf, page, p.st)
                        if not ex.entails(p.pc, cnt == nkeys - 1):
                            failed.append("delete does not remove exactly one cell")
                            continue
                        for s3, cells in read_cells(mf, page, p.st, nkeys - 1):
                            want = [(ks[i], ps[i]) for i in range(nkeys) if i != j]
                            for pos, ((kb, pv), (wk, wp)) in enumerate(zip(cells, want)):
                                if not (len(kb) == 1 and ex.entails(s3.pc, z3.And(kb[0] == wk, pv == wp))):
                                    failed.append("after deleting cell %d, cell %d is not the pair that was stored next to it" % (j, pos))
        except AssertionError as e:
            failed.append(str(e))
        res = {"paths": n, "queries": call.queries, "solver_time_s": round(call.solver_time, 3),
               "sample": ["%d symbolic cells, every delete position" % nkeys], "functions": ["index::btree::Page::{delete_from_leaf, shift_slots_left} + helpers"]}
        if failed:
            res.update({"status": "fail", "failed": sorted(set(failed)), "reason": "; ".join(sorted(set(failed)))[:400]})
        else:
            res["status"] = "pass"
        return res
    return run


def page_id(n):
    return Struct("PageId", {0: bv(n, 64)})


def pid_val(v):
    if isinstance(v, (Struct, Enum)) and len(v.fields) == 1:
        return v.fields[0]
    return v


def run_descent(distinct):
    def run(mf, tier):
        call.queries, call.solver_time, call.inlined = 0, 0.0, set()
        st = State()
        a, b, c, d, t = [z3.BitVec(x, 8) for x in ("a", "b", "c", "d", "t")]
        st.pc += [z3.ULE(a, b), z3.ULE(b, c), z3.ULE(c, d)]
        if distinct:
            st.pc.append(z3.ULT(b, c))      # the split separated distinct keys
        page = new_page(st, "root")
        ex, paths = call(mf, IMPL + r"init_internal\(", [page, page_id(10)], st)
        states = [p.st for p in ok_paths(paths, "init_internal")]
        nxt = []
        for s in states:
            s.env["$sep"] = PyVec([c])          # separator = first key of the right leaf, as BTree::insert's split sets it
            ex, paths = call(mf, IMPL + r"internal_insert_at\(", [page, bv(0, 64), Ref("$sep"), page_id(11)], s)
            for p in ok_paths(paths, "internal_insert_at"):
                if not (isinstance(p.ret, Enum) and p.ret.variant == "Ok"):
                    raise Unsupported("internal_insert_at failed: %r" % (p.ret,))
                nxt.append(p.st)
        failed, n = [], 0
        for s in nxt:
            s.env["$target"] = PyVec([t])
            ex, paths = call(mf, IMPL + r"internal_child_for_key\(", [page, Ref("$target")], s)
            for p in ok_paths(paths, "internal_child_for_key"):
                n += 1
                if not (isinstance(p.ret, Enum) and p.ret.variant == "Ok"):
                    failed.append("descent fails on a well-formed internal page: %r" % (p.ret,))
                    continue
                child = pid_val(p.ret.fields[0].fields[0])
                # left leaf holds [a, b], right leaf [c, d]; a cursor positioned in the right leaf never sees the left leaf again,
                # so whenever the left leaf holds an entry >= target (b >= t) the descent must go left (page 10)
                bad = z3.And(z3.UGE(b, t), child != 10)
                if ex.feasible(p.pc, bad):
                    m = ex.model(p.pc, bad)
                    vals = {x: m.eval(v, model_completion=True).as_long() for x, v in (("a", a), ("b", b), ("c", c), ("d", d), ("t", t))}
                    failed.append("after a split into [a,b | c,d] with separator c, the descent for a target that still has an entry in the left leaf "
                                  "goes right (that entry is never found), e.g. %s" % vals)
                if not ex.entails(p.pc, z3.Or(child == 10, child == 11)):
                    failed.append("descent returns a page that is not a child of the internal page")
        res = {"paths": n, "queries": call.queries, "solver_time_s": round(call.solver_time, 3),
               "sample": ["two-level tree [a,b | c,d], separator c, all five bytes symbolic%s" % (", b < c" if distinct else "")],
               "functions": ["index::btree::Page::{init_internal, internal_insert_at, internal_child_for_key} + helpers"]}
        if failed:
            res.update({"status": "fail", "failed": sorted({re.sub(r", e\.g\. .*$", "", f) for f in failed}), "reason": "; ".join(sorted(set(failed)))[:400],
                        "witness_text": sorted(set(failed))[:3]})
        else:
            res["status"] = "pass"
        return res
    return run


# ---------------------------------------------------------------- BTree::delete on a page store
def store_models(store_key="$store"):
    def m_read_page(ex, st, a, dst, callee):
        pid = z3.simplify(pid_val(a[1]))
        if not z3.is_bv_value(pid):
            raise Unsupported("read_page of a symbolic page id")
        img = st.env.get("%s_%d" % (store_key, pid.as_long()))
        if img is None:
            return [(Enum("Err", [Enum("PageNotAllocated", [pid])]), [], "read_page(%d) -> not allocated" % pid.as_long())]
        return [(Enum("Ok", [img]), [], None)]

    def m_write_page(ex, st, a, dst, callee):
        pid = z3.simplify(pid_val(a[1]))
        if not z3.is_bv_value(pid):
            raise Unsupported("write_page of a symbolic page id")
        img = deref_val(ex, st, a[2]) if isinstance(a[2], Ref) else a[2]
        st.env["%s_%d" % (store_key, pid.as_long())] = img
        st.env["$writes"] = st.env.get("$writes", []) + [pid.as_long()]
        return [(Enum("Ok", [Tup([])]), [], None)]

    def m_range_collect(ex, st, a, dst, callee):
        r = a[0]
        if not (isinstance(r, Struct) and r.name == "Range"):
            return None
        s0, e0 = z3.simplify(r.fields[0]), z3.simplify(r.fields[1])
        if not (z3.is_bv_value(s0) and z3.is_bv_value(e0)):
            raise Unsupported("collect of a symbolic range")
        return [(PyVec([bv(i, 64) for i in range(s0.as_long(), e0.as_long())]), [], None)]

    def m_binary_search_by(ex, st, a, dst, callee):
        """std's slice::binary_search_by (the branch-light version of current std) with the crate-local comparator closure executed for every probe."""
        m = re.search(r"\{closure@([^}]*)\}", callee)
        vec = deref_val(ex, st, a[0]) if isinstance(a[0], Ref) else a[0]
        if not m or not isinstance(vec, PyVec):
            return None
        fn = ex.mf.resolve_closure(m.group(1))
        if fn is None:
            return None
        clos = a[1]
        st.env["$bs_closure"] = clos
        items = vec.items
        results = []

        def probe(i, cons):
            st.env["$bs_elem"] = items[i]
            s2 = st.fork()
            s2.pc += cons
            r = subcall(ex, s2, fn, [Ref("$bs_closure"), Ref("$bs_elem")])
            if isinstance(r, str):
                raise Unsupported("comparator closure can panic: " + r)
            return [(val.variant, cons + extra) for val, extra in r]

        def go(base, size, cons):
            if size == 0:
                results.append((Enum("Err", [bv(0, 64)]), cons, None))
                return
            if size > 1:
                half = size // 2
                mid = base + half
                for o, c2 in probe(mid, cons):
                    go(base if o == "Greater" else mid, size - half, c2)
                return
            for o, c2 in probe(base, cons):
                if o == "Equal":
                    results.append((Enum("Ok", [bv(base, 64)]), c2, None))
                else:
                    results.append((Enum("Err", [bv(base + (1 if o == "Less" else 0), 64)]), c2, None))
        go(0, len(items), [])
        return results

    def m_tuple_cmp(ex, st, a, dst, callee):
        """<(&[u8], u64) as Ord>::cmp: lexicographic on (bytes, integer)."""
        from ..bytesmodel import lex_eq, lex_lt
        x = deref_val(ex, st, a[0]) if isinstance(a[0], Ref) else a[0]
        y = deref_val(ex, st, a[1]) if isinstance(a[1], Ref) else a[1]
        if not (isinstance(x, Tup) and isinstance(y, Tup)):
            return None
        xb, yb = buf_of(ex, st, x.fields[0]).items, buf_of(ex, st, y.fields[0]).items
        xv, yv = x.fields[1], y.fields[1]
        lt = z3.Or(lex_lt(xb, yb), z3.And(lex_eq(xb, yb), z3.ULT(xv, yv)))
        eq = z3.And(lex_eq(xb, yb), xv == yv)
        return [(Enum("Less"), [lt], None), (Enum("Equal"), [eq], None), (Enum("Greater"), [z3.Not(z3.Or(lt, eq))], None)]

    return [(r"Pager::read_page$", m_read_page), (r"Pager::write_page$", m_write_page),
            (r"<std::ops::Range<usize> as Iterator>::collect::<Vec<usize>>$", m_range_collect),
            (r"slice::<impl \[.*\]>::binary_search_by::<", m_binary_search_by),
            (r"^<\(&\[u8\], u64\) as Ord>::cmp$", m_tuple_cmp)]


def run_tree_delete(order):
    """Single-leaf tree holding two pairs with the SAME key, inserted through the real lower-bound insert (newest first)."""
    def run(mf, tier):
        call.queries, call.solver_time, call.inlined = 0, 0.0, set()
        st = State()
        k = z3.BitVec("key", 8)
        p_old, p_new = z3.BitVec("p_old", 64), z3.BitVec("p_new", 64)
        st.pc.append(z3.ULT(p_old, p_new) if order == "increasing" else z3.UGT(p_old, p_new))
        page = new_page(st, "leaf")
        ex, paths = call(mf, IMPL + r"init_leaf\(", [page], st)
        states = [p.st for p in ok_paths(paths, "init_leaf")]
        for pay in (p_old, p_new):
            nxt = []
            for s in states:
                s.env["$key"] = PyVec([k])
                ex, paths = call(mf, IMPL + r"leaf_lower_bound\(", [page, Ref("$key")], s)
                for p in ok_paths(paths, "leaf_lower_bound"):
                    idx = z3.simplify(p.ret.fields[0])
                    for j in range(3):
                        if ex.feasible(p.pc, p.ret.fields[0] == j):
                            s2 = p.st.fork()
                            s2.pc.append(p.ret.fields[0] == j)
                            ex2, paths2 = call(mf, IMPL + r"leaf_insert_at\(", [page, bv(j, 64), Ref("$key"), pay], s2)
                            nxt += [q.st for q in ok_paths(paths2, "leaf_insert_at")]
            states = nxt
        failed, n = [], 0
        tree_delete = r"^fn btree::<impl at [^>]*>::delete\(_1: &mut BTree"
        for s in states:
            for victim, survivor, which in ((p_old, p_new, "older"), (p_new, p_old, "newer")):
                s2 = s.fork()
                s2.env["$store_5"] = s2.env["$buf_leaf"]
                s2.env["$tree"] = Struct("BTree", {0: page_id(5)})
                s2.env["$key"] = PyVec([k])
                ex, paths = call(mf, tree_delete, [Ref("$tree"), Opaque("pager"), Ref("$key"), victim], s2, extra_models=store_models())
                for p in ok_paths(paths, "BTree::delete"):
                    n += 1
                    found = isinstance(p.ret, Enum) and p.ret.variant == "Ok" and ex.entails(p.pc, p.ret.fields[0] == TRUE)
                    if not found:
                        m = ex.model(p.pc)
                        failed.append("BTree::delete does not find a stored (key,payload) pair among equal keys (the %s of two pairs), e.g. payloads old=%s new=%s"
                                      % (which, m.eval(p_old, model_completion=True), m.eval(p_new, model_completion=True)))
                        continue
                    # exactly the victim is gone: the stored page now holds one cell = survivor
                    s3 = p.st.fork()
                    s3.env["$buf_chk"] = s3.env["$store_5"]
                    s3.env["$page_chk"] = Struct("Page", {0: Ref("$buf_chk")})
                    cnt = cell_count_of(mf, Ref("$page_chk"), s3)
                    if not ex.entails(p.pc, cnt == 1):
                        failed.append("BTree::delete does not remove exactly one pair")
                        continue
                    for s4, cells in read_cells(mf, Ref("$page_chk"), s3, 1):
                        kb, pv = cells[0]
                        if not ex.entails(s4.pc, z3.And(kb[0] == k, pv == survivor)):
                            failed.append("BTree::delete removes the other pair of two equal keys (asked for the %s one)" % which)
        res = {"paths": n, "queries": call.queries, "solver_time_s": round(call.solver_time, 3),
               "sample": ["single-leaf tree, two pairs with one symbolic key, payloads inserted in %s order, either pair deleted" % order],
               "functions": ["index::btree::BTree::delete + delete::{closure#0} + Page kernels; std binary_search_by executed with the real comparator"]}
        if failed:
            res.update({"status": "fail", "failed": sorted({re.sub(r", e\.g\. .*$", "", f) for f in failed}), "reason": "; ".join(sorted(set(failed)))[:400],
                        "witness_text": sorted(set(failed))[:3]})
        else:
            res["status"] = "pass"
        return res
    return run


TREE = r"^fn btree::<impl at [^>]*>::"
CURSOR_MODELS = None


def scan(mf, st, tree_ref, from_key_ref, limit, models):
    """cursor_lower_bound(from_key) then up to `limit` (key, payload) pairs through the real cursor; returns [(state, [(key bytes, payload)], exhausted)]."""
    ex, paths = call(mf, TREE + r"cursor_lower_bound\(", [tree_ref, Opaque("pager"), from_key_ref], st, extra_models=models, bound=16)
    out = []
    for p in ok_paths(paths, "cursor_lower_bound"):
        if not (isinstance(p.ret, Enum) and p.ret.variant == "Ok"):
            raise AssertionError("cursor_lower_bound fails: %r" % (p.ret,))
        s0 = p.st
        s0.env["$cursor"] = p.ret.fields[0]
        todo = [(s0, [])]
        for step in range(limit + 1):
            nxt = []
            for s, acc in todo:
                ex1, ps = call(mf, TREE + r"is_valid\(", [Ref("$cursor")], s, extra_models=models)
                for q in ok_paths(ps, "cursor.is_valid"):
                    valid = q.ret.fields[0]
                    if ex1.entails(q.pc, valid == FALSE):
                        out.append((q.st, acc, True))
                        continue
                    if not ex1.entails(q.pc, valid == TRUE):
                        raise Unsupported("cursor validity is not decided on this path")
                    if step == limit:
                        out.append((q.st, acc, False))
                        continue
                    ex2, ks = call(mf, TREE + r"key\(_1: &mut BTreeCursor", [Ref("$cursor")], q.st, extra_models=models)
                    for kq in ok_paths(ks, "cursor.key"):
                        kb = buf_of(ex2, kq.st, kq.ret.fields[0]).items
                        ex3, vs = call(mf, TREE + r"payload\(", [Ref("$cursor")], kq.st, extra_models=models)
                        for vq in ok_paths(vs, "cursor.payload"):
                            pv = vq.ret.fields[0]
                            ex4, adv = call(mf, TREE + r"advance\(", [Ref("$cursor")], vq.st, extra_models=models)
                            for aq in ok_paths(adv, "cursor.advance"):
                                nxt.append((aq.st, acc + [(kb, pv)]))
            todo = nxt
            if not todo:
                break
    return out


def run_insert_scan(npairs):
    """BTree::insert of `npairs` symbolic (1-byte key, payload) pairs in arbitrary order into an empty tree, then a full cursor scan."""
    def run(mf, tier):
        call.queries, call.solver_time, call.inlined = 0, 0.0, set()
        models = store_models()
        st = State()
        ks = [z3.BitVec("k%d" % i, 8) for i in range(npairs)]
        ps = [z3.BitVec("p%d" % i, 64) for i in range(npairs)]
        page = new_page(st, "root")
        ex, paths = call(mf, IMPL + r"init_leaf\(", [page], st)
        states = [p.st for p in ok_paths(paths, "init_leaf")]
        for s in states:
            s.env["$store_5"] = s.env["$buf_root"]
            s.env["$tree"] = Struct("BTree", {0: page_id(5)})
        failed, n = [], 0
        try:
            for i in range(npairs):
                nxt = []
                for s in states:
                    s.env["$ikey%d" % i] = PyVec([ks[i]])
                    ex, paths = call(mf, TREE + r"insert\(_1: &mut BTree", [Ref("$tree"), Opaque("pager"), Ref("$ikey%d" % i), ps[i]], s,
                                     extra_models=models, bound=16)
                    for p in ok_paths(paths, "BTree::insert"):
                        if not (isinstance(p.ret, Enum) and p.ret.variant == "Ok"):
                            failed.append("BTree::insert fails on a tree with free space: %r" % (p.ret,))
                            continue
                        nxt.append(p.st)
                states = nxt
            for s in states:
                s.env["$from"] = PyVec([bv(0, 8)])
                for s2, got, exhausted in scan(mf, s, Ref("$tree"), Ref("$from"), npairs + 1, models):
                    n += 1
                    chk = Exec(mf.find(IMPL + r"cell_count\("), [], mf=mf)
                    if not exhausted or len(got) != npairs:
                        failed.append("a full scan returns %d pairs (%s) after %d inserts" % (len(got), "exhausted" if exhausted else "more pending", npairs))
                        continue
                    # sorted by key
                    for (ka, _), (kb2, _) in zip(got, got[1:]):
                        if not chk.entails(s2.pc, z3.ULE(ka[0], kb2[0])):
                            failed.append("a scan does not return pairs in key order")
                    # multiset equality: some permutation of the inserted pairs matches position-wise
                    import itertools
                    perms = []
                    for perm in itertools.permutations(range(npairs)):
                        perms.append(z3.And([z3.And(got[pos][0][0] == ks[i], got[pos][1] == ps[i]) for pos, i in enumerate(perm)]))
                    if not chk.entails(s2.pc, z3.Or(perms)):
                        failed.append("a scan does not return exactly the inserted (key,payload) pairs")
                    # newest first among equal keys: if k_i == k_j with i < j (j inserted later) then pair j comes before pair i
                    for i in range(npairs):
                        for j in range(i + 1, npairs):
                            pos_i = [z3.And(got[q][0][0] == ks[i], got[q][1] == ps[i]) for q in range(npairs)]
                            pos_j = [z3.And(got[q][0][0] == ks[j], got[q][1] == ps[j]) for q in range(npairs)]
                            later_first = z3.Or([z3.And(pos_j[a], pos_i[b]) for a in range(npairs) for b in range(npairs) if a < b])
                            cond = z3.Implies(z3.And(ks[i] == ks[j], ps[i] != ps[j]), later_first)
                            if not chk.entails(s2.pc, cond):
                                failed.append("among equal keys the most recently inserted pair is not returned first")
                    call.queries += chk.queries
        except AssertionError as e:
            failed.append(str(e))
        res = {"paths": n, "queries": call.queries, "solver_time_s": round(call.solver_time, 3),
               "sample": ["%d symbolic pairs inserted through BTree::insert in arbitrary key order, then cursor_lower_bound([0]) + full scan" % npairs],
               "functions": ["index::btree::BTree::{insert, cursor_lower_bound}, BTreeCursor::{is_valid, key, payload, advance}, Page kernels"]}
        if failed:
            res.update({"status": "fail", "failed": sorted(set(failed)), "reason": "; ".join(sorted(set(failed)))[:400]})
        else:
            res["status"] = "pass"
        return res
    return run


def run_capacity_boundary(tier_deltas):
    """Leaf holding one very large cell, so that the free gap is small and known; then an insert whose cell length sits at
    free-3 .. free+1 bytes. Whatever the space check answers, the page must stay decodable: Ok => both pairs read back in order,
    Err => the stored pair is untouched."""
    def run(mf, tier):
        from ..bytesmodel import lex_lt
        call.queries, call.solver_time, call.inlined = 0, 0.0, set()
        st = State()
        a, t = z3.BitVec("a", 8), z3.BitVec("t", 8)
        pa, pn = z3.BitVec("p_a", 64), z3.BitVec("p_new", 64)
        L1 = 8100
        page = new_page(st, "cap")
        ex, paths = call(mf, IMPL + r"init_leaf\(", [page], st)
        s = ok_paths(paths, "init_leaf")[0].st
        big = [a] + [bv(0, 8)] * (L1 - 1)
        s.env["$bigkey"] = PyVec(big)
        ex, paths = call(mf, IMPL + r"leaf_insert_at\(", [page, bv(0, 64), Ref("$bigkey"), pa], s)
        ps_ = [p for p in ok_paths(paths, "leaf_insert_at") if isinstance(p.ret, Enum) and p.ret.variant == "Ok"]
        if len(ps_) != 1:
            raise Unsupported("building the nearly full leaf did not yield one successful path")
        s = ps_[0].st
        ex, paths = call(mf, IMPL + r"free_space\(", [page], s)
        fr = ok_paths(paths, "free_space")
        free = z3.simplify(fr[0].ret.fields[0])
        if len(fr) != 1 or not z3.is_bv_value(free):
            raise Unsupported("free_space is not a constant on the constructed page")
        free = free.as_long()
        failed, n, accepted, refused = [], 0, [], []
        try:
            for delta in tier_deltas:
                L2 = free + delta - 9            # cell = 1-byte length prefix + key + 8-byte payload (key < 128 bytes)
                if not (1 <= L2 < 128):
                    raise Unsupported("boundary key length %d outside the 1-byte length prefix range" % L2)
                newkey = [t] + [bv(0, 8)] * (L2 - 1)
                s1 = s.fork()
                s1.env["$newkey"] = PyVec(newkey)
                ex, paths = call(mf, IMPL + r"leaf_lower_bound\(", [page, Ref("$newkey")], s1)
                for p in ok_paths(paths, "leaf_lower_bound"):
                    for j in (0, 1):
                        if not ex.feasible(p.pc, p.ret.fields[0] == j):
                            continue
                        s2 = p.st.fork()
                        s2.pc.append(p.ret.fields[0] == j)
                        ex2, paths2 = call(mf, IMPL + r"leaf_insert_at\(", [page, bv(j, 64), Ref("$newkey"), pn], s2)
                        for p2 in ok_paths(paths2, "leaf_insert_at (page nearly full)"):
                            n += 1
                            ok = isinstance(p2.ret, Enum) and p2.ret.variant == "Ok"
                            (accepted if ok else refused).append(delta)
                            want = [(big, pa)]
                            if ok:
                                want.insert(j, (newkey, pn))
                            cnt = cell_count_of(mf, page, p2.st)
                            if not ex2.entails(p2.pc, cnt == len(want)):
                                failed.append("an insert into a nearly full leaf %s but the cell count is not %d" % ("succeeds" if ok else "is refused", len(want)))
                                continue
                            for s3, cells in read_cells(mf, page, p2.st, len(want)):
                                for pos, ((kb, pv), (wk, wp)) in enumerate(zip(cells, want)):
                                    same = len(kb) == len(wk) and ex2.entails(s3.pc, z3.And([x == y for x, y in zip(kb, wk)] + [pv == wp]))
                                    if not same:
                                        failed.append("an insert into a nearly full leaf (new cell = free space %+d bytes) %s and cell %d no longer reads back "
                                                      "as the stored pair" % (delta, "is accepted" if ok else "is refused", pos))
                                if ok and not ex2.entails(s3.pc, z3.Not(lex_lt(cells[1][0], cells[0][0]))):
                                    failed.append("leaf keys are not sorted after an insert into a nearly full leaf")
        except AssertionError as e:
            failed.append("insert into a nearly full leaf: " + str(e))
        res = {"paths": n, "queries": call.queries, "solver_time_s": round(call.solver_time, 3),
               "sample": ["leaf with one %d-byte key (free gap %d bytes), new cell length = gap%s; accepted at %s, refused at %s"
                          % (L1, free, "/".join("%+d" % d for d in tier_deltas), sorted(set(accepted)), sorted(set(refused)))],
               "functions": ["index::btree::Page::{free_space, leaf_lower_bound, leaf_insert_at, shift_slots_right, leaf_cell_key_and_payload} + helpers"]}
        if failed:
            res.update({"status": "fail", "failed": sorted({re.sub(r"\(new cell = free space [-+]\d+ bytes\) ", "", f) for f in failed}),
                        "reason": "; ".join(sorted(set(failed)))[:400]})
        else:
            res["status"] = "pass"
        return res
    return run


def run_capacity_boundary_internal(tier_deltas):
    """Same boundary as run_capacity_boundary for internal pages: (separator key, right child) cells and the leftmost child."""
    def run(mf, tier):
        call.queries, call.solver_time, call.inlined = 0, 0.0, set()
        st = State()
        a, t = z3.BitVec("a", 8), z3.BitVec("t", 8)
        ca, cn = z3.BitVec("child_a", 64), z3.BitVec("child_new", 64)
        L1 = 8100
        page = new_page(st, "icap")
        ex, paths = call(mf, IMPL + r"init_internal\(", [page, page_id(7)], st)
        s = ok_paths(paths, "init_internal")[0].st
        big = [a] + [bv(0, 8)] * (L1 - 1)
        s.env["$bigkey"] = PyVec(big)
        ex, paths = call(mf, IMPL + r"internal_insert_at\(", [page, bv(0, 64), Ref("$bigkey"), Struct("PageId", {0: ca})], s)
        ps_ = [p for p in ok_paths(paths, "internal_insert_at") if isinstance(p.ret, Enum) and p.ret.variant == "Ok"]
        if len(ps_) != 1:
            raise Unsupported("building the nearly full internal page did not yield one successful path")
        s = ps_[0].st
        ex, paths = call(mf, IMPL + r"free_space\(", [page], s)
        fr = ok_paths(paths, "free_space")
        free = z3.simplify(fr[0].ret.fields[0])
        if len(fr) != 1 or not z3.is_bv_value(free):
            raise Unsupported("free_space is not a constant on the constructed page")
        free = free.as_long()
        failed, n, accepted, refused = [], 0, [], []

        def read_back(stx, count):
            states = [(stx, [])]
            for i in range(count):
                nxt = []
                for sx, acc in states:
                    exr, pr = call(mf, IMPL + r"internal_cell_key_and_right_child\(", [page, bv(i, 64)], sx)
                    for q in ok_paths(pr, "internal_cell_key_and_right_child"):
                        if not (isinstance(q.ret, Enum) and q.ret.variant == "Ok"):
                            raise AssertionError("separator cell %d cannot be read back: %r" % (i, q.ret))
                        tup = q.ret.fields[0]
                        nxt.append((q.st, acc + [(buf_of(exr, q.st, tup.fields[0]).items, pid_val(tup.fields[1]))]))
                states = nxt
            return states
        try:
            for delta in tier_deltas:
                L2 = free + delta - 9
                if not (1 <= L2 < 128):
                    raise Unsupported("boundary key length %d outside the 1-byte length prefix range" % L2)
                newkey = [t] + [bv(0, 8)] * (L2 - 1)
                for j in (0, 1):
                    s2 = s.fork()
                    s2.env["$newkey"] = PyVec(newkey)
                    ex2, paths2 = call(mf, IMPL + r"internal_insert_at\(", [page, bv(j, 64), Ref("$newkey"), Struct("PageId", {0: cn})], s2)
                    for p2 in ok_paths(paths2, "internal_insert_at (page nearly full)"):
                        n += 1
                        ok = isinstance(p2.ret, Enum) and p2.ret.variant == "Ok"
                        (accepted if ok else refused).append(delta)
                        want = [(big, ca)]
                        if ok:
                            want.insert(j, (newkey, cn))
                        cnt = cell_count_of(mf, page, p2.st)
                        if not ex2.entails(p2.pc, cnt == len(want)):
                            failed.append("an insert into a nearly full internal page %s but the cell count is not %d" % ("succeeds" if ok else "is refused", len(want)))
                            continue
                        exl, pl = call(mf, IMPL + r"leftmost_child\(", [page], p2.st)
                        for q in ok_paths(pl, "leftmost_child"):
                            if not (isinstance(q.ret, Enum) and q.ret.variant == "Ok" and exl.entails(q.pc, pid_val(q.ret.fields[0]) == 7)):
                                failed.append("an insert into a nearly full internal page changes the leftmost child")
                        for s3, cells in read_back(p2.st, len(want)):
                            for pos, ((kb, pv), (wk, wp)) in enumerate(zip(cells, want)):
                                same = len(kb) == len(wk) and ex2.entails(s3.pc, z3.And([x == y for x, y in zip(kb, wk)] + [pv == wp]))
                                if not same:
                                    failed.append("an insert into a nearly full internal page (new cell = free space %+d bytes) %s and separator cell %d no longer "
                                                  "reads back as stored" % (delta, "is accepted" if ok else "is refused", pos))
        except AssertionError as e:
            failed.append("insert into a nearly full internal page: " + str(e))
        res = {"paths": n, "queries": call.queries, "solver_time_s": round(call.solver_time, 3),
               "sample": ["internal page with one %d-byte separator (free gap %d bytes), new cell length = gap%s; accepted at %s, refused at %s"
                          % (L1, free, "/".join("%+d" % d for d in tier_deltas), sorted(set(accepted)), sorted(set(refused)))],
               "functions": ["index::btree::Page::{init_internal, free_space, internal_insert_at, shift_slots_right, internal_cell_key_and_right_child, leftmost_child}"]}
        if failed:
            res.update({"status": "fail", "failed": sorted({re.sub(r"\(new cell = free space [-+]\d+ bytes\) ", "", f) for f in failed}),
                        "reason": "; ".join(sorted(set(failed)))[:400]})
        else:
            res["status"] = "pass"
        return res
    return run


def alloc_model():
    """Pager::allocate_page on the page-store model: hands out 6, 7, 8, ... (pages the store does not hold yet)."""
    def m_allocate(ex, st, a, dst, callee):
        n = st.env.get("$next_alloc", 6)
        st.env["$next_alloc"] = n + 1
        st.env["$store_%d" % n] = PyVec([bv(0, 8)] * PAGE)
        return [(Enum("Ok", [page_id(n)]), [], None)]
    return [(r"Pager::allocate_page$", m_allocate)]


def run_split_insert(nfull, keylen):
    """A root leaf that is full with `nfull` cells of `keylen`-byte keys (distinct symbolic first bytes); one more pair with a
    symbolic distinct key goes in through the real BTree::insert, which has to split the leaf and grow a new root. Afterwards every
    stored pair must be found by BTree::delete and a full cursor scan must return all pairs in key order."""
    def run(mf, tier):
        from ..vecmodel import VEC_MODELS
        call.queries, call.solver_time, call.inlined = 0, 0.0, set()
        models = alloc_model() + store_models() + VEC_MODELS
        st = State()
        ks = [z3.BitVec("k%d" % i, 8) for i in range(nfull)]
        ps = [z3.BitVec("p%d" % i, 64) for i in range(nfull)]
        t, pn = z3.BitVec("t", 8), z3.BitVec("p_new", 64)
        for x, y in zip(ks, ks[1:]):
            st.pc.append(z3.ULT(x, y))
        st.pc += [t != k for k in ks]
        page = new_page(st, "root")
        ex, paths = call(mf, IMPL + r"init_leaf\(", [page], st)
        s = ok_paths(paths, "init_leaf")[0].st
        keys = [[k] + [bv(0, 8)] * (keylen - 1) for k in ks]
        for i in range(nfull):
            s.env["$fk%d" % i] = PyVec(keys[i])
            ex, paths = call(mf, IMPL + r"leaf_insert_at\(", [page, bv(i, 64), Ref("$fk%d" % i), ps[i]], s)
            okp = [p for p in ok_paths(paths, "leaf_insert_at") if isinstance(p.ret, Enum) and p.ret.variant == "Ok"]
            if len(okp) != 1:
                raise Unsupported("could not build the full leaf")
            s = okp[0].st
        s.env["$store_5"] = s.env["$buf_root"]
        s.env["$tree"] = Struct("BTree", {0: page_id(5)})
        newkey = [t] + [bv(0, 8)] * (keylen - 1)
        s.env["$newkey"] = PyVec(newkey)
        failed, n, splits = [], 0, 0
        allpairs = list(zip(keys, ps)) + [(newkey, pn)]
        try:
            ex, paths = call(mf, TREE + r"insert\(_1: &mut BTree", [Ref("$tree"), Opaque("pager"), Ref("$newkey"), pn], s, extra_models=models, bound=24)
            for p in ok_paths(paths, "BTree::insert (leaf split)"):
                if not (isinstance(p.ret, Enum) and p.ret.variant == "Ok"):
                    failed.append("BTree::insert into a full leaf fails: %r" % (p.ret,))
                    continue
                if p.st.env.get("$next_alloc", 6) > 6:
                    splits += 1
                # 1. every stored pair is found (and removed) by BTree::delete
                for kb, pv in allpairs:
                    s2 = p.st.fork()
                    s2.env["$victim"] = PyVec(kb)
                    ex2, dp = call(mf, r"^fn btree::<impl at [^>]*>::delete\(_1: &mut BTree", [Ref("$tree"), Opaque("pager"), Ref("$victim"), pv], s2,
                                   extra_models=models, bound=24)
                    for q in ok_paths(dp, "BTree::delete"):
                        n += 1
                        if not (isinstance(q.ret, Enum) and q.ret.variant == "Ok" and ex2.entails(q.pc, q.ret.fields[0] == TRUE)):
                            m = ex2.model(q.pc)
                            failed.append("after a leaf split BTree::delete does not find a stored pair (distinct keys), e.g. stored first bytes %s, inserted %s"
                                          % ([m.eval(k, model_completion=True).as_long() for k in ks], m.eval(t, model_completion=True).as_long()))
                # 2. a full scan returns all pairs in key order
                s3 = p.st.fork()
                s3.env["$from"] = PyVec([bv(0, 8)])
                for s4, got, exhausted in scan(mf, s3, Ref("$tree"), Ref("$from"), nfull + 2, models):
                    n += 1
                    chk = Exec(mf.find(IMPL + r"cell_count\("), [], mf=mf)
                    if not exhausted or len(got) != nfull + 1:
                        failed.append("after a leaf split a full scan returns %d pairs instead of %d" % (len(got), nfull + 1))
                        continue
                    for (ka, _), (kb2, _) in zip(got, got[1:]):
                        if not chk.entails(s4.pc, z3.ULT(ka[0], kb2[0])):
                            failed.append("after a leaf split a scan does not return pairs in key order")
                    for kb, pv in allpairs:
                        if not chk.entails(s4.pc, z3.Or([z3.And(len(g[0]) == len(kb), g[0][0] == kb[0], g[1] == pv) for g in got])):
                            failed.append("after a leaf split a scan misses a stored pair")
                    call.queries += chk.queries
        except AssertionError as e:
            failed.append(str(e))
        if not splits and not failed:
            raise Unsupported("the insert did not split the leaf (vacuous)")
        res = {"paths": n, "queries": call.queries, "solver_time_s": round(call.solver_time, 3),
               "sample": ["root leaf full with %d cells of %d-byte keys (symbolic first byte, strictly increasing), new pair with a distinct symbolic key; "
                          "%d returning insert paths split the leaf" % (nfull, keylen, splits)],
               "functions": ["index::btree::BTree::{insert, insert_into_parent, delete, cursor_lower_bound}, Page::{rebuild_leaf, init_internal, internal_insert_at, "
                             "internal_child_for_key, ...}, BTreeCursor::*; std Vec/slice/iterator calls through element-wise models (vecmodel.py)"]}
        if failed:
            res.update({"status": "fail", "failed": sorted({re.sub(r", e\.g\. .*$", "", f) for f in failed}), "reason": "; ".join(sorted(set(failed)))[:400],
                        "witness_text": sorted(set(failed))[:3]})
        else:
            res["status"] = "pass"
        return res
    return run


TARGETS = [
    {"name": "c26_o8_q_e2_leaf_split_through_insert_3_plus_1", "crate": "nervusdb-storage", "run": run_split_insert(3, 2700)},
    {"name": "c26_o2_q_e2_internal_insert_at_capacity_boundary", "crate": "nervusdb-storage", "run": run_capacity_boundary_internal([-3, -2, -1, 0, 1])},
    {"name": "c26_o2_q_e2_insert_at_capacity_boundary", "crate": "nervusdb-storage", "run": run_capacity_boundary([-3, -2, -1, 0, 1])},
    {"name": "c26_o7_q_e2_insert_then_scan_2_pairs", "crate": "nervusdb-storage", "run": run_insert_scan(2)},
    {"name": "c26_o7_t_e2_insert_then_scan_3_pairs", "crate": "nervusdb-storage", "run": run_insert_scan(3)},
    {"name": "c26_o4_q_e2_descent_after_split_distinct_keys", "crate": "nervusdb-storage", "run": run_descent(True)},
    {"name": "c26_o4_q_e2_descent_after_split_any_keys", "crate": "nervusdb-storage", "run": run_descent(False)},
    {"name": "c26_o5_q_e2_tree_delete_equal_keys_decreasing_payloads", "crate": "nervusdb-storage", "run": run_tree_delete("decreasing")},
    {"name": "c26_o5_q_e2_tree_delete_equal_keys_increasing_payloads", "crate": "nervusdb-storage", "run": run_tree_delete("increasing")},
    {"name": "c26_o2_q_e2_insert_at_lower_bound_2_keys", "crate": "nervusdb-storage", "run": run_insert(2)},
    {"name": "c26_o2_t_e2_insert_at_lower_bound_3_keys", "crate": "nervusdb-storage", "run": run_insert(3)},
    {"name": "c26_o6_q_e2_delete_cell_3_keys", "crate": "nervusdb-storage", "run": run_delete_cell(3)},
    {"name": "c26_o1_q_e2_lower_bound_3_symbolic_keys", "crate": "nervusdb-storage", "run": run_lower_bound(3)},
]
