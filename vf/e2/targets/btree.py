"""C26 through E2: the real B-tree page kernels executed on a symbolic page image (8192 8-bit terms), every crate-local callee
inlined (read_u16_le, slot_get, read_varint_u32, ...). Keys and payloads are symbolic; cell positions are concrete because key
lengths are concrete."""
import re

import z3

from ..symex import (FALSE, GENERIC_MODELS, STD_CMP_MODELS, TRUE, Enum, Exec, Opaque, PyVec, Ref, State, Struct, Tup, Unsupported, bv)
from ..bytesmodel import BYTES_MODELS

PAGE = 8192
MODELS = BYTES_MODELS + STD_CMP_MODELS + GENERIC_MODELS


def clear_locals(st):
    for k in [k for k in st.env if re.match(r"^_\d+(@\d+)?$", k)]:
        del st.env[k]
    st.visits = {}
    st.frames = []


def call(mf, fn_regex, args, st, bound=12, extra_models=None, vi=None):
    """Run one real function on state `st` (forked); returns the list of terminated paths."""
    fn = mf.find(fn_regex)
    ex = Exec(fn, (extra_models or []) + MODELS, bound=bound, mf=mf, inline=r".", max_paths=4000,
              variant_index=vi or {"Leaf": 0, "Internal": 1, "WalProtocol": 7})
    s2 = st.fork()
    clear_locals(s2)
    for i, v in enumerate(args):
        s2.env["_%d" % (i + 1)] = v
    paths = ex.run("bb0", s2)
    call.queries += ex.queries
    call.solver_time += ex.solver_time
    call.inlined |= ex.inlined
    return ex, paths


call.queries, call.solver_time, call.inlined = 0, 0.0, set()

IMPL = r"^fn btree::<impl at [^>]*>::"


def ok_paths(paths, what):
    out = []
    for p in paths:
        if p.kind == "panic":
            raise AssertionError("%s can panic: %s" % (what, p.info[:80]))
        if p.kind == "bound":
            raise Unsupported("%s cut by the loop bound" % what)
        if p.kind == "return":
            out.append(p)
    return out


def new_page(st, name):
    st.env["$buf_" + name] = PyVec([bv(0, 8)] * PAGE)
    st.env["$page_" + name] = Struct("Page", {0: Ref("$buf_" + name)})
    return Ref("$page_" + name)


def build_leaf(mf, st, name, keys, payloads):
    """init_leaf + leaf_insert_at(i, [key_i], payload_i) in order, on the real code; returns the states (one per feasible path)."""
    page = new_page(st, name)
    ex, paths = call(mf, IMPL + r"init_leaf\(", [page], st)
    states = [p.st for p in ok_paths(paths, "init_leaf")]
    for i, (k, v) in enumerate(zip(keys, payloads)):
        nxt = []
        for s in states:
            s.env["$key_%s_%d" % (name, i)] = PyVec([k])
            ex, paths = call(mf, IMPL + r"leaf_insert_at\(", [page, bv(i, 64), Ref("$key_%s_%d" % (name, i)), v], s)
            for p in ok_paths(paths, "leaf_insert_at"):
                if not (isinstance(p.ret, Enum) and p.ret.variant == "Ok"):
                    raise Unsupported("leaf_insert_at failed while building the page: %r" % (p.ret,))
                nxt.append(p.st)
        states = nxt
    return page, states


def run_lower_bound(nkeys):
    def run(mf, tier):
        call.queries, call.solver_time, call.inlined = 0, 0.0, set()
        st = State()
        ks = [z3.BitVec("k%d" % i, 8) for i in range(nkeys)]
        ps = [z3.BitVec("p%d" % i, 64) for i in range(nkeys)]
        t = z3.BitVec("t", 8)
        for a, b in zip(ks, ks[1:]):
            st.pc.append(z3.ULE(a, b))
        page, states = build_leaf(mf, st, "a", ks, ps)
        failed, n = [], 0
        for s in states:
            s.env["$target"] = PyVec([t])
            ex, paths = call(mf, IMPL + r"leaf_lower_bound\(", [page, Ref("$target")], s)
            for p in ok_paths(paths, "leaf_lower_bound"):
                n += 1
                if not (isinstance(p.ret, Enum) and p.ret.variant == "Ok"):
                    failed.append("leaf_lower_bound fails on a well-formed leaf: %r" % (p.ret,))
                    continue
                want = sum([z3.If(z3.ULT(k, t), bv(1, 64), bv(0, 64)) for k in ks], bv(0, 64))
                if ex.feasible(p.pc, p.ret.fields[0] != want):
                    m = ex.model(p.pc, p.ret.fields[0] != want)
                    failed.append("leaf_lower_bound is not the number of keys below the target, e.g. keys %s target %s" % (
                        [m.eval(k, model_completion=True).as_long() for k in ks], m.eval(t, model_completion=True).as_long()))
        res = {"paths": n, "queries": call.queries, "solver_time_s": round(call.solver_time, 3),
               "sample": ["%d sorted symbolic 1-byte keys, symbolic target; inlined: %s" % (nkeys, ", ".join(sorted(x.split("::")[-1] for x in call.inlined))[:160])],
               "functions": ["index::btree::Page::{init_leaf, leaf_insert_at, leaf_lower_bound} + helpers"]}
        if failed:
            res.update({"status": "fail", "failed": sorted({re.sub(r", e\.g\. .*$", "", f) for f in failed}), "reason": "; ".join(sorted(set(failed)))[:400],
                        "witness_text": sorted(set(failed))[:4]})
        else:
            res["status"] = "pass"
        return res
    return run


TARGETS = [
    {"name": "c26_o1_q_e2_lower_bound_3_symbolic_keys", "crate": "nervusdb-storage", "run": run_lower_bound(3)},
]
