"""C26 through E2: the real B-tree page kernels executed on a symbolic page image (8192 8-bit terms), every crate-local callee
inlined (read_u16_le, slot_get, read_varint_u32, ...). Keys and payloads are symbolic; cell positions are concrete because key
lengths are concrete."""
import re

import z3

from ..symex import (FALSE, GENERIC_MODELS, STD_CMP_MODELS, TRUE, Enum, Exec, Opaque, PyVec, Ref, State, Struct, Tup, Unsupported, bv)
from ..bytesmodel import BYTES_MODELS, buf_of

PAGE = 8192
MODELS = BYTES_MODELS + STD_CMP_MODELS + GENERIC_MODELS


def clear_locals(st):
    for k in [k for k in st.env if re.match(r"^_\d+(@\d+)?$", k)]:
        del st.env[k]
    st.visits = {}
    st.frames = []


def call(mf, fn_regex, args, st, bound=12, extra_models=None, vi=None):
    """Run one real function on state `st` (forked); returns the list of terminated paths."""
    fn = mf.find(fn_regex)
    ex = Exec(fn, (extra_models or []) + MODELS, bound=bound, mf=mf, inline=r".", max_paths=4000,
              variant_index=vi or {"Leaf": 0, "Internal": 1, "WalProtocol": 7})
    s2 = st.fork()
    clear_locals(s2)
    for i, v in enumerate(args):
        s2.env["_%d" % (i + 1)] = v
    paths = ex.run("bb0", s2)
    call.queries += ex.queries
    call.solver_time += ex.solver_time
    call.inlined |= ex.inlined
    return ex, paths


call.queries, call.solver_time, call.inlined = 0, 0.0, set()

IMPL = r"^fn btree::<impl at [^>]*>::"


def ok_paths(paths, what):
    out = []
    for p in paths:
        if p.kind == "panic":
            raise AssertionError("%s can panic: %s" % (what, p.info[:80]))
        if p.kind == "bound":
            raise Unsupported("%s cut by the loop bound" % what)
        if p.kind == "return":
            out.append(p)
    return out


def new_page(st, name):
    st.env["$buf_" + name] = PyVec([bv(0, 8)] * PAGE)
    st.env["$page_" + name] = Struct("Page", {0: Ref("$buf_" + name)})
    return Ref("$page_" + name)


def build_leaf(mf, st, name, keys, payloads):
    """init_leaf + leaf_insert_at(i, [key_i], payload_i) in order, on the real code; returns the states (one per feasible path)."""
    page = new_page(st, name)
    ex, paths = call(mf, IMPL + r"init_leaf\(", [page], st)
    states = [p.st for p in ok_paths(paths, "init_leaf")]
    for i, (k, v) in enumerate(zip(keys, payloads)):
        nxt = []
        for s in states:
            s.env["$key_%s_%d" % (name, i)] = PyVec([k])
            ex, paths = call(mf, IMPL + r"leaf_insert_at\(", [page, bv(i, 64), Ref("$key_%s_%d" % (name, i)), v], s)
            for p in ok_paths(paths, "leaf_insert_at"):
                if not (isinstance(p.ret, Enum) and p.ret.variant == "Ok"):
                    raise Unsupported("leaf_insert_at failed while building the page: %r" % (p.ret,))
                nxt.append(p.st)
        states = nxt
    return page, states


def run_lower_bound(nkeys):
    def run(mf, tier):
        call.queries, call.solver_time, call.inlined = 0, 0.0, set()
        st = State()
        ks = [z3.BitVec("k%d" % i, 8) for i in range(nkeys)]
        ps = [z3.BitVec("p%d" % i, 64) for i in range(nkeys)]
        t = z3.BitVec("t", 8)
        for a, b in zip(ks, ks[1:]):
            st.pc.append(z3.ULE(a, b))
        page, states = build_leaf(mf, st, "a", ks, ps)
        failed, n = [], 0
        for s in states:
            s.env["$target"] = PyVec([t])
            ex, paths = call(mf, IMPL + r"leaf_lower_bound\(", [page, Ref("$target")], s)
            for p in ok_paths(paths, "leaf_lower_bound"):
                n += 1
                if not (isinstance(p.ret, Enum) and p.ret.variant == "Ok"):
                    failed.append("leaf_lower_bound fails on a well-formed leaf: %r" % (p.ret,))
                    continue
                want = sum([z3.If(z3.ULT(k, t), bv(1, 64), bv(0, 64)) for k in ks], bv(0, 64))
                if ex.feasible(p.pc, p.ret.fields[0] != want):
                    m = ex.model(p.pc, p.ret.fields[0] != want)
                    failed.append("leaf_lower_bound is not the number of keys below the target, e.g. keys %s target %s" % (
                        [m.eval(k, model_completion=True).as_long() for k in ks], m.eval(t, model_completion=True).as_long()))
        res = {"paths": n, "queries": call.queries, "solver_time_s": round(call.solver_time, 3),
               "sample": ["%d sorted symbolic 1-byte keys, symbolic target; inlined: %s" % (nkeys, ", ".join(sorted(x.split("::")[-1] for x in call.inlined))[:160])],
               "functions": ["index::btree::Page::{init_leaf, leaf_insert_at, leaf_lower_bound} + helpers"]}
        if failed:
            res.update({"status": "fail", "failed": sorted({re.sub(r", e\.g\. .*$", "", f) for f in failed}), "reason": "; ".join(sorted(set(failed)))[:400],
                        "witness_text": sorted(set(failed))[:4]})
        else:
            res["status"] = "pass"
        return res
    return run


def read_cells(mf, page, st, n):
    """[(key bytes, payload)] of cells 0..n-1 read back through the real leaf_cell_key_and_payload; raises if a read can fail."""
    states = [(st, [])]
    for i in range(n):
        nxt = []
        for s, acc in states:
            ex, paths = call(mf, IMPL + r"leaf_cell_key_and_payload\(", [page, bv(i, 64)], s)
            for p in ok_paths(paths, "leaf_cell_key_and_payload"):
                if not (isinstance(p.ret, Enum) and p.ret.variant == "Ok"):
                    raise AssertionError("cell %d cannot be read back: %r" % (i, p.ret))
                tup = p.ret.fields[0]
                key = tup.fields[0]
                nxt.append((p.st, acc + [(buf_of(ex, p.st, key).items, tup.fields[1])]))
        states = nxt
    return states


def cell_count_of(mf, page, st):
    ex, paths = call(mf, IMPL + r"cell_count\(", [page], st)
    ps = ok_paths(paths, "cell_count")
    if len(ps) != 1:
        raise Unsupported("cell_count forked")
    return ps[0].ret


def run_insert(nkeys):
    def run(mf, tier):
        call.queries, call.solver_time, call.inlined = 0, 0.0, set()
        st = State()
        ks = [z3.BitVec("k%d" % i, 8) for i in range(nkeys)]
        ps = [z3.BitVec("p%d" % i, 64) for i in range(nkeys)]
        t, pn = z3.BitVec("t", 8), z3.BitVec("p_new", 64)
        for a, b in zip(ks, ks[1:]):
            st.pc.append(z3.ULE(a, b))
        page, states = build_leaf(mf, st, "a", ks, ps)
        failed, n = [], 0
        try:
            for s in states:
                s.env["$target"] = PyVec([t])
                ex, paths = call(mf, IMPL + r"leaf_lower_bound\(", [page, Ref("$target")], s)
                for p in ok_paths(paths, "leaf_lower_bound"):
                    idx = p.ret.fields[0]
                    for j in range(nkeys + 1):
                        if not ex.feasible(p.pc, idx == j):
                            continue
                        s2 = p.st.fork()
                        s2.pc.append(idx == j)
                        ex2, paths2 = call(mf, IMPL + r"leaf_insert_at\(", [page, bv(j, 64), Ref("$target"), pn], s2)
                        for p2 in ok_paths(paths2, "leaf_insert_at"):
                            n += 1
                            if not (isinstance(p2.ret, Enum) and p2.ret.variant == "Ok"):
                                failed.append("inserting into a leaf with free space fails: %r" % (p2.ret,))
                                continue
                            cnt = cell_count_of(mf, page, p2.st)
                            if not ex2.entails(p2.pc, cnt == nkeys + 1):
                                failed.append("insert does not add exactly one cell")
                                continue
                            for s3, cells in read_cells(mf, page, p2.st, nkeys + 1):
                                want = [([ks[i]], ps[i]) for i in range(j)] + [([t], pn)] + [([ks[i]], ps[i]) for i in range(j, nkeys)]
                                for pos, ((kb, pv), (wk, wp)) in enumerate(zip(cells, want)):
                                    same = z3.And(len(kb) == 1, kb[0] == wk[0], pv == wp) if len(kb) == 1 else z3.BoolVal(False)
                                    if not ex2.entails(s3.pc, same):
                                        failed.append("after inserting at its lower bound, cell %d of the leaf is not the expected (key,payload) pair "
                                                      "(new pair first among equal keys, every other pair kept in order)" % pos)
                                for (ka, _), (kb2, _) in zip(cells, cells[1:]):
                                    if not ex2.entails(s3.pc, z3.ULE(ka[0], kb2[0])):
                                        failed.append("leaf keys are not sorted after an insert at the lower bound")
        except AssertionError as e:
            failed.append(str(e))
        res = {"paths": n, "queries": call.queries, "solver_time_s": round(call.solver_time, 3),
               "sample": ["%d sorted symbolic keys + symbolic new (key,payload); insert position = the real leaf_lower_bound" % nkeys],
               "functions": ["index::btree::Page::{leaf_lower_bound, leaf_insert_at, shift_slots_right, leaf_cell_key_and_payload} + helpers"]}
        if failed:
            res.update({"status": "fail", "failed": sorted(set(failed)), "reason": "; ".join(sorted(set(failed)))[:400]})
        else:
            res["status"] = "pass"
        return res
    return run


def run_delete_cell(nkeys):
    def run(mf, tier):
        call.queries, call.solver_time, call.inlined = 0, 0.0, set()
        st = State()
        ks = [z3.BitVec("k%d" % i, 8) for i in range(nkeys)]
        ps = [z3.BitVec("p%d" % i, 64) for i in range(nkeys)]
        for a, b in zip(ks, ks[1:]):
            st.pc.append(z3.ULE(a, b))
        page, states = build_leaf(mf, st, "a", ks, ps)
        failed, n = [], 0
        try:
            for s in states:
                for j in range(nkeys):
                    ex, paths = call(mf, IMPL + r"delete_from_leaf\(", [page, bv(j, 64)], s)
                    for p in ok_paths(paths, "delete_from_leaf"):
                        n += 1
                        if not (isinstance(p.ret, Enum) and p.ret.variant == "Ok"):
                            failed.append("deleting an existing cell fails: %r" % (p.ret,))
                            continue
                        cnt = cell_count_of(mf, page, p.st)
                        if not ex.entails(p.pc, cnt == nkeys - 1):
                            failed.append("delete does not remove exactly one cell")
                            continue
                        for s3, cells in read_cells(mf, page, p.st, nkeys - 1):
                            want = [(ks[i], ps[i]) for i in range(nkeys) if i != j]
                            for pos, ((kb, pv), (wk, wp)) in enumerate(zip(cells, want)):
                                if not (len(kb) == 1 and ex.entails(s3.pc, z3.And(kb[0] == wk, pv == wp))):
                                    failed.append("after deleting cell %d, cell %d is not the pair that was stored next to it" % (j, pos))
        except AssertionError as e:
            failed.append(str(e))
        res = {"paths": n, "queries": call.queries, "solver_time_s": round(call.solver_time, 3),
               "sample": ["%d symbolic cells, every delete position" % nkeys], "functions": ["index::btree::Page::{delete_from_leaf, shift_slots_left} + helpers"]}
        if failed:
            res.update({"status": "fail", "failed": sorted(set(failed)), "reason": "; ".join(sorted(set(failed)))[:400]})
        else:
            res["status"] = "pass"
        return res
    return run


TARGETS = [
    {"name": "c26_o2_q_e2_insert_at_lower_bound_2_keys", "crate": "nervusdb-storage", "run": run_insert(2)},
    {"name": "c26_o2_t_e2_insert_at_lower_bound_3_keys", "crate": "nervusdb-storage", "run": run_insert(3)},
    {"name": "c26_o6_q_e2_delete_cell_3_keys", "crate": "nervusdb-storage", "run": run_delete_cell(3)},
    {"name": "c26_o1_q_e2_lower_bound_3_symbolic_keys", "crate": "nervusdb-storage", "run": run_lower_bound(3)},
]
