"""C18-O3 / C18-O2 through E2: the real page allocator (Pager::allocate_page / ensure_allocated / free_page / read_page / write_page,
Bitmap::*) and the real node-table writer (idmap::write_i2e_record) on a symbolic allocator state and an in-memory file model.

State: the 8 KiB allocation bitmap as 8-bit terms (first two bytes symbolic = pages 0..15, the rest zero), `next_page_id` symbolic.
Representation invariant assumed for the pre-state (what Pager::open / every allocator step establish): pages 0 and 1 are reserved,
no page >= next_page_id is marked, 2 <= next_page_id <= 12."""
import re

import z3

from ..symex import (FALSE, GENERIC_MODELS, STD_CMP_MODELS, TRUE, Enum, Exec, Opaque, PyVec, Ref, State, Struct, Tup, Unsupported, bv,
                     deref_val, subcall)
from ..bytesmodel import BYTES_MODELS, buf_of
from .btree import clear_locals, ok_paths, pid_val, page_id

PAGE = 8192
PG = r"^fn pager::<impl at [^>]*>::"
NPAGES = 16


def file_models():
    def m_metadata(ex, st, a, dst, callee):
        return [(Enum("Ok", [Struct("Metadata", {})]), [], None)]

    def m_len(ex, st, a, dst, callee):
        return [(st.env["$file_len"], [], None)]

    def m_set_len(ex, st, a, dst, callee):
        st.env["$file_len"] = a[1]
        return [(Enum("Ok", [Tup([])]), [], None)]

    def m_sync(ex, st, a, dst, callee):
        return [(Enum("Ok", [Tup([])]), [], None)]

    def m_write_raw(ex, st, a, dst, callee):
        pid = z3.simplify(pid_val(a[1]))
        img = deref_val(ex, st, a[2])
        if not isinstance(img, Opaque):
            img = PyVec(list(buf_of(ex, st, a[2]).items))
        if z3.is_bv_value(pid):
            st.env["$disk_%d" % pid.as_long()] = img
            st.env["$disk_writes"] = st.env.get("$disk_writes", []) + [pid.as_long()]
        else:
            st.env["$disk_sym_writes"] = st.env.get("$disk_sym_writes", []) + [(pid, img)]
        return [(Enum("Ok", [Tup([])]), [], None)]

    def m_read_raw(ex, st, a, dst, callee):
        pid = z3.simplify(pid_val(a[1]))
        if not z3.is_bv_value(pid):
            # content of a page whose id is symbolic: one fresh byte repeated (the obligations using this never look inside)
            b = ex.fresh_bv("page_content", 8)
            ex._write(st, a[2].root, list(a[2].projs), PyVec([b] * PAGE))
            st.env["$disk_sym_reads"] = st.env.get("$disk_sym_reads", []) + [pid]
            return [(Enum("Ok", [Tup([])]), [], None)]
        img = st.env.get("$disk_%d" % pid.as_long())
        if img is None or isinstance(img, Opaque):
            img = PyVec([bv(0, 8)] * PAGE)           # never-written page of the (extended) file reads as zeros
        ex._write(st, a[2].root, list(a[2].projs), PyVec(list(img.items)))
        return [(Enum("Ok", [Tup([])]), [], None)]

    def m_encode_meta(ex, st, a, dst, callee):
        return [(Opaque("meta-page"), [], None)]

    def m_range_find(ex, st, a, dst, callee):
        """<Range<u64> as Iterator>::find with the crate-local predicate closure: least element of the range satisfying it."""
        m = re.search(r"\{closure@([^}]*)\}", callee)
        r = deref_val(ex, st, a[0]) if isinstance(a[0], Ref) else a[0]
        if not m or not (isinstance(r, Struct) and r.name == "Range"):
            return None
        fn = ex.mf.resolve_closure(m.group(1))
        if fn is None:
            return None
        lo = z3.simplify(r.fields[0])
        hi = r.fields[1]
        if not z3.is_bv_value(lo):
            raise Unsupported("Range::find with a symbolic start")
        lo = lo.as_long()
        st.env["$find_closure"] = a[1]
        alts, none_cons = [], []
        for i in range(lo, NPAGES + 1):
            in_range = z3.ULT(bv(i, 64), hi)
            if not ex.feasible(st.pc + none_cons, in_range):
                break
            st.env["$find_elem"] = bv(i, 64)
            s2 = st.fork()
            s2.pc += none_cons + [in_range]
            res = subcall(ex, s2, fn, [Ref("$find_closure"), Ref("$find_elem")])
            if isinstance(res, str):
                raise Unsupported("find predicate can panic: " + res)
            # predicate result may be a term or forked: collect "true" condition
            true_cond = z3.Or([z3.And(extra + [val == TRUE]) for val, extra in res]) if res else z3.BoolVal(False)
            alts.append((Enum("Some", [bv(i, 64)]), none_cons + [in_range, true_cond], None))
            none_cons = none_cons + [z3.Or(z3.Not(in_range), z3.Not(true_cond))]
        else:
            raise Unsupported("range longer than the modelled %d pages" % NPAGES)
        alts.append((Enum("None"), none_cons, None))
        return alts

    def m_open_options(ex, st, a, dst, callee):
        return [(Opaque("open-options"), [], None)]

    def m_open(ex, st, a, dst, callee):
        return [(Enum("Ok", [Opaque("out-file")]), [], None)]

    class SetIt:
        def __init__(self, refs, pos=0):
            self.refs, self.pos = refs, pos

    def m_set_iter(ex, st, a, dst, callee):
        v = deref_val(ex, st, a[0])
        if not isinstance(v, PyVec):
            return None
        return [(SetIt([Ref(a[0].root, list(a[0].projs) + [("elem", i)]) for i in range(len(v.items))]), [], None)]

    def m_set_next(ex, st, a, dst, callee):
        it = deref_val(ex, st, a[0]) if isinstance(a[0], Ref) else a[0]
        if not isinstance(it, SetIt):
            return None
        if it.pos >= len(it.refs):
            return [(Enum("None"), [], None)]
        return [(("ADV", a[0], SetIt(it.refs, it.pos + 1), Enum("Some", [it.refs[it.pos]])), [], None)]

    return [(r"OpenOptions::new$|OpenOptions::(write|create_new|truncate|create|read)$", m_open_options), (r"OpenOptions::open::<", m_open),
            (r"^<&BTreeSet<PageId> as IntoIterator>::into_iter$", m_set_iter), (r"^<std::collections::btree_set::Iter<'_, PageId> as Iterator>::next$", m_set_next),
            (r"File::metadata$", m_metadata), (r"Metadata::len$", m_len), (r"File::set_len$", m_set_len), (r"File::sync_data$", m_sync),
            (r"^write_page_raw$|pager::write_page_raw$", m_write_raw), (r"^read_page_raw$|pager::read_page_raw$", m_read_raw),
            (r"Meta::encode_page$", m_encode_meta), (r"<std::ops::Range<u64> as Iterator>::find::<", m_range_find)]


MODELS = file_models() + BYTES_MODELS + STD_CMP_MODELS + GENERIC_MODELS
STATS = {"queries": 0, "time": 0.0, "inlined": set()}


def pcall(mf, fn_regex, args, st, bound=40):
    fn = mf.find(fn_regex)
    ex = Exec(fn, MODELS, bound=bound, mf=mf, inline=r".", max_paths=4000, variant_index={"PageIdOutOfRange": 3, "PageNotAllocated": 4, "WalProtocol": 7})
    s2 = st.fork()
    clear_locals(s2)
    for i, v in enumerate(args):
        s2.env["_%d" % (i + 1)] = v
    paths = ex.run("bb0", s2)
    STATS["queries"] += ex.queries
    STATS["time"] += ex.solver_time
    STATS["inlined"] |= ex.inlined
    return ex, paths


def fresh_pager(st, concrete_empty=False):
    """A Pager value whose allocator state is symbolic (or the state of a freshly created file)."""
    if concrete_empty:
        b0, b1, nxt = bv(3, 8), bv(0, 8), bv(2, 64)
    else:
        b0, b1, nxt = z3.BitVec("bitmap_byte0", 8), z3.BitVec("bitmap_byte1", 8), z3.BitVec("next_page_id", 64)
        st.pc += [(b0 & 3) == 3, z3.UGE(nxt, 2), z3.ULE(nxt, 12)]
        for i in range(2, NPAGES):
            st.pc.append(z3.Implies(z3.UGE(bv(i, 64), nxt), bit(b0, b1, i) == 0))
    bitmap = PyVec([b0, b1] + [bv(0, 8)] * (PAGE - 2))
    st.env["$pager"] = Struct("Pager", {0: Opaque("path"), 1: Opaque("file"), 2: Struct("Meta", {4: nxt}), 3: Struct("Bitmap", {0: bitmap})})
    st.env["$file_len"] = z3.BitVec("file_len", 64) if not concrete_empty else bv(2 * PAGE, 64)
    st.env["$disk_1"] = PyVec(list(bitmap.items))          # the bitmap page on disk agrees with memory (what open() establishes)
    return Ref("$pager"), b0, b1, nxt


def disk_bitmap_agrees(mf, ex, p, failed, what):
    """After the step and a Pager::sync() the bitmap page of the file must equal the in-memory bitmap: nothing else ever writes it
    (close / checkpoint only sync the file), so a stale page means a reopened database sees a different allocation state."""
    ex2, paths = pcall(mf, PG + r"sync\(", [Ref("$pager")], p.st)
    for q in ok_paths(paths, "Pager::sync"):
        if not (isinstance(q.ret, Enum) and q.ret.variant == "Ok"):
            continue
        img = q.st.env.get("$disk_1")
        mem = q.st.env["$pager"].fields[3].fields[0].items
        if not isinstance(img, PyVec) or not ex2.entails(q.pc, z3.And(img.items[0] == mem[0], img.items[1] == mem[1])):
            failed.append("after %s and Pager::sync() the allocation bitmap on disk differs from the one in memory: a clean close + reopen loses the change" % what)


def bit(b0, b1, i):
    return z3.Extract(i % 8, i % 8, b0 if i < 8 else b1)


def pager_state(st):
    p = st.env["$pager"]
    bm = p.fields[3].fields[0].items
    return bm[0], bm[1], p.fields[2].fields[4], bm


def run_allocate(mf, tier):
    STATS.update({"queries": 0, "time": 0.0, "inlined": set()})
    st = State()
    pager, b0, b1, nxt = fresh_pager(st)
    ex, paths = pcall(mf, PG + r"allocate_page\(", [pager], st)
    failed, n = [], 0
    second = []
    for p in ok_paths(paths, "allocate_page"):
        n += 1
        if not (isinstance(p.ret, Enum) and p.ret.variant == "Ok"):
            continue            # a refused allocation changes nothing that another structure owns
        pid = pid_val(p.ret.fields[0])
        nb0, nb1, nnxt, bm = pager_state(p.st)
        checks = [
            ("the allocated page id is below 2 (meta / bitmap page) or beyond next_page_id", z3.And(z3.UGE(pid, 2), z3.ULE(pid, nxt))),
            ("the allocator invariant is not re-established: next_page_id does not cover the allocated page", z3.And(z3.UGT(nnxt, pid), z3.UGE(nnxt, nxt))),
        ]
        for i in range(NPAGES):
            was, now = bit(b0, b1, i), bit(nb0, nb1, i)
            checks.append(("the allocated page was already marked allocated (handed out twice)", z3.Implies(pid == i, was == 0)))
            checks.append(("the allocated page is not marked in the bitmap afterwards", z3.Implies(pid == i, now == 1)))
            checks.append(("allocating a page changes the allocation bit of another page", z3.Implies(pid != i, now == was)))
        for msg, cond in checks:
            if not ex.entails(p.pc, cond):
                failed.append(msg)
        if not all(z3.is_bv_value(z3.simplify(x)) and z3.simplify(x).as_long() == 0 for x in bm[2:6]):
            failed.append("allocation touches bitmap bytes of unrelated pages")
        disk_bitmap_agrees(mf, ex, p, failed, "allocate_page")
        second.append(p)
    # two allocations in a row never return the same page
    for p in second[:6]:
        pid1 = pid_val(p.ret.fields[0])
        ex2, paths2 = pcall(mf, PG + r"allocate_page\(", [pager], p.st)
        for q in ok_paths(paths2, "allocate_page (second)"):
            if isinstance(q.ret, Enum) and q.ret.variant == "Ok":
                n += 1
                if ex2.feasible(q.pc, pid_val(q.ret.fields[0]) == pid1):
                    failed.append("two allocations in a row return the same page")
    res = {"paths": n, "queries": STATS["queries"], "solver_time_s": round(STATS["time"], 3),
           "sample": ["symbolic bitmap (pages 0..15) and next_page_id in [2,12]; inlined: " + ", ".join(sorted(x.split("::")[-1] for x in STATS["inlined"]))[:150]],
           "functions": ["pager::Pager::{allocate_page, ensure_allocated, validate_data_page_id, flush_meta_and_bitmap}, Bitmap::{find_free_in_range, get_bit, set_bit}"]}
    if failed:
        res.update({"status": "fail", "failed": sorted(set(failed)), "reason": "; ".join(sorted(set(failed)))[:400]})
    else:
        res["status"] = "pass"
    return res


def run_free_then_allocate(mf, tier):
    STATS.update({"queries": 0, "time": 0.0, "inlined": set()})
    st = State()
    pager, b0, b1, nxt = fresh_pager(st)
    failed, n = [], 0
    for victim in range(2, 8):
        s = st.fork()
        ex, paths = pcall(mf, PG + r"free_page\(", [pager, page_id(victim)], s)
        for p in ok_paths(paths, "free_page"):
            n += 1
            was = bit(b0, b1, victim)
            ok_ret = isinstance(p.ret, Enum) and p.ret.variant == "Ok"
            nb0, nb1, nnxt, bm = pager_state(p.st)
            if ok_ret:
                disk_bitmap_agrees(mf, ex, p, failed, "free_page")
                if not ex.entails(p.pc, was == 1):
                    failed.append("free_page succeeds on a page that is not allocated")
                for i in range(NPAGES):
                    want = bit(nb0, nb1, i) == (0 if i == victim else bit(b0, b1, i))
                    if not ex.entails(p.pc, want):
                        failed.append("free_page changes the allocation bit of another page" if i != victim else "free_page leaves the page marked")
            else:
                if ex.feasible(p.pc, was == 1):
                    failed.append("free_page refuses an allocated data page")
    res = {"paths": n, "queries": STATS["queries"], "solver_time_s": round(STATS["time"], 3),
           "sample": ["free_page(p) for p in 2..7 on the symbolic allocator state"], "functions": ["pager::Pager::free_page"]}
    if failed:
        res.update({"status": "fail", "failed": sorted(set(failed)), "reason": "; ".join(sorted(set(failed)))[:400]})
    else:
        res["status"] = "pass"
    return res


def run_node_table_vs_neighbour(first_page_only):
    """Fresh file: the node table gets its page (start), another structure gets the next page and writes to it; then a node record
    with symbolic id is written through the real idmap::write_i2e_record. The neighbour's page must keep its content."""
    def run(mf, tier):
        STATS.update({"queries": 0, "time": 0.0, "inlined": set()})
        st = State()
        pager, _, _, _ = fresh_pager(st, concrete_empty=True)
        ex, paths = pcall(mf, PG + r"allocate_page\(", [pager], st)
        ps = [p for p in ok_paths(paths, "allocate_page") if isinstance(p.ret, Enum) and p.ret.variant == "Ok"]
        if len(ps) != 1:
            raise Unsupported("expected one successful allocation on a fresh file")
        start = ps[0].ret.fields[0]
        ex, paths = pcall(mf, PG + r"allocate_page\(", [pager], ps[0].st)
        ps = [p for p in ok_paths(paths, "allocate_page") if isinstance(p.ret, Enum) and p.ret.variant == "Ok"]
        other = ps[0].ret.fields[0]
        s = ps[0].st
        marker = [z3.BitVec("marker%d" % i, 8) for i in range(16)]
        s.env["$neighbour"] = PyVec(marker + [bv(0, 8)] * (PAGE - 16))
        ex, paths = pcall(mf, PG + r"write_page\(", [pager, other, Ref("$neighbour")], s)
        ps = [p for p in ok_paths(paths, "write_page") if isinstance(p.ret, Enum) and p.ret.variant == "Ok"]
        s = ps[0].st
        node_id = z3.BitVec("node_id", 64)
        bound_hi = 512 if first_page_only else 1024
        s.pc += [z3.ULT(node_id, bv(bound_hi, 64))] + ([z3.UGE(node_id, bv(512, 64))] if not first_page_only else [])
        rec = Struct("I2eRecord", {0: z3.BitVec("ext", 64), 1: z3.BitVec("label", 32), 2: bv(0, 32)})
        failed, n = [], 0
        # i2e_location's page/offset depend on the symbolic id: enumerate the in-page slot concretely (512 slots is too many): pick representatives
        reps = [0, 1, 511] if first_page_only else [512, 513, 1023]
        for rid in reps:
            s2 = s.fork()
            s2.pc.append(node_id == rid)
            ex, paths = pcall(mf, r"^fn write_i2e_record\(|^fn idmap::write_i2e_record\(", [pager, start, bv(rid, 64), rec], s2)
            for p in ok_paths(paths, "write_i2e_record"):
                n += 1
                if not (isinstance(p.ret, Enum) and p.ret.variant == "Ok"):
                    continue
                oid = z3.simplify(pid_val(other)).as_long()
                img = p.st.env.get("$disk_%d" % oid)
                same = z3.And([img.items[i] == marker[i] for i in range(16)])
                if not ex.entails(p.pc, same):
                    failed.append("writing a node record overwrites a page that the allocator handed to another structure (node id >= 512 lands in page start+1, "
                                  "and ensure_allocated accepts a page that is already allocated)")
        res = {"paths": n, "queries": STATS["queries"], "solver_time_s": round(STATS["time"], 3),
               "sample": ["fresh file: start = allocate_page(), neighbour = allocate_page(), neighbour page holds 16 symbolic marker bytes; node ids %s" % reps],
               "functions": ["idmap::write_i2e_record, idmap::i2e_location, pager::Pager::{allocate_page, ensure_allocated, read_page, write_page}"]}
        if failed:
            res.update({"status": "fail", "failed": sorted(set(failed)), "reason": "; ".join(sorted(set(failed)))[:400]})
        else:
            res["status"] = "pass"
        return res
    return run


def run_vacuum_copy(ndata):
    """Pager::write_vacuum_copy on a symbolic reachable set {0, 1, p_1 < ... < p_n} (2 <= p_i <= 15): the copy's allocator state must
    satisfy the allocator invariant (every marked page lies below next_page_id), mark exactly the reachable pages and copy them."""
    def run(mf, tier):
        STATS.update({"queries": 0, "time": 0.0, "inlined": set()})
        st = State()
        bitmap = PyVec([bv(0xFF, 8), bv(0xFF, 8)] + [bv(0, 8)] * (PAGE - 2))
        st.env["$pager"] = Struct("Pager", {0: Opaque("path"), 1: Opaque("file"), 2: Struct("Meta", {4: bv(16, 64)}), 3: Struct("Bitmap", {0: bitmap})})
        st.env["$file_len"] = bv(16 * PAGE, 64)
        ps = [z3.BitVec("reachable%d" % i, 64) for i in range(ndata)]
        for i, p_ in enumerate(ps):
            st.pc += [z3.UGE(p_, 2), z3.ULE(p_, 15)]
            if i:
                st.pc.append(z3.ULT(ps[i - 1], p_))
        st.env["$reach"] = PyVec([page_id(0), page_id(1)] + [Struct("PageId", {0: p_}) for p_ in ps])
        ex, paths = pcall(mf, PG + r"write_vacuum_copy\(", [Ref("$pager"), Opaque("target-path"), Ref("$reach")], st, bound=ndata + 6)
        failed, n = [], 0
        for p in ok_paths(paths, "write_vacuum_copy"):
            if not (isinstance(p.ret, Enum) and p.ret.variant == "Ok"):
                if ex.feasible(p.pc):
                    failed.append("write_vacuum_copy fails on a reachable set of allocated pages: %r" % (p.ret,))
                continue
            n += 1
            stats = p.ret.fields[0]
            new_next = stats.fields[1]
            img = p.st.env.get("$disk_1")
            if not isinstance(img, PyVec):
                failed.append("the vacuum copy does not write an allocation bitmap page")
                continue
            b0, b1 = img.items[0], img.items[1]
            for q in ps:
                if not ex.entails(p.pc, z3.UGT(new_next, q)):
                    m = ex.model(p.pc, z3.Not(z3.UGT(new_next, q)))
                    failed.append("the vacuumed file's next_page_id does not lie above every live page: the allocator will hand a live page out again "
                                  "(e.g. live pages %s, next_page_id %s)" % ([m.eval(x, model_completion=True) for x in ps], m.eval(new_next, model_completion=True)))
                    break
            if not ex.entails(p.pc, z3.UGE(new_next, 2)):
                failed.append("the vacuumed file's next_page_id is below the first data page")
            for i in range(2, NPAGES):
                live = z3.Or([q == i for q in ps]) if ps else z3.BoolVal(False)
                if not ex.entails(p.pc, (bit(b0, b1, i) == 1) == live):
                    failed.append("the vacuumed file's bitmap does not mark exactly the live pages")
                    break
            written = p.st.env.get("$disk_sym_writes", []) + [(bv(k, 64), None) for k in p.st.env.get("$disk_writes", [])]
            for q in ps:
                if not ex.entails(p.pc, z3.Or([w == q for w, _ in written] + [z3.BoolVal(False)])):
                    failed.append("a live page is not copied into the vacuumed file")
                    break
        res = {"paths": n, "queries": STATS["queries"], "solver_time_s": round(STATS["time"], 3),
               "sample": ["reachable = {0, 1} + %d symbolic strictly increasing data pages in [2, 15]" % ndata],
               "functions": ["pager::Pager::write_vacuum_copy, Bitmap::{new, set_allocated}, Pager::read_page"]}
        if failed:
            res.update({"status": "fail", "failed": sorted({re.sub(r" \(e\.g\. .*$", "", f) for f in failed}), "reason": "; ".join(sorted(set(failed)))[:500],
                        "witness_text": sorted(set(failed))[:3]})
        else:
            res["status"] = "pass"
        return res
    return run


TARGETS = [
    {"name": "c28_o3_q_e2_vacuum_copy_allocator_state_2_live_pages", "crate": "nervusdb-storage", "run": run_vacuum_copy(2)},
    {"name": "c28_o3_q_e2_vacuum_copy_allocator_state_0_live_pages", "crate": "nervusdb-storage", "run": run_vacuum_copy(0)},
    {"name": "c28_o3_t_e2_vacuum_copy_allocator_state_3_live_pages", "crate": "nervusdb-storage", "run": run_vacuum_copy(3)},
    {"name": "c18_o3_q_e2_allocate_page_step", "crate": "nervusdb-storage", "run": run_allocate},
    {"name": "c18_o3_q_e2_free_page_step", "crate": "nervusdb-storage", "run": run_free_then_allocate},
    {"name": "c18_o2_q_e2_node_record_first_page_keeps_neighbour", "crate": "nervusdb-storage", "run": run_node_table_vs_neighbour(True)},
    {"name": "c18_o2_q_e2_node_record_beyond_first_page_keeps_neighbour", "crate": "nervusdb-storage", "run": run_node_table_vs_neighbour(False)},
]
