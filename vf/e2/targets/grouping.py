"""C21-O3: the collection loop of execute_aggregate puts two input rows into the same group exactly when their grouping keys are
equal, and every row into exactly one group.

The real loop (projection_sort.rs execute_aggregate, from its entry to the first statement after the loop) runs on a stream of N
rows. Grouping keys are symbolic ids (equal ids = equal keys; the key construction itself is C23/C20 territory); the grouping
container is whatever the code uses: maps are association lists whose `entry`/`insert` fork on key equality (vf/e2/mapmodel.py),
vectors are lists, and a hasher is an uninterpreted function of the key id (so two different keys MAY collide, as real hashes do)."""
import re

import z3

from ..symex import FALSE, GENERIC_MODELS, STD_CMP_MODELS, TRUE, Enum, Exec, Opaque, PyVec, Ref, State, Struct, Tup, Unsupported, bv, deref_val
from ..mapmodel import MAP_MODELS
from ..vecmodel import VEC_MODELS

HASH = z3.Function("hash_of_key", z3.BitVecSort(32), z3.BitVecSort(64))


class Stream:
    def __init__(self, pos=0):
        self.pos = pos


def models(nrows, keys):
    def m_into_iter(ex, st, a, dst, callee):
        return [(Stream(0), [], None)]

    def m_next(ex, st, a, dst, callee):
        it = deref_val(ex, st, a[0]) if isinstance(a[0], Ref) else a[0]
        if not isinstance(it, Stream):
            return None
        if it.pos >= nrows:
            return [(Enum("None"), [], "end of input")]
        st.env["$row_idx"] = it.pos
        return [(("ADV", a[0], Stream(it.pos + 1), Enum("Some", [Enum("Ok", [Struct("Row", {0: Opaque("row%d" % it.pos)})])])), [], None)]

    def m_ok(ex, st, a, dst, callee):
        return [(Enum("Ok", [Tup([])]), [], None)]

    def m_opaque(ex, st, a, dst, callee):
        return [(Opaque("lazy"), [], None)]

    def m_key(ex, st, a, dst, callee):
        return [(keys[st.env["$row_idx"]], [], None)]

    def m_len(ex, st, a, dst, callee):
        v = deref_val(ex, st, a[0])
        if not isinstance(v, PyVec):
            return None
        return [(bv(len(v.items), 64), [], None)]

    def m_hasher(ex, st, a, dst, callee):
        return [(Opaque("hasher"), [], None)]

    def m_hash_one(ex, st, a, dst, callee):
        k = a[1]
        for _ in range(3):
            if isinstance(k, Ref):
                k = deref_val(ex, st, k)
        if not z3.is_bv(k):
            raise Unsupported("hash_one of something that is not a grouping key")
        return [(HASH(k), [], None)]

    return [(r"^<Box<dyn Iterator<Item = std::result::Result<Row, error::Error>>> as IntoIterator>::into_iter$", m_into_iter),
            (r"^<Box<dyn Iterator<Item = std::result::Result<Row, error::Error>>> as Iterator>::next$", m_next),
            (r"^Params::check_timeout$|^Params::check_collection_size$|^validate_aggregate_runtime_expressions::<", m_ok),
            (r"slice::<impl \[std::string::String\]>::iter$|^<std::slice::Iter<'_, std::string::String> as Iterator>::filter_map::<", m_opaque),
            (r" as Iterator>::collect::<Vec<Value>>$", m_key),
            (r"^(?:HashMap|BTreeMap)::<.*>::len$", m_len), (r"RandomState::new$|^<RandomState as Default>::default$", m_hasher),
            (r"BuildHasher>::hash_one::<", m_hash_one)] + MAP_MODELS + VEC_MODELS + STD_CMP_MODELS + GENERIC_MODELS


def loop_exit(fn):
    """Label of the first block after the `for item in input` loop: the None target of the switch on the input iterator's next()."""
    for lbl, stmts in fn.blocks.items():
        m = re.search(r"= <Box<dyn Iterator<Item = std::result::Result<Row, error::Error>>> as Iterator>::next\(.*\) -> \[return: (bb\d+)", stmts[-1])
        if m:
            sw = fn.blocks[m.group(1)][-1]
            m2 = re.match(r"^switchInt\(.*\) -> \[0: (bb\d+), ", sw)
            if m2:
                return m2.group(1)
    raise Unsupported("cannot locate the end of the collection loop of execute_aggregate")


def run(nrows):
    def go(mf, tier):
        fn = mf.find(r"^fn projection_sort::execute_aggregate\(")
        exit_bb = loop_exit(fn)
        groups_local = fn.debug.get("groups")
        if not groups_local:
            raise Unsupported("execute_aggregate has no `groups` local")
        keys = [z3.BitVec("key_of_row%d" % i, 32) for i in range(nrows)]
        st = State()
        st.env["_1"], st.env["_2"], st.env["_3"], st.env["_4"], st.env["_5"] = Opaque("snapshot"), Opaque("input"), Opaque("group_by"), Opaque("aggregates"), Opaque("params")
        ex = Exec(fn, models(nrows, keys), bound=nrows + 3, mf=mf, inline=r"^$", stop_at={exit_bb: "after-loop"}, max_paths=4000)
        paths = ex.run("bb0", st)
        failed, n = [], 0
        for p in paths:
            if p.kind == "panic":
                failed.append("the collection loop can panic: %s" % str(p.info)[:80])
                continue
            if p.kind == "bound":
                raise Unsupported("collection loop cut by the loop bound")
            if p.kind == "return":
                failed.append("the collection loop returns early on a stream of well-formed rows")
                continue
            if p.kind != "stop":
                continue
            n += 1
            groups = p.st.env.get(groups_local)
            if not isinstance(groups, PyVec):
                raise Unsupported("`groups` is not a container this check understands: %r" % (groups,))
            member = {}
            for gi, g in enumerate(groups.items):
                if not (isinstance(g, Tup) and len(g.fields) == 2 and isinstance(g.fields[1], PyVec)):
                    raise Unsupported("`groups` holds something other than (key, rows) pairs")
                for r in g.fields[1].items:
                    inner = r.fields[0] if isinstance(r, Struct) else r
                    name = inner.name if isinstance(inner, Opaque) else str(inner)
                    member.setdefault(name, []).append(gi)
            for i in range(nrows):
                gs = member.get("row%d" % i, [])
                if len(gs) != 1:
                    failed.append("an input row ends up in %d groups" % len(gs))
            if failed:
                continue
            for i in range(nrows):
                for j in range(i + 1, nrows):
                    same = member["row%d" % i][0] == member["row%d" % j][0]
                    if same and ex.feasible(p.pc, keys[i] != keys[j]):
                        failed.append("two rows with different grouping keys are put into one group (the container compares something coarser than the key, e.g. its hash)")
                    if not same and ex.feasible(p.pc, keys[i] == keys[j]):
                        failed.append("two rows with equal grouping keys are put into different groups")
            for gi, g in enumerate(groups.items):
                rows_here = [i for i in range(nrows) if member["row%d" % i][0] == gi]
                if rows_here and z3.is_bv(g.fields[0]) and g.fields[0].size() == 32 and not ex.entails(p.pc, g.fields[0] == keys[rows_here[0]]):
                    failed.append("a group is labelled with a key that is not the key of its rows")
        res = {"paths": n, "queries": ex.queries, "solver_time_s": round(ex.solver_time, 3),
               "sample": ["%d input rows with symbolic grouping-key ids; hasher = uninterpreted function" % nrows],
               "functions": ["executor::projection_sort::execute_aggregate (collection loop)"]}
        if failed:
            res.update({"status": "fail", "failed": sorted(set(failed)), "reason": "; ".join(sorted(set(failed)))[:500]})
        else:
            res["status"] = "pass"
        return res
    return go


TARGETS = [
    {"name": "c21_o3_q_rows_grouped_by_key_equality_3_rows", "crate": "nervusdb-query", "run": run(3)},
    {"name": "c21_o3_t_rows_grouped_by_key_equality_4_rows", "crate": "nervusdb-query", "run": run(4)},
]
