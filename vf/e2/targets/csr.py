"""C05-O3 / C30-O2: the CSR segment kernels on larger shapes than the Kani harnesses reach.

A forward segment (what build_segment_from_runs / the bulk loader hand to persist) with up to 3 sources and up to 4 relationships:
    min_src = S (symbolic), offsets = concrete prefix sums, edges[i] = (rel_i symbolic, dst = D + off_i)   (D symbolic, off_i in 0..2)
The real `CsrSegment::persist` builds the reverse index (closures, sort_by_key, offset table loops run on the real MIR); then the real
`neighbors` / `incoming_neighbors` (+ their filter/map closures) are executed for every node id in and next to the id ranges, with
and without a symbolic relationship-type filter. Oracle: outgoing(S+k) = the stored relationships of source k, in order;
incoming(D+j) = exactly the stored relationships with destination D+j (as a multiset); outside the ranges: nothing; never a panic."""
import itertools
import re

import z3

from ..symex import (FALSE, GENERIC_MODELS, STD_CMP_MODELS, TRUE, Enum, Exec, Opaque, PyVec, Ref, State, Struct, Tup, Unsupported, bv,
                     deref_val, subcall)
from ..bytesmodel import ByteIt, buf_of, conc, m_unwrap
from ..vecmodel import VEC_MODELS, m_index_usize, m_index_range


class ListIt:
    def __init__(self, items, pos=0):
        self.items, self.pos = items, pos


def lex_lt3(a, b):
    return z3.Or(z3.ULT(a[0], b[0]), z3.And(a[0] == b[0], z3.Or(z3.ULT(a[1], b[1]), z3.And(a[1] == b[1], z3.ULT(a[2], b[2])))))


def lex_eq3(a, b):
    return z3.And(a[0] == b[0], a[1] == b[1], a[2] == b[2])


def csr_models():
    def m_range_next(ex, st, a, dst, callee):
        r = deref_val(ex, st, a[0])
        if not (isinstance(r, Struct) and r.name == "Range"):
            return None
        s, e = r.fields[0], r.fields[1]
        adv = Struct("Range", {0: s + 1, 1: e})
        return [(("ADV", a[0], adv, Enum("Some", [s])), [z3.ULT(s, e)], None), (Enum("None"), [z3.UGE(s, e)], None)]

    def m_identity(ex, st, a, dst, callee):
        return [(a[0], [], None)]

    def m_enum_map(ex, st, a, dst, callee):
        """<Enumerate<slice::Iter<EdgeRecord>>>::map(closure): kept lazy, evaluated by collect"""
        m = re.search(r"\{closure@([^}]*)\}", callee)
        if not m or not isinstance(a[0], ByteIt):
            return None
        return [(Struct("LazyMap", {0: a[0], 1: a[1], 2: Opaque(m.group(1))}), [], None)]

    def m_collect(ex, st, a, dst, callee):
        lm = a[0]
        if not (isinstance(lm, Struct) and lm.name == "LazyMap"):
            return None
        it = lm.fields[0]
        fn = ex.mf.resolve_closure(lm.fields[2].name)
        if fn is None:
            return None
        items = buf_of(ex, st, it.ref).items
        st.env["$csr_closure"] = lm.fields[1]
        partial = [([], [])]
        for i in range(it.pos, len(items)):
            elem = Ref(it.ref.root, list(it.ref.projs) + [("elem", i)])
            arg = Tup([bv(i, 64), elem]) if it.enum else elem
            nxt = []
            for acc, cons in partial:
                s2 = st.fork()
                s2.pc += cons
                res = subcall(ex, s2, fn, [Ref("$csr_closure"), arg])
                if isinstance(res, str):
                    return res
                for val, extra in res:
                    nxt.append((acc + [val], cons + extra))
            partial = nxt
        return [(PyVec(acc), cons, None) for acc, cons in partial]

    def m_sort_by_key(ex, st, a, dst, callee):
        """slice::sort_by_key(|e| (e.dst, e.rel, e.src)): stable sort; every permutation consistent with the symbolic keys is one alternative."""
        m = re.search(r"\{closure@([^}]*)\}", callee)
        v = buf_of(ex, st, a[0])
        fn = ex.mf.resolve_closure(m.group(1)) if m else None
        if fn is None:
            return None
        keys = []
        for i in range(len(v.items)):
            st.env["$sort_closure"] = a[1]
            res = subcall(ex, st, fn, [Ref("$sort_closure"), Ref(a[0].root, list(a[0].projs) + [("elem", i)])])
            if isinstance(res, str) or len(res) != 1 or res[0][1]:
                raise Unsupported("sort key closure forks or can panic")
            keys.append(res[0][0].fields)
        n = len(keys)
        alts = []
        for perm in itertools.permutations(range(n)):
            cons = []
            for x, y in zip(perm, perm[1:]):
                cons.append(lex_lt3(keys[x], keys[y]) if x > y else z3.Or(lex_lt3(keys[x], keys[y]), lex_eq3(keys[x], keys[y])))
            if ex.feasible(st.pc, z3.And(cons) if cons else z3.BoolVal(True)):
                alts.append((("ADV", a[0], PyVec([v.items[i] for i in perm]), Tup([])), cons, "sorted as %s" % (perm,)))
        return alts

    def m_partition_point(ex, st, a, dst, callee):
        """slice::partition_point(pred) = std's binary_search_by(|x| if pred(x) { Less } else { Greater }) (same probe sequence)."""
        m = re.search(r"\{closure@([^}]*)\}", callee)
        v = buf_of(ex, st, a[0])
        fn = ex.mf.resolve_closure(m.group(1)) if m else None
        if fn is None:
            return None
        st.env["$pp_closure"] = a[1]
        n = len(v.items)
        results = []

        def probe(i, cons):
            s2 = st.fork()
            s2.pc += cons
            r = subcall(ex, s2, fn, [Ref("$pp_closure"), Ref(a[0].root, list(a[0].projs) + [("elem", i)])])
            if isinstance(r, str):
                raise Unsupported("partition_point predicate can panic: " + r)
            out = []
            for val, extra in r:
                for flag, c in ((True, val == TRUE), (False, val == FALSE)):
                    if ex.feasible(s2.pc + extra, c):
                        out.append((flag, cons + extra + [c]))
            return out

        def go(base, size, cons):
            if size == 0:
                results.append((bv(0, 64), cons, None))
                return
            if size > 1:
                half = size // 2
                mid = base + half
                for is_less, c2 in probe(mid, cons):
                    go(mid if is_less else base, size - half, c2)
                return
            for is_less, c2 in probe(base, cons):
                results.append((bv(base + (1 if is_less else 0), 64), c2, None))
        go(0, n, [])
        return results

    def m_first(ex, st, a, dst, callee):
        v = buf_of(ex, st, a[0])
        if not v.items:
            return [(Enum("None"), [], None)]
        i = 0 if callee.endswith("first") else len(v.items) - 1
        return [(Enum("Some", [Ref(a[0].root, list(a[0].projs) + [("elem", i)])]), [], None)]

    def m_from_elem(ex, st, a, dst, callee):
        n = conc(a[1], "vec![x; n] length")
        if n > 64:
            raise Unsupported("vec![x; n] with n = %d" % n)
        return [(PyVec([a[0]] * n), [], None)]

    def m_vec_into_iter(ex, st, a, dst, callee):
        v = a[0]
        if isinstance(v, Ref):
            v = deref_val(ex, st, v)
        if not isinstance(v, PyVec):
            return None
        return [(ListIt(list(v.items)), [], None)]

    def m_list_next(ex, st, a, dst, callee):
        it = deref_val(ex, st, a[0]) if isinstance(a[0], Ref) else a[0]
        if not isinstance(it, ListIt):
            return None
        if it.pos >= len(it.items):
            return [(Enum("None"), [], None)]
        return [(("ADV", a[0], ListIt(it.items, it.pos + 1), Enum("Some", [it.items[it.pos]])), [], None)]

    def m_min(ex, st, a, dst, callee):
        lo = callee.endswith("min")
        return [(z3.If(z3.ULT(a[0], a[1]) if lo else z3.UGT(a[0], a[1]), a[0], a[1]), [], None)]

    def m_opaque(name):
        return lambda ex, st, a, dst, callee: [(Opaque(name), [], None)]

    def m_ok_vec(ex, st, a, dst, callee):
        return [(Enum("Ok", [PyVec()]), [], None)]

    def m_ok_unit(ex, st, a, dst, callee):
        return [(Enum("Ok", [Tup([])]), [], None)]

    def m_alloc(ex, st, a, dst, callee):
        return [(Enum("Ok", [Struct("PageId", {0: bv(9, 64)})]), [], None)]

    def m_slice_get(ex, st, a, dst, callee):
        v = buf_of(ex, st, a[0])
        i = z3.simplify(a[1])
        if not z3.is_bv_value(i):
            n = len(v.items)
            alts = [(Enum("None"), [z3.UGE(i, bv(n, 64))], None)]
            for k in range(n):
                alts.append((Enum("Some", [Ref(a[0].root, list(a[0].projs) + [("elem", k)])]), [i == k], None))
            return alts
        i = i.as_long()
        if i < len(v.items):
            return [(Enum("Some", [Ref(a[0].root, list(a[0].projs) + [("elem", i)])]), [], None)]
        return [(Enum("None"), [], None)]

    def m_lazy(kind):
        def f(ex, st, a, dst, callee):
            m = re.search(r"\{closure@([^}]*)\}>?$", callee) or re.search(r"\{closure@([^}]*)\}", callee)
            # the LAST closure named in the callee text is the one passed to this adaptor
            locs = re.findall(r"\{closure@([^}]*)\}", callee)
            if not locs:
                return None
            return [(Struct(kind, {0: a[0], 1: a[1], 2: Opaque(locs[-1])}), [], None)]
        return f

    def m_empty(ex, st, a, dst, callee):
        return [(Struct("EmptyIter", {}), [], None)]

    return [(r"(?:Result|Option)::<.*>::(?:unwrap|expect)$", m_unwrap), (r"^<std::ops::Range<usize> as IntoIterator>::into_iter$", m_identity), (r"^<std::ops::Range<usize> as Iterator>::next$", m_range_next),
            (r"^<Enumerate<std::slice::Iter<'_, EdgeRecord>> as Iterator>::map::<", m_enum_map),
            (r"^<std::iter::Map<Enumerate<std::slice::Iter<'_, EdgeRecord>>, .*> as Iterator>::collect::<Vec<", m_collect),
            (r"slice::<impl \[nervusdb_api::EdgeKey\]>::sort_by_key::<", m_sort_by_key),
            (r"slice::<impl \[.*\]>::partition_point::<", m_partition_point),
            (r"slice::<impl \[nervusdb_api::EdgeKey\]>::(first|last)$", m_first), (r"^std::vec::from_elem::<u64>$", m_from_elem),
            (r"^<Vec<nervusdb_api::EdgeKey> as IntoIterator>::into_iter$", m_vec_into_iter),
            (r"^<std::vec::IntoIter<nervusdb_api::EdgeKey> as Iterator>::next$", m_list_next), (r"^<u32 as Ord>::(min|max)$", m_min),
            (r"^encode_offsets$|^encode_edges$", m_opaque("bytes")), (r"^write_blob_pages$", m_ok_vec), (r"^encode_meta$", m_ok_unit),
            (r"^Pager::allocate_page$", m_alloc), (r"^Pager::write_page$", m_ok_unit), (r"slice::<impl \[u64\]>::get::<usize>$", m_slice_get),
            (r"^<std::slice::Iter<'_, EdgeRecord> as Iterator>::filter::<", m_lazy("LazyFilter")),
            (r"^<Filter<std::slice::Iter<'_, EdgeRecord>, .*> as Iterator>::map::<", m_lazy("LazyMap2")),
            (r"^std::iter::empty::<", m_empty), (r"^Box::<.*>::new$", m_identity),
            (r"^<Vec<(u64|EdgeRecord|nervusdb_api::EdgeKey)> as (?:std::ops::)?Index(?:Mut)?<usize>>::index(?:_mut)?$", m_index_usize),
            (r"^<Vec<EdgeRecord> as (?:std::ops::)?Index<(?:std::ops::)?Range<usize>>>::index$", m_index_range)]


def drain_iter(ex, st, mf, boxed):
    """Evaluate the lazily adapted iterator a read kernel returns: -> [(constraints, [EdgeKey structs])]"""
    if isinstance(boxed, Struct) and boxed.name == "EmptyIter":
        return [([], [])]
    if isinstance(boxed, Opaque) and "Empty" in boxed.name:
        return [([], [])]
    if not (isinstance(boxed, Struct) and boxed.name == "LazyMap2"):
        raise Unsupported("read kernel returns an iterator shape this check does not understand: %r" % (boxed,))
    flt = boxed.fields[0]
    if not (isinstance(flt, Struct) and flt.name == "LazyFilter" and isinstance(flt.fields[0], ByteIt)):
        raise Unsupported("read kernel returns an iterator shape this check does not understand: %r" % (flt,))
    it = flt.fields[0]
    ffn, mfn = mf.resolve_closure(flt.fields[2].name), mf.resolve_closure(boxed.fields[2].name)
    if ffn is None or mfn is None:
        raise Unsupported("filter/map closure not in the MIR dump")
    n = len(buf_of(ex, st, it.ref).items)
    st.env["$flt_closure"], st.env["$map_closure2"] = flt.fields[1], boxed.fields[1]
    partial = [([], [])]
    for i in range(it.pos, n):
        st.env["$elem_ref"] = Ref(it.ref.root, list(it.ref.projs) + [("elem", i)])
        nxt = []
        for cons, acc in partial:
            s2 = st.fork()
            s2.pc += cons
            res = subcall(ex, s2, ffn, [Ref("$flt_closure"), Ref("$elem_ref")])
            if isinstance(res, str):
                raise AssertionError("the relationship-type filter closure can panic: " + res)
            for val, extra in res:
                for keep, c in ((True, val == TRUE), (False, val == FALSE)):
                    if not ex.feasible(s2.pc + extra, c):
                        continue
                    if not keep:
                        nxt.append((cons + extra + [c], acc))
                        continue
                    s3 = st.fork()
                    s3.pc += cons + extra + [c]
                    r2 = subcall(ex, s3, mfn, [Ref("$map_closure2"), st.env["$elem_ref"]])
                    if isinstance(r2, str):
                        raise AssertionError("the map closure can panic: " + r2)
                    for v2, e2 in r2:
                        nxt.append((cons + extra + [c] + e2, acc + [v2]))
        partial = nxt
    return partial


def shapes(tier):
    """(edges per source, dst offset per edge): concrete layout, symbolic ids."""
    out = []
    quick = [((1,), (0,)), ((2,), (0, 1)), ((2,), (1, 1)), ((1, 1), (0, 0)), ((1, 0, 1), (2, 0)), ((2, 1), (0, 2, 0)), ((0, 2), (1, 0)),
             ((1, 2), (1, 0, 1)), ((3,), (0, 0, 2))]
    if tier == "quick":
        return quick
    for counts in [c for n in (1, 2, 3) for c in itertools.product((0, 1, 2), repeat=n) if 1 <= sum(c) <= 4 and c[0] > 0 and c[-1] > 0]:
        total = sum(counts)
        for offs in itertools.product((0, 1, 2), repeat=total):
            if 0 in offs:
                out.append((counts, offs))
    return out[:150]


def run(mf, tier):
    models = csr_models() + VEC_MODELS + STD_CMP_MODELS + GENERIC_MODELS
    pfn = mf.find(r"csr\.rs:[^>]*>::persist\(_1: &mut CsrSegment")
    nfn = mf.find(r"csr\.rs:[^>]*>::neighbors\(_1: &CsrSegment")
    ifn = mf.find(r"csr\.rs:[^>]*>::incoming_neighbors\(_1: &CsrSegment")
    failed, ncases, queries, stime = [], 0, 0, 0.0
    S, D, RQ = z3.BitVec("min_src", 32), z3.BitVec("dst_base", 32), z3.BitVec("rel_filter", 32)
    lim = bv((1 << 32) - 16, 32)
    for counts, offs in shapes(tier):
        st = State()
        st.pc += [z3.ULT(S, lim), z3.ULT(D, lim), z3.UGE(S, 1), z3.UGE(D, 1)]
        nsrc = len(counts)
        rels = [z3.BitVec("rel%d" % i, 32) for i in range(len(offs))]
        edges = [Struct("EdgeRecord", {0: rels[i], 1: D + offs[i]}) for i in range(len(offs))]
        prefix = [0]
        for c in counts:
            prefix.append(prefix[-1] + c)
        src_of = [k for k, c in enumerate(counts) for _ in range(c)]
        st.env["$seg"] = Struct("CsrSegment", {0: Struct("SegmentId", {0: bv(1, 64)}), 1: bv(0, 64), 2: S, 3: S + (nsrc - 1), 4: bv(0, 32), 5: bv(0, 32),
                                               6: PyVec([bv(x, 64) for x in prefix]), 7: PyVec(edges), 8: PyVec(), 9: PyVec()})
        st.env["_1"], st.env["_2"] = Ref("$seg"), Opaque("pager")
        ex = Exec(pfn, models, bound=16, mf=mf, inline=r".", max_paths=2000)
        paths = ex.run("bb0", st)
        queries += ex.queries
        stime += ex.solver_time
        for p in paths:
            if p.kind == "panic":
                failed.append("persist can panic while building the reverse index: %s (shape %s/%s)" % (str(p.info)[:60], counts, offs))
                continue
            if p.kind == "bound":
                raise Unsupported("persist cut by the loop bound")
            if p.kind != "return" or not (isinstance(p.ret, Enum) and p.ret.variant == "Ok"):
                continue
            for direction, fn, base, span in (("out", nfn, S, nsrc), ("in", ifn, D, max(offs) + 1)):
                for k in range(-1, span + 1):
                    for use_filter in (False, True):
                        s2 = p.st.fork()
                        for key in [key for key in s2.env if re.match(r"^_\d+(@\S+)?$", key)]:
                            del s2.env[key]
                        s2.visits, s2.frames = {}, []
                        node = base + k if k >= 0 else base - 1
                        s2.env["_1"], s2.env["_2"] = Ref("$seg"), node
                        s2.env["_3"] = Enum("Some", [RQ]) if use_filter else Enum("None")
                        ex2 = Exec(fn, models, bound=8, mf=mf, inline=r".", max_paths=2000)
                        qpaths = ex2.run("bb0", s2)
                        for q in qpaths:
                            if q.kind == "panic":
                                failed.append("%s(%s%+d) can panic: %s (shape %s/%s)" % ("neighbors" if direction == "out" else "incoming_neighbors",
                                                                                          "min_src" if direction == "out" else "min_dst", k, str(q.info)[:60], counts, offs))
                                continue
                            if q.kind != "return":
                                continue
                            try:
                                results = drain_iter(ex2, q.st, mf, q.ret)
                            except AssertionError as e:
                                failed.append(str(e))
                                continue
                            for cons, got in results:
                                pc = q.st.pc + cons
                                if not ex2.feasible(pc):
                                    continue
                                ncases += 1
                                # expected: stored relationships of this node (position-wise for outgoing, as a multiset for incoming)
                                if direction == "out":
                                    idxs = [i for i in range(len(offs)) if src_of[i] == k]
                                else:
                                    idxs = [i for i in range(len(offs)) if offs[i] == k]
                                want = [(S + src_of[i], rels[i], D + offs[i], i) for i in idxs]
                                # with a filter every candidate is present iff its rel equals the filter on this path
                                present = []
                                for w in want:
                                    if not use_filter:
                                        present.append(w)
                                    elif ex2.entails(pc, w[1] == RQ):
                                        present.append(w)
                                    elif ex2.feasible(pc, w[1] == RQ):
                                        present = None      # undecided on this path (the kernel did not compare it): cannot happen for a correct kernel
                                        break
                                what = "%s(%s%+d%s) on a segment with %s relationships per source and destinations %s" % (
                                    "neighbors" if direction == "out" else "incoming_neighbors", "min_src" if direction == "out" else "min_dst", k,
                                    ", rel filter" if use_filter else "", list(counts), ["min_dst+%d" % o for o in offs])
                                if present is None:
                                    failed.append("the relationship-type filter is not applied to every candidate: " + what)
                                    continue
                                if len(got) != len(present):
                                    failed.append("returns %d relationships instead of %d: %s" % (len(got), len(present), what))
                                    continue
                                if direction == "out":
                                    ok = all(ex2.entails(pc, z3.And(g.fields[0] == w[0], g.fields[1] == w[1], g.fields[2] == w[2])) for g, w in zip(got, present))
                                else:
                                    ok = False
                                    for perm in itertools.permutations(range(len(present))):
                                        if all(ex2.entails(pc, z3.And(got[a].fields[0] == present[b][0], got[a].fields[1] == present[b][1],
                                                                      got[a].fields[2] == present[b][2])) for a, b in enumerate(perm)):
                                            ok = True
                                            break
                                    if not ok and len(present) > 1:
                                        # the order may depend on symbolic rel values: check as a multiset under the path condition
                                        ok = ex2.entails(pc, z3.Or([z3.And([z3.And(got[a].fields[0] == present[b][0], got[a].fields[1] == present[b][1],
                                                                                   got[a].fields[2] == present[b][2]) for a, b in enumerate(perm)])
                                                                    for perm in itertools.permutations(range(len(present)))]))
                                if not ok:
                                    failed.append("returns relationships that are not the stored ones: " + what)
                        queries += ex2.queries
                        stime += ex2.solver_time
    res = {"paths": ncases, "queries": queries, "solver_time_s": round(stime, 3),
           "sample": ["%d segment shapes (relationships per source, destination offsets), e.g. %s; ids min_src / min_dst / rel types symbolic" % (len(shapes(tier)), shapes(tier)[:4])],
           "functions": ["csr::CsrSegment::{persist (reverse-index construction), neighbors, incoming_neighbors} + their closures"]}
    if failed:
        res.update({"status": "fail", "failed": sorted({re.sub(r" \(shape .*$| on a segment with .*$", "", f) for f in failed}), "reason": "; ".join(sorted(set(failed)))[:600],
                    "witness_text": sorted(set(failed))[:5]})
    else:
        res["status"] = "pass"
    return res


def run_tier(tier_name):
    return lambda mf, tier: run(mf, tier_name)


TARGETS = [
    {"name": "c05_o3_q_e2_segment_kernels_after_persist", "crate": "nervusdb-storage", "run": run_tier("quick")},
    {"name": "c30_o2_q_e2_segment_kernels_after_persist", "crate": "nervusdb-storage", "run": run_tier("quick")},
    {"name": "c05_o3_t_e2_segment_kernels_after_persist_all_shapes", "crate": "nervusdb-storage", "run": run_tier("thorough")},
]
