"""C22-O2 for ORDER BY: errors raised while evaluating sort keys are reported.

(a) the key closure (execute_order_by::{closure#0}): an Err input row is passed on; for an Ok row every sort-key expression goes
    through the runtime compatibility check and a failing check replaces the row by that error;
(b) the pipeline (execute_order_by): every collected input row reaches the output only through the key closure (a row emitted
    without it would hide a sort-key error), and errors of the collection loop (timeout, collection limit) are the only output.
"""
import re

import z3

from ..symex import (FALSE, GENERIC_MODELS, STD_CMP_MODELS, TRUE, Enum, Exec, Opaque, PyVec, Ref, State, Struct, SymEnum, Tup,
                     Unsupported, deref_val)
from .. import witness


class It:
    def __init__(self, kind, pos=0, src=None):
        self.kind, self.pos, self.src = kind, pos, src


def closure_id(mf, callee):
    m = re.search(r"\{closure@([^}]*)\}", callee.split("::<")[-1])
    if not m:
        return None
    fn = mf.resolve_closure(m.group(1))
    if fn is None:
        return "closure@" + m.group(1)
    return fn.header[3:].split("(")[0]


def run_key_closure(nitems):
    def run(mf, tier):
        fn = mf.find(r"^fn execute_order_by::\{closure#0\}\(")

        def m_into_iter(ex, st, a, dst, callee):
            return [(It("items", 0), [], None)]

        def m_next(ex, st, a, dst, callee):
            it = deref_val(ex, st, a[0])
            if not isinstance(it, It):
                return None
            if it.pos >= nitems:
                return [(Enum("None"), [], None)]
            slot = "$item%d" % it.pos
            st.env[slot] = Tup([Opaque("expr%d" % it.pos), Opaque("dir%d" % it.pos)])
            return [(("ADV", a[0], It("items", it.pos + 1), Enum("Some", [Ref(slot)])), [], None)]

        def m_compat(ex, st, a, dst, callee):
            e = deref_val(ex, st, a[0]) if isinstance(a[0], Ref) else a[0]
            nm = e.name if isinstance(e, Opaque) else repr(e)
            st.env["$checked"] = st.env.get("$checked", []) + [nm]
            return [(Enum("Ok", [Tup([])]), [], "compat(%s)=Ok" % nm), (Enum("Err", [Opaque("compat-error-" + nm)]), [], "compat(%s)=Err" % nm)]

        def m_opaque(name):
            def f(ex, st, a, dst, callee):
                return [(Struct(name, {}), [], None)]
            return f

        models = [(r"as IntoIterator>::into_iter$", m_into_iter), (r"slice::Iter<'_, \(ast::Expression, ast::Direction\)> as Iterator>::next$", m_next),
                  (r"ensure_runtime_expression_compatible::<", m_compat), (r"slice::<impl \[.*\]>::iter$", m_opaque("iter")),
                  (r"as Iterator>::map::<", m_opaque("map")), (r"as Iterator>::collect::<", m_opaque("sort_keys"))] + GENERIC_MODELS
        ex = Exec(fn, models, bound=nitems + 2, mf=mf, inline=None)
        st = State()
        st.env["$env"] = Struct("closure-env", {0: Ref("$items_ref"), 1: Opaque("snapshot"), 2: Opaque("params")})
        st.env["$items_ref"] = Opaque("items")
        st.env["_1"] = Ref("$env")
        st.env["_2"] = SymEnum("row", [("Ok", [lambda e, s: Opaque("the-row")]), ("Err", [lambda e, s: Opaque("input-error")])])
        paths = ex.run("bb0", st)
        failed, n = [], 0
        for p in paths:
            if p.kind == "panic":
                failed.append("panic possible on [%s]" % p.signature())
                continue
            if p.kind != "return":
                continue
            n += 1
            ret = p.ret
            if not isinstance(ret, Tup) or len(ret.fields) != 2:
                raise Unsupported("key closure returned %r" % (ret,))
            out = ret.fields[0]
            inp_err = any(e.endswith("is Err") for e in p.events)
            errs = [e for e in p.events if re.match(r"^compat\(.*\)=Err$", e)]
            checked = p.st.env.get("$checked", [])
            if inp_err:
                if not (isinstance(out, Enum) and out.variant == "Err" and isinstance(out.fields[0], Opaque) and out.fields[0].name == "input-error"):
                    failed.append("ORDER BY drops or alters an input error row")
                continue
            if errs:
                if not (isinstance(out, Enum) and out.variant == "Err" and isinstance(out.fields[0], Opaque) and out.fields[0].name.startswith("compat-error")):
                    failed.append("a sort-key runtime error is not reported for the row (the row is kept or another value is returned)")
            else:
                if not (isinstance(out, Enum) and out.variant == "Ok"):
                    failed.append("a row with well-typed sort keys is not passed on")
                if len(checked) != nitems:
                    failed.append("only %d of %d sort-key expressions go through the runtime compatibility check" % (len(checked), nitems))
        res = {"paths": n, "queries": ex.queries, "solver_time_s": round(ex.solver_time, 3),
               "sample": [p.signature() + " => " + repr(p.ret)[:60] for p in paths if p.kind == "return"][:6], "functions": [fn.header[:80]]}
        if failed:
            res.update({"status": "fail", "failed": sorted(set(failed)), "reason": "; ".join(sorted(set(failed)))[:400]})
        else:
            res["status"] = "pass"
        return res
    return run


def run_pipeline(nrows):
    def run(mf, tier):
        fn = mf.find(r"^fn execute_order_by\(")
        key_closure = mf.find(r"^fn execute_order_by::\{closure#0\}\(").header[3:].split("(")[0]

        def m_plan(ex, st, a, dst, callee):
            return [(It("input", 0), [], None)]

        def m_into_iter(ex, st, a, dst, callee):
            v = a[0]
            if isinstance(v, It):
                return [(v, [], None)]
            if isinstance(v, PyVec):
                return [(Struct("IntoIter", {0: v}), [], None)]
            if isinstance(v, Struct):
                return [(Struct("IntoIter", {0: v}), [], None)]
            return None

        def m_next(ex, st, a, dst, callee):
            it = deref_val(ex, st, a[0])
            if not isinstance(it, It):
                return None
            k = it.pos
            res = [(Enum("None"), [], "in%d=end" % k)]
            if k < nrows:
                adv = It("input", k + 1)
                res.append((("ADV", a[0], adv, Enum("Some", [Enum("Ok", [Opaque("row%d" % k)])])), [], "in%d=Ok" % k))
                res.append((("ADV", a[0], adv, Enum("Some", [Enum("Err", [Opaque("err%d" % k)])])), [], "in%d=Err" % k))
            return res

        def m_timeout(ex, st, a, dst, callee):
            return [(Enum("Ok", [Tup([])]), [], None), (Enum("Err", [Opaque("timeout-error")]), [], "timeout=Err")]

        def m_limit(ex, st, a, dst, callee):
            return [(Enum("Ok", [Tup([])]), [], None), (Enum("Err", [Opaque("limit-error")]), [], "limit=Err")]

        def m_once(ex, st, a, dst, callee):
            return [(Struct("Once", {0: a[0]}), [], None)]

        def m_box(ex, st, a, dst, callee):
            return [(a[0], [], None)]

        def m_map(ex, st, a, dst, callee):
            return [(Struct("Map", {0: a[0], 1: Opaque(closure_id(mf, callee) or "?")}), [], None)]

        def m_collect(ex, st, a, dst, callee):
            return [(Struct("Collected", {0: a[0]}), [], None)]

        def m_sort_by(ex, st, a, dst, callee):
            tgt = a[0]
            if not isinstance(tgt, Ref):
                return None
            cur = deref_val(ex, st, tgt)
            return [(("ADV", tgt, Struct("Sorted", {0: cur, 1: Opaque(closure_id(mf, callee) or "?")}), Tup([])), [], None)]

        models = [(r"execute_plan::<", m_plan), (r"as IntoIterator>::into_iter$", m_into_iter), (r"^<PlanIterator<.*> as Iterator>::next$", m_next),
                  (r"Params::check_timeout$", m_timeout), (r"Params::check_collection_size$", m_limit), (r"^once::<|iter::once::<", m_once),
                  (r"Box::<.*>::new$", m_box), (r"as Iterator>::map::<", m_map), (r"as Iterator>::collect::<", m_collect),
                  (r"slice::<impl \[.*\]>::sort_by::<", m_sort_by)] + GENERIC_MODELS
        ex = Exec(fn, models, bound=nrows + 3, mf=mf, inline=None, max_paths=20000)
        st = State()
        for i, nm in ((1, "snapshot"), (2, "plan"), (4, "params")):
            st.env["_%d" % i] = Opaque(nm)
        st.env["$items"] = Opaque("items")
        st.env["_3"] = Ref("$items")
        paths = ex.run("bb0", st)
        failed, n, cut = [], 0, 0

        def chain(v):
            """Unfold the returned iterator structure into a list of stage names down to its source."""
            out = []
            while True:
                if isinstance(v, Enum) and v.variant == "Dynamic":
                    v = v.fields[0]
                elif isinstance(v, Struct) and v.name in ("Map", "Sorted"):
                    out.append("%s[%s]" % (v.name, v.fields[1].name))
                    v = v.fields[0]
                elif isinstance(v, Struct) and v.name in ("IntoIter", "Collected"):
                    out.append(v.name)
                    v = v.fields[0]
                elif isinstance(v, Struct) and v.name == "Once":
                    out.append("Once")
                    return out, v.fields[0]
                else:
                    return out, v

        for p in paths:
            if p.kind == "bound":
                cut += 1
                continue
            if p.kind == "panic":
                failed.append("panic possible on [%s]" % p.signature())
                continue
            if p.kind != "return":
                continue
            n += 1
            stages, src = chain(p.ret)
            ev = p.events
            if "timeout=Err" in ev or "limit=Err" in ev:
                want = "timeout-error" if "timeout=Err" in ev else "limit-error"
                ok = stages == ["Once"] and isinstance(src, Enum) and src.variant == "Err" and isinstance(src.fields[0], Opaque) and src.fields[0].name == want
                if not ok:
                    failed.append("a %s raised while collecting rows for ORDER BY is not the only output" % want.replace("-", " "))
                continue
            # all input collected: the source must be exactly the input items, in order, errors included
            items = []
            for e in ev:
                m = re.match(r"^in(\d+)=(Ok|Err)$", e)
                if m:
                    items.append(("row" if m.group(2) == "Ok" else "err") + m.group(1))
            if not isinstance(src, PyVec):
                raise Unsupported("ORDER BY output is not derived from the collected rows: %r" % (src,))
            got = [x.fields[0].name if isinstance(x, Enum) and x.fields and isinstance(x.fields[0], Opaque) else repr(x) for x in src.items]
            if got != items:
                failed.append("ORDER BY loses, duplicates or reorders collected input items before sorting (%s vs %s)" % (got, items))
            applied = [s for s in stages if s.startswith("Map[")]
            if ("Map[%s]" % key_closure) not in applied:
                if items:
                    failed.append("with %d collected row(s) the rows reach the output without the sort-key closure, so a sort-key runtime error is never reported" % len(items))
        res = {"paths": n, "queries": ex.queries, "solver_time_s": round(ex.solver_time, 3), "paths_cut_by_bound": cut,
               "sample": [p.signature() + " => " + " <- ".join(chain(p.ret)[0]) for p in paths if p.kind == "return"][:6], "functions": [fn.header[:80]]}
        if failed:
            res.update({"status": "fail", "failed": sorted(set(failed)), "reason": "; ".join(sorted(set(failed)))[:400]})
            # public-API replay: a single matching row whose ORDER BY key is ill-typed must raise
            cy = "UNWIND [[1]] AS x RETURN 1 AS one ORDER BY toInteger(x)"
            cy2 = "UNWIND [[1], [2]] AS x RETURN 1 AS one ORDER BY toInteger(x)"
            r1, r2 = witness.query_rows(cy), witness.query_rows(cy2)
            res["witness_text"] = ["public-API replay: `%s` => %s" % (cy, r1), "                   `%s` => %s" % (cy2, r2)]
            if r1 is not None and r2 is not None and r2.startswith("Err("):
                res["reproduced"] = True if r1.startswith("Ok(") else None
        else:
            res["status"] = "pass"
        return res
    return run


TARGETS = [
    {"name": "c22_o2_q_order_by_key_closure", "crate": "nervusdb-query", "run": run_key_closure(2)},
    {"name": "c22_o2_q_order_by_pipeline", "crate": "nervusdb-query", "run": run_pipeline(2)},
]
