"""C01-O2: engine recovery bookkeeping — scan_recovery_state over symbolic committed-transaction sequences.

Semantic obligations (not a re-implementation of the fold):
  (A) a transaction t is skipped by replay (t <= checkpoint_txid) only if some Checkpoint record with up_to >= t names the final
      manifest epoch and no ManifestSwitch that took effect comes after it;
  (B) max_txid >= every committed txid and is one of them (or 0 for an empty log);
  (C) the final manifest is the ManifestSwitch with the greatest epoch, the latest one on ties; its roots/segments are used unless a
      later matching Checkpoint overrides the roots.
"""
import re

import z3

from ..symex import (FALSE, GENERIC_MODELS, TRUE, Enum, Exec, Opaque, PyVec, Ref, State, Struct, Tup, Unsupported, bv, deref_val)
from .util import variant_index


class It:
    def __init__(self, kind, pos=0, tx=None):
        self.kind, self.pos, self.tx = kind, pos, tx

    def __repr__(self):
        return "It(%s,%d)" % (self.kind, self.pos)


class AdvExec(Exec):
    def write(self, st, place, val):
        if isinstance(val, tuple) and val and val[0] == "ADV":
            _, ref, newit, result, log = val
            self._write(st, ref.root, list(ref.projs), newit)
            if log is not None:
                st.env["$log"] = st.env.get("$log", []) + [log]
            val = result
        return super().write(st, place, val)


def run_scan(ntx, nops, kind="recovery"):
    """kind = "recovery": engine::scan_recovery_state; kind = "vacuum": vacuum::scan_wal_roots (the same WAL fold used to find the
    roots that vacuum keeps; it must choose the same final manifest and roots as recovery does)."""
    def run(mf, tier):
        fn = mf.find(r"^fn (?:\S*::)?scan_recovery_state\(" if kind == "recovery" else r"^fn (?:\S*::)?scan_wal_roots\(")
        vi = variant_index("nervusdb-storage/src/wal.rs", "WalRecord")

        def m_default(ex, st, a, dst, callee):
            z = bv(0, 64)
            if kind == "vacuum":
                return [(Struct("WalRoots", {0: z, 1: PyVec(), 2: z, 3: z}), [], None)]
            return [(Struct("RecoveryState", {0: z, 1: PyVec(), 2: z, 3: z, 4: z, 5: z}), [], None)]

        def m_into_iter(ex, st, a, dst, callee):
            v = a[0]
            if isinstance(v, Opaque) and v.name == "committed":
                return [(It("txs", 0), [], None)]
            if isinstance(v, Ref):
                tgt = deref_val(ex, st, v)
                if isinstance(tgt, Opaque) and tgt.name.startswith("ops-of-tx"):
                    return [(It("ops", 0, int(tgt.name[9:])), [], None)]
            return None

        def m_next(ex, st, a, dst, callee):
            ref = a[0]
            it = deref_val(ex, st, ref)
            if not isinstance(it, It):
                return None
            if it.kind == "txs":
                res = [(Enum("None"), [], "end")]
                if it.pos < ntx:
                    k = it.pos
                    txid = ex.fresh_bv("txid%d" % k, 64)
                    slot = "$tx%d" % k
                    st.env[slot] = Struct("CommittedTx", {0: txid, 1: Opaque("ops-of-tx%d" % k)})
                    res.append((("ADV", ref, It("txs", k + 1), Enum("Some", [Ref(slot)]), ("tx", k, txid)), [z3.UGE(txid, 1), z3.ULE(txid, 8)], "tx%d" % k))
                return res
            if it.kind == "ops":
                res = [(Enum("None"), [], None)]
                if it.pos < nops:
                    k, j = it.tx, it.pos
                    nxt = It("ops", j + 1, k)
                    g = Enum("CreateEdge", [ex.fresh_bv("s", 32), ex.fresh_bv("r", 32), ex.fresh_bv("d", 32)])
                    st.env["$op%d_%d_g" % (k, j)] = g
                    res.append((("ADV", ref, nxt, Enum("Some", [Ref("$op%d_%d_g" % (k, j))]), ("op", k, "G")), [], "G"))
                    ep = ex.fresh_bv("ms_epoch", 64)
                    pr, sr = ex.fresh_bv("ms_pr", 64), ex.fresh_bv("ms_sr", 64)
                    seg = Opaque("segments-of-ms-%d-%d" % (k, j))
                    st.env["$op%d_%d_m" % (k, j)] = Enum("ManifestSwitch", [ep, seg, pr, sr])
                    res.append((("ADV", ref, nxt, Enum("Some", [Ref("$op%d_%d_m" % (k, j))]), ("op", k, "MS", ep, seg.name, pr, sr)), [z3.ULE(ep, 3)], "MS"))
                    up, ce = ex.fresh_bv("cp_upto", 64), ex.fresh_bv("cp_epoch", 64)
                    cpr, csr = ex.fresh_bv("cp_pr", 64), ex.fresh_bv("cp_sr", 64)
                    st.env["$op%d_%d_c" % (k, j)] = Enum("Checkpoint", [up, ce, cpr, csr])
                    res.append((("ADV", ref, nxt, Enum("Some", [Ref("$op%d_%d_c" % (k, j))]), ("op", k, "CP", up, ce, cpr, csr)), [z3.ULE(ce, 3), z3.ULE(up, 8)], "CP"))
                return res
            return None

        def m_max(ex, st, a, dst, callee):
            return [(z3.If(z3.UGE(a[0], a[1]), a[0], a[1]), [], None)]

        def m_clone(ex, st, a, dst, callee):
            return [(deref_val(ex, st, a[0]), [], None)]

        models = [(r"as Iterator>::next$", m_next), (r"as IntoIterator>::into_iter$", m_into_iter),
                  (r"<(RecoveryState|WalRoots) as Default>::default$", m_default), (r"<u64 as Ord>::max$", m_max),
                  (r"<Vec<SegmentPointer> as Clone>::clone$", m_clone)] + GENERIC_MODELS
        ex = AdvExec(fn, models, bound=ntx * (nops + 2) + 4, variant_index=vi, max_paths=200000)
        st = State()
        st.env["_1"] = Opaque("committed")
        paths = ex.run("bb0", st)
        failed, n, cut = [], 0, 0
        samples = []
        for p in paths:
            if p.kind == "bound":
                cut += 1
                continue
            if p.kind == "panic":
                failed.append("panic possible on [%s]" % p.signature())
                continue
            if p.kind != "return":
                continue
            n += 1
            log = p.st.env.get("$log", [])
            stt = p.ret
            if kind == "vacuum":
                m_epoch, m_segs, pr, sr = [stt.fields[i] for i in range(4)]
                cp_txid = max_txid = None
            else:
                m_epoch, m_segs, cp_txid, max_txid, pr, sr = [stt.fields[i] for i in range(6)]
            txids = [e[2] for e in log if e[0] == "tx"]
            shape = " ".join(("tx" if e[0] == "tx" else e[2]) for e in log)
            # (B)
            if max_txid is None:
                pass
            elif txids:
                okB = z3.And([z3.UGE(max_txid, t) for t in txids] + [z3.Or([max_txid == t for t in txids])])
            else:
                okB = max_txid == 0
            if max_txid is not None and not ex.entails(p.pc, okB):
                failed.append("max_txid is not the largest committed txid for log shape [%s]" % shape)
            # positions of ops in log order
            ops = [(i, e) for i, e in enumerate(log) if e[0] == "op" and e[2] in ("MS", "CP")]
            mss = [(i, e) for i, e in ops if e[2] == "MS"]
            cps = [(i, e) for i, e in ops if e[2] == "CP"]
            # (C) final manifest epoch = max MS epoch (0 if none)
            if mss:
                okC = z3.And([z3.UGE(m_epoch, e[3]) for _, e in mss] + [z3.Or([m_epoch == e[3] for _, e in mss])])
            else:
                okC = m_epoch == 0
            if not ex.entails(p.pc, okC):
                failed.append("the final manifest epoch is not the greatest ManifestSwitch epoch for log shape [%s]" % shape)
            # final segments: the latest MS among those with the max epoch
            if mss:
                if not isinstance(m_segs, Opaque):
                    if ex.feasible(p.pc):
                        failed.append("a ManifestSwitch was read but no segment list was adopted for log shape [%s]" % shape)
                else:
                    later_same = [e for i, e in mss if ("segments-of-ms" in e[4])]
                    idx = [i for i, e in mss if e[4] == m_segs.name]
                    if not idx:
                        failed.append("the adopted segment list belongs to no ManifestSwitch of the log [%s]" % shape)
                    else:
                        i0 = idx[0]
                        e0 = [e for i, e in mss if i == i0][0]
                        cond = z3.And([e0[3] == m_epoch] + [z3.ULT(e[3], m_epoch) for i, e in mss if i > i0])
                        if not ex.entails(p.pc, cond):
                            failed.append("the adopted segment list is not the latest ManifestSwitch with the greatest epoch for log shape [%s]" % shape)
            # (D) the final roots are those of the final ManifestSwitch unless a later Checkpoint for the final epoch overrides them
            i0 = None
            if mss and isinstance(m_segs, Opaque):
                hit = [i for i, e in mss if e[4] == m_segs.name]
                i0 = hit[0] if hit else None
            if not mss or i0 is not None:
                if mss:
                    e0 = [e for i, e in mss if i == i0][0]
                    want_pr, want_sr = e0[5], e0[6]
                    later = [e for i, e in cps if i > i0]
                else:
                    want_pr, want_sr = bv(0, 64), bv(0, 64)
                    later = [e for i, e in cps]
                for e in later:
                    want_pr = z3.If(e[4] == m_epoch, e[5], want_pr)
                    want_sr = z3.If(e[4] == m_epoch, e[6], want_sr)
                if not ex.entails(p.pc, z3.And(pr == want_pr, sr == want_sr)):
                    failed.append("the property/statistics roots are not those of the final manifest (or of a later Checkpoint for it) for log shape [%s]" % shape)
            if cp_txid is None:
                if len(samples) < 6 and len(ops) >= 2:
                    samples.append(shape + " => epoch=%s" % (z3.simplify(m_epoch),))
                continue
            # (A) skipping is justified: checkpoint_txid > 0 => exists CP with up_to == checkpoint_txid (hence >= any skipped t),
            #     epoch == final manifest epoch, and no effective MS (epoch >= that epoch) after it
            if cps:
                justs = []
                for i, e in cps:
                    later_ms = [m for j, m in mss if j > i]
                    justs.append(z3.And([e[3] == cp_txid, e[4] == m_epoch] + [z3.ULT(m[3], m_epoch) for m in later_ms]))
                okA = z3.Or(cp_txid == 0, z3.Or(justs))
            else:
                okA = cp_txid == 0
            if not ex.entails(p.pc, okA):
                failed.append("replay would skip transactions without a Checkpoint for the final manifest covering them, log shape [%s]" % shape)
            # liveness side of (A): a trailing Checkpoint for the final manifest is honoured (no needless full replay)
            if cps and ops and ops[-1][1][2] == "CP":
                e = ops[-1][1]
                if not ex.entails(p.pc, z3.Implies(e[4] == m_epoch, z3.UGE(cp_txid, e[3]))):
                    failed.append("a trailing Checkpoint for the final manifest is ignored for log shape [%s]" % shape)
            if len(samples) < 6 and len(ops) >= 2:
                samples.append(shape + " => epoch=%s checkpoint_txid=%s" % (z3.simplify(m_epoch), str(z3.simplify(cp_txid))[:60]))
        res = {"paths": n, "queries": ex.queries, "solver_time_s": round(ex.solver_time, 3), "paths_cut_by_bound": cut,
               "sample": samples, "functions": [fn.header[:110]]}
        if failed:
            res.update({"status": "fail", "failed": sorted(set(failed))[:12], "reason": "; ".join(sorted(set(failed)))[:400]})
        else:
            res["status"] = "pass"
        return res
    return run


TARGETS = [
    {"name": "c28_o2_q_vacuum_scan_wal_roots_2tx_2ops", "crate": "nervusdb-storage", "run": run_scan(2, 2, "vacuum")},
    {"name": "c28_o2_t_vacuum_scan_wal_roots_3tx_1op", "crate": "nervusdb-storage", "run": run_scan(3, 1, "vacuum")},
    {"name": "c01_o2_q_scan_recovery_state_2tx_2ops", "crate": "nervusdb-storage", "run": run_scan(2, 2)},
    {"name": "c01_o2_t_scan_recovery_state_3tx_1op", "crate": "nervusdb-storage", "run": run_scan(3, 1)},
]
