"""Resolution of promoted constants (`const path::promoted[k]`) that denote unit enum values or byte strings."""
import re

from ..symex import Enum, PyVec, Unsupported, bv


def promoted_consts(mf, fn):
    out = {}
    txt = None
    for l in fn.lines:
        for m in re.finditer(r"const ((?:[\w<>', ]+::)*?)((?:\{closure#\d+\}::)?promoted\[(\d+)\])", l):
            key = m.group(2)
            if key in out:
                continue
            if txt is None:
                txt = "\n".join(mf.lines)
            owner = fn.header[3:].split("(")[0]
            owner_tail = "::".join(owner.split("::")[-2:]) if "{closure" in owner else owner.split("::")[-1]
            mm = re.search(r"\nconst (?:\S*::)?%s::promoted\[%s\]: [^=]*= \{(.*?)\n\}" % (re.escape(owner_tail), m.group(3)), txt, re.S)
            if not mm:
                continue
            body = mm.group(1)
            e = re.search(r"_1 = (?:[\w:]+::)?([A-Z]\w*);", body)
            if e:
                out[key] = Enum(e.group(1))
                continue
            b = re.search(r'const b"((?:[^"\\]|\\.)*)"', body)
            if b:
                raw = b.group(1).encode().decode("unicode_escape").encode("latin1")
                out[key] = PyVec([bv(x, 8) for x in raw])
    return out
