"""C14-O1: ensure_non_detach_delete_safety — a non-DETACH delete of a node is refused iff the snapshot shows an attached
relationship (outgoing or incoming) that is not itself being deleted in the same statement."""
import re

import z3

from ..symex import (FALSE, GENERIC_MODELS, TRUE, Enum, Exec, Opaque, PyVec, Ref, State, Struct, Tup, Unsupported, bv, deref_val)


class It:
    """Python-side iterator state (immutable; `next` writes an advanced copy back through the reference)."""

    def __init__(self, kind, node=None, pos=0, items=None):
        self.kind, self.node, self.pos, self.items = kind, node, pos, items

    def __repr__(self):
        return "It(%s,%s,%d)" % (self.kind, self.node, self.pos)


def run_safety(nnodes, nedges):
    def run(mf, tier):
        fn = mf.find(r"^fn ensure_non_detach_delete_safety\(")

        def m_into_iter(ex, st, a, dst, callee):
            v = a[0]
            if isinstance(v, It):
                return [(v, [], None)]
            if isinstance(v, PyVec):
                return [(It("set", None, 0, list(v.items)), [], None)]
            if isinstance(v, Ref):
                return [(It("nodes", None, 0), [], None)]
            return None

        def m_neighbors(kind):
            def f(ex, st, a, dst, callee):
                st.env["$cur_iter"] = st.env.get("$cur_iter", 0) + 1
                return [(It(kind, st.env.get("$node", 0), 0), [], None)]
            return f

        def m_next(ex, st, a, dst, callee):
            ref = a[0]
            it = deref_val(ex, st, ref)
            if not isinstance(it, It):
                return None
            alts = []
            if it.kind == "nodes":
                if it.pos < nnodes:
                    n2 = It("nodes", None, it.pos + 1)
                    nid = ex.fresh_bv("node%d" % it.pos, 32)
                    st.env["$nodeval%d" % it.pos] = nid
                    alts.append(("some-node", n2, it.pos, nid))
                res = [(Enum("None"), [], "nodes end after %d" % it.pos)]
                for _, n2, k, nid in alts:
                    # writing the advanced iterator must happen per alternative: do it through an event-specific closure
                    res.append((("ADV", ref, n2, Enum("Some", [Ref("$nodeval%d" % k)]), ("$node", k)), [], "node%d" % k))
                return res
            if it.kind in ("out", "in"):
                res = [(Enum("None"), [], "%s(node%s) end after %d" % (it.kind, it.node, it.pos))]
                if it.pos < nedges:
                    tok = Opaque("%s-edge%d-of-node%s" % (it.kind, it.pos, it.node))
                    res.append((("ADV", ref, It(it.kind, it.node, it.pos + 1), Enum("Some", [tok]), None), [], "%s(node%s)[%d]" % (it.kind, it.node, it.pos)))
                return res
            if it.kind == "set":
                if it.pos >= len(it.items):
                    return [(Enum("None"), [], None)]
                return [(("ADV", ref, It("set", None, it.pos + 1, it.items), Enum("Some", [it.items[it.pos]]), None), [], None)]
            return None

        def m_set_new(ex, st, a, dst, callee):
            return [(PyVec(), [], None)]

        def m_set_insert(ex, st, a, dst, callee):
            v = deref_val(ex, st, a[0])
            if not isinstance(v, PyVec):
                return None
            ex._write(st, a[0].root, list(a[0].projs), PyVec(v.items + [a[1]]))
            return [(TRUE, [], None)]

        def m_contains(ex, st, a, dst, callee):
            e = deref_val(ex, st, a[1])
            name = e.name if isinstance(e, Opaque) else repr(e)
            return [(TRUE, [], "explicit:" + name), (FALSE, [], "not-explicit:" + name)]

        def m_to_string(ex, st, a, dst, callee):
            return [(Opaque("message"), [], None)]

        models = [(r"as Iterator>::next$", m_next)] + GENERIC_MODELS + [
            (r"as IntoIterator>::into_iter$", m_into_iter),
            (r"GraphSnapshot>::neighbors$", m_neighbors("out")),
            (r"GraphSnapshot>::incoming_neighbors$", m_neighbors("in")),
            (r"HashSet::<EdgeKey>::new$", m_set_new),
            (r"HashSet::<EdgeKey>::insert$", m_set_insert),
            (r"HashSet::<EdgeKey>::contains::<EdgeKey>$", m_contains),
            (r"<str as ToString>::to_string$", m_to_string),
        ]
        ex = AdvExec(fn, models, bound=nnodes * (2 * nedges + 2) + 6, max_paths=50000)
        st = State()
        detach = ex.fresh_bv("detach", 1)
        st.env["_2"] = detach
        st.env["_1"] = Opaque("snapshot")
        st.env["$nodes"] = Opaque("nodes-slice")
        st.env["_3"] = Ref("$nodes")
        st.env["$explicit"] = Opaque("explicit-set")
        st.env["_4"] = Ref("$explicit")
        paths = ex.run("bb0", st)
        failed, n, cut = [], 0, 0
        for p in paths:
            if p.kind == "bound":
                cut += 1
                continue
            if p.kind == "panic":
                failed.append("panic possible on [%s]" % p.signature())
                continue
            if p.kind != "return":
                continue
            n += 1
            is_detach = ex.entails(p.pc, detach == TRUE)
            is_not_detach = ex.entails(p.pc, detach == FALSE)
            if not (is_detach or is_not_detach):
                failed.append("path does not decide `detach`")
                continue
            dangling = [e for e in p.events if e.startswith("not-explicit:")]
            attached = [e for e in p.events if re.match(r"^(out|in)\(node\d+\)\[\d+\]$", e)]
            checked = [e for e in p.events if e.startswith("explicit:") or e.startswith("not-explicit:")]
            ok_ret = isinstance(p.ret, Enum) and p.ret.variant == "Ok"
            if is_detach:
                if not ok_ret:
                    failed.append("DETACH DELETE is refused on [%s]" % p.signature())
                continue
            if dangling and ok_ret:
                failed.append("non-DETACH delete accepted although an attached relationship is not deleted: [%s]" % p.signature())
            if not dangling and not ok_ret:
                failed.append("non-DETACH delete refused although every attached relationship is deleted too: [%s]" % p.signature())
            if ok_ret:
                for e in p.events:
                    m = re.match(r"^node(\d+)$", e)
                    if m:
                        k = m.group(1)
                        for d in ("out", "in"):
                            if not any(x.startswith("%s(node%s) end" % (d, k)) for x in p.events):
                                failed.append("delete accepted without consulting the %s relationships of a deleted node" % ("outgoing" if d == "out" else "incoming"))
            if ok_ret and len(checked) != len(attached):
                failed.append("delete accepted without checking every attached relationship (%d attached, %d checked): [%s]" % (
                    len(attached), len(checked), p.signature()))
        res = {"paths": n, "queries": ex.queries, "solver_time_s": round(ex.solver_time, 3), "paths_cut_by_bound": cut,
               "sample": [p.signature()[:160] + " => " + repr(p.ret)[:30] for p in paths if p.kind == "return"][:8],
               "functions": [fn.header[:110]]}
        if failed:
            res.update({"status": "fail", "failed": sorted(set(failed))[:12], "reason": "; ".join(sorted(set(failed)))[:400]})
        else:
            res["status"] = "pass"
        return res
    return run


class AdvExec(Exec):
    """Exec whose call models may return ("ADV", ref, new_iterator_value, result, (env_key, env_val)) as the value of an
    alternative: the iterator behind `ref` is advanced on that alternative only."""

    def write(self, st, place, val):
        if isinstance(val, tuple) and val and val[0] == "ADV":
            _, ref, newit, result, envset = val
            self._write(st, ref.root, list(ref.projs), newit)
            if envset:
                st.env[envset[0]] = envset[1]
            val = result
        return super().write(st, place, val)


TARGETS = [
    {"name": "c14_o1_q_non_detach_delete_safety_1_node_1_edge_each_way", "crate": "nervusdb-query", "run": run_safety(1, 1)},
    {"name": "c14_o1_q_non_detach_delete_safety_1_node_2_edges_each_way", "crate": "nervusdb-query", "run": run_safety(1, 2)},
    {"name": "c14_o1_t_non_detach_delete_safety_2_nodes_2_edges_each_way", "crate": "nervusdb-query", "run": run_safety(2, 2)},
]
