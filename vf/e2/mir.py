"""Parser for the text produced by `rustc -Zunpretty=mir` (one function at a time)."""
import re


class MirError(Exception):
    pass


class Function:
    def __init__(self, header, lines):
        self.header = header
        self.lines = lines
        self.types = {}        # local -> type text
        self.debug = {}        # debug name -> place text
        self.debug_of = {}     # local -> debug name (only for plain locals)
        self.blocks = {}       # label -> list of statement strings (last one is the terminator)
        self.cleanup = set()
        self.args = []
        self._parse()

    def _parse(self):
        hdr = self.header
        # arguments: `_1: T, _2: U` inside the first top-level parentheses after the fn name
        lp = hdr.index("(", hdr.index("fn ") if hdr.startswith("fn ") else 0)
        # find the matching paren of the argument list: it is the one followed by ` -> ` or ` {`
        depth, end = 0, None
        i = _arglist_start(hdr)
        start = i
        while i < len(hdr):
            ch = hdr[i]
            if ch in "(<[":
                depth += 1
            elif ch in ")>]":
                if ch == ">" and hdr[i - 1] == "-":
                    pass
                else:
                    depth -= 1
                    if depth == 0:
                        end = i
                        break
            i += 1
        argtxt = hdr[start + 1:end] if end else ""
        for a in split_top(argtxt, ","):
            m = re.match(r"\s*(_\d+): (.*)$", a.strip())
            if m:
                self.types[m.group(1)] = m.group(2).strip()
                self.args.append(m.group(1))
        m = re.search(r"\) -> (.*) \{$", hdr)
        self.ret_type = m.group(1) if m else "()"
        cur = None
        for l in self.lines[1:]:
            s = l.strip()
            m = re.match(r"^let (?:mut )?(_\d+): (.*);$", s)
            if m and cur is None:
                self.types[m.group(1)] = m.group(2)
                continue
            m = re.match(r"^debug (\S+) => (.*);$", s)
            if m and cur is None:
                self.debug[m.group(1)] = m.group(2)
                if re.match(r"^_\d+$", m.group(2)):
                    self.debug_of.setdefault(m.group(2), m.group(1))
                continue
            m = re.match(r"^(bb\d+)( \(cleanup\))?: \{$", s)
            if m:
                cur = m.group(1)
                self.blocks[cur] = []
                if m.group(2):
                    self.cleanup.add(cur)
                continue
            if cur is not None:
                if s == "}":
                    cur = None
                    continue
                if s and not s.startswith("//"):
                    self.blocks[cur].append(s)
        if "_0" not in self.types:
            self.types["_0"] = self.ret_type


def _arglist_start(hdr):
    # the argument list is the last top-level "(" group before " -> " / " {" at depth 0 (fn names may contain "<impl at ..>")
    depth = 0
    cand = None
    i = 0
    while i < len(hdr):
        ch = hdr[i]
        if ch in "<[":
            depth += 1
        elif ch in ">]":
            if not (ch == ">" and i > 0 and hdr[i - 1] == "-"):
                depth -= 1
        elif ch == "(":
            if depth == 0 and cand is None:
                cand = i
            depth += 1
        elif ch == ")":
            depth -= 1
            if depth == 0 and cand is not None:
                rest = hdr[i + 1:]
                if rest.startswith(" -> ") or rest.startswith(" {"):
                    return cand
                cand = None
        i += 1
    raise MirError("cannot find argument list in: " + hdr[:120])


def _last_segment(path):
    """`index::btree::<impl at ...>::leaf_lower_bound` -> `leaf_lower_bound` (generic arguments stripped)."""
    depth, cur, segs = 0, "", []
    i = 0
    while i < len(path):
        ch = path[i]
        if ch in "<(":
            depth += 1
        elif ch in ">)":
            depth -= 1
        if depth == 0 and path.startswith("::", i):
            segs.append(cur)
            cur = ""
            i += 2
            continue
        cur += ch
        i += 1
    segs.append(cur)
    segs = [x for x in segs if x and not x.startswith("<")]
    return segs[-1] if segs else path


def split_top(s, sep):
    """Split at `sep` occurring at nesting depth 0 of () <> [] {} (ignoring the `->` arrow)."""
    out, depth, cur = [], 0, ""
    i = 0
    while i < len(s):
        ch = s[i]
        if ch in "(<[{":
            depth += 1
        elif ch in ")]}":
            depth -= 1
        elif ch == ">":
            if not (i > 0 and s[i - 1] in "-="):
                depth -= 1
        if depth == 0 and s.startswith(sep, i):
            out.append(cur)
            cur = ""
            i += len(sep)
            continue
        cur += ch
        i += 1
    if cur.strip():
        out.append(cur)
    return out


class MirFile:
    def __init__(self, path):
        self.path = path
        with open(path) as f:
            self.lines = f.read().split("\n")
        self.index = {}
        self.by_name = {}
        self._fn_cache = {}
        for i, l in enumerate(self.lines):
            if l.startswith("fn ") and l.endswith("{"):
                if l in self.index:
                    continue            # const fns are printed twice (runtime MIR and CTFE MIR): keep the first
                self.index[l] = i
                self.by_name.setdefault(_last_segment(l[3:_arglist_start(l)]), []).append(l)

    def find(self, header_regex, which=0):
        rx = re.compile(header_regex)
        hits = [(h, i) for h, i in self.index.items() if rx.search(h)]
        hits.sort(key=lambda x: x[1])
        if not hits:
            raise MirError("function not found in %s: %s" % (self.path, header_regex))
        if which is None and len(hits) != 1:
            raise MirError("ambiguous function %s: %d matches" % (header_regex, len(hits)))
        h, i = hits[which or 0]
        j = i
        while self.lines[j] != "}":
            j += 1
        return Function(h, self.lines[i:j + 1])

    def const_fn(self, name):
        """The body of a `const NAME: T = { ... }` item as a zero-argument Function (evaluated by the executor itself)."""
        rx = re.compile(r"^const (?:\S*::)?%s: (.+) = \{$" % re.escape(name))
        for i, l in enumerate(self.lines):
            m = rx.match(l)
            if m:
                j = i
                while self.lines[j] != "}":
                    j += 1
                return Function("fn const_%s() -> %s {" % (name, m.group(1)), [l] + self.lines[i + 1:j + 1])
        return None

    def resolve_callee(self, callee):
        """Function object for a call-site callee text such as `evaluator::order_compare`, `Page::<'_>::leaf_lower_bound`,
        `compare_sort_keys`; None for trait-qualified (`<T as Trait>::m`), closures and functions outside the dump."""
        c = callee.strip()
        if "{closure" in c:
            return None
        trait_hints = None
        if c.startswith("<"):
            # `<Type as Trait>::method` on a crate-local type: resolve by method name + the type's name
            m = re.match(r"^<(.+) as (.+)>::(\w+)$", c)
            if not m:
                return None
            ty = re.sub(r"<.*>", "", m.group(1)).split("::")[-1].strip("&' ")
            if not re.match(r"^[A-Z]\w*$", ty):
                return None
            trait_hints = [ty]
            c = m.group(3)
        c = re.sub(r"::<[^<>]*(?:<[^<>]*>[^<>]*)*>", "", c)
        name = c.split("::")[-1]
        cands = [h for h in self.by_name.get(name, []) if "{closure" not in h.split("(")[0]]
        if not cands:
            return None
        if trait_hints is not None:
            cands = [h for h in cands if all(re.search(r"\b%s\b" % re.escape(t), h) for t in trait_hints)]
            if len(cands) != 1:
                return None
        if len(cands) > 1:
            hints = [seg for seg in c.split("::")[:-1] if seg]
            scored = sorted(((sum(1 for hseg in hints if re.search(r"\b%s\b" % re.escape(hseg), h)), h) for h in cands), reverse=True)
            if len(scored) > 1 and scored[0][0] == scored[1][0]:
                return None
            cands = [scored[0][1]]
        h = cands[0]
        if h not in self._fn_cache:
            i = self.index[h]
            j = i
            while self.lines[j] != "}":
                j += 1
            self._fn_cache[h] = Function(h, self.lines[i:j + 1])
        return self._fn_cache[h]

    def resolve_closure(self, loc):
        """Function object of the closure defined at `loc` (the `{closure@file:line:col: line:col}` text of its type)."""
        key = ("closure", loc)
        if key in self._fn_cache:
            return self._fn_cache[key]
        hit = None
        needle = "{closure@" + loc + "}"
        for h, i in self.index.items():
            if "{closure#" in h.split("(")[0] and needle in h:
                args = h[_arglist_start(h):]
                first = split_top(args[1:], ",")[0] if len(args) > 1 else ""
                if needle in first:
                    hit = h
                    break
        fn = None
        if hit is not None:
            i = self.index[hit]
            j = i
            while self.lines[j] != "}":
                j += 1
            fn = Function(hit, self.lines[i:j + 1])
        self._fn_cache[key] = fn
        return fn

    def promoted_value(self, fn, k):
        """The value a `promoted[k]` constant of function `fn` refers to: ('enum', Variant) | ('bytes', b'..') | None."""
        owner = fn.header[3:].split("(")[0]
        tail = "::".join(owner.split("::")[-2:]) if "{closure" in owner else _last_segment(owner)
        key = (tail, k)
        if key in self._fn_cache:
            return self._fn_cache[key]
        if not hasattr(self, "_text"):
            self._text = "\n".join(self.lines)
        mm = re.search(r"\nconst [^\n=]*?\b%s::promoted\[%s\]: [^=\n]*= \{(.*?)\n\}" % (re.escape(tail), k), self._text, re.S)
        val = None
        if mm:
            body = mm.group(1)
            e = re.search(r"_1 = (?:[\w:]+::)?([A-Z]\w*);", body)
            b = re.search(r'const b"((?:[^"\\]|\\.)*)"', body)
            r = re.search(r"_1 = const ([\w:]+);", body)
            if e:
                val = ("enum", e.group(1))
            elif b:
                val = ("bytes", b.group(1).encode().decode("unicode_escape").encode("latin1"))
            elif r:
                val = ("named", r.group(1))
        self._fn_cache[key] = val
        return val

    def const_bytes(self, name_regex, depth=0):
        """Bytes of a `const NAME: [u8; N]` / `&[u8; N]` item defined by a byte-string literal (one indirection allowed)."""
        if not hasattr(self, "_text"):
            self._text = "\n".join(self.lines)
        m = re.search(r"\nconst (?:\S*::)?%s: [^=]*= \{(.*?)\n\}" % name_regex, self._text, re.S)
        if not m:
            return None
        b = re.search(r'const b"((?:[^"\\]|\\.)*)"', m.group(1))
        if b:
            return b.group(1).encode().decode("unicode_escape").encode("latin1")
        r = re.search(r"= const ([\w:]+);", m.group(1))
        if r and depth < 3:
            return self.const_bytes(re.escape(r.group(1).split("::")[-1]), depth + 1)
        return None

    def const_value(self, name_regex):
        """Evaluate a simple `const NAME: T = { ... }` item: supports literal and one checked Mul/Add of literals."""
        rx1 = re.compile(r"^const (?:\S*::)?(%s): (\w+) = const (-?\d+)_\w+;$" % name_regex)
        rxf = re.compile(r"^const (?:\S*::)?(%s): (f64) = const (-?[0-9.]+(?:[eE][-+]?\d+)?)f64;$" % name_regex)
        for l in self.lines:
            m = rx1.match(l)
            if m:
                return int(m.group(3)), m.group(2)
            m = rxf.match(l)
            if m:
                return float(m.group(3)), "f64"
        rx = re.compile(r"^const (?:\S*::)?(%s): (\w+) = \{$" % name_regex)
        for i, l in enumerate(self.lines):
            m = rx.match(l)
            if not m:
                continue
            body = []
            j = i + 1
            while self.lines[j] != "}":
                body.append(self.lines[j].strip())
                j += 1
            txt = " ".join(body)
            mm = re.search(r"= (Mul|Add|Sub)WithOverflow\(const (-?\d+)_\w+, const (-?\d+)_\w+\)", txt)
            if mm:
                a, b = int(mm.group(2)), int(mm.group(3))
                return {"Mul": a * b, "Add": a + b, "Sub": a - b}[mm.group(1)], m.group(2)
            mm = re.search(r"_0 = const (-?\d+)_\w+;", txt)
            if mm:
                return int(mm.group(1)), m.group(2)
            mm = re.search(r"_0 = (\w+)\(const (-?\d+)_(\w+)\);", txt)
            if mm:
                return ("newtype", mm.group(1), int(mm.group(2)), mm.group(3)), "struct"
            raise MirError("const %s too complex: %s" % (name_regex, txt[:200]))
        # newtype struct constant: `const NAME: T = { ... _0 = T(const 2_u64); ... }`
        rx = re.compile(r"^const (?:\S*::)?(%s): ([\w:]+) = \{$" % name_regex)
        for i, l in enumerate(self.lines):
            m = rx.match(l)
            if not m:
                continue
            txt = " ".join(x.strip() for x in self.lines[i + 1:i + 12])
            mm = re.search(r"_0 = (\w+)\(const (-?\d+)_(\w+)\);", txt)
            if mm:
                return ("newtype", mm.group(1), int(mm.group(2)), mm.group(3)), "struct"
        raise MirError("const not found: " + name_regex)
