"""E2 core: path-wise symbolic execution of one MIR function with z3.

Scalars are z3 bit-vectors / floating-point terms; aggregates (enums, tuples, structs, vectors) are immutable Python
values whose *shape* is concrete on a path and whose scalar leaves are symbolic. Control flow is explored depth
first; every branch on a symbolic scalar asks z3 whether each side is feasible under the path condition. Calls are
executed through an allow-list of callee models (per target); anything else raises Unsupported, which the runner
reports as inconclusive (never as a pass).
"""
import re

import z3

from .mir import split_top

INT_W = {"u8": 8, "u16": 16, "u32": 32, "u64": 64, "usize": 64, "u128": 128,
         "i8": 8, "i16": 16, "i32": 32, "i64": 64, "isize": 64, "i128": 128, "bool": 1, "char": 32}
SIGNED = {"i8", "i16", "i32", "i64", "isize", "i128"}


class Unsupported(Exception):
    pass


class PathLimit(Exception):
    pass


# ------------------------------------------------------------------------------------------ values
class Enum:
    __slots__ = ("variant", "fields", "ty")

    def __init__(self, variant, fields=(), ty=None):
        self.variant, self.fields, self.ty = variant, list(fields), ty

    def __repr__(self):
        return "%s(%s)" % (self.variant, ", ".join(map(repr, self.fields))) if self.fields else self.variant


class Tup:
    __slots__ = ("fields",)

    def __init__(self, fields):
        self.fields = list(fields)

    def __repr__(self):
        return "(" + ", ".join(map(repr, self.fields)) + ")"


class Struct:
    """Struct / lazily materialised object: fields are created on first access from the type annotation of the access."""
    __slots__ = ("name", "fields")

    def __init__(self, name, fields=None):
        self.name, self.fields = name, dict(fields or {})

    def __repr__(self):
        return "%s{%s}" % (self.name, ", ".join("%s: %r" % kv for kv in sorted(self.fields.items())))


class PyVec:
    __slots__ = ("items",)

    def __init__(self, items=()):
        self.items = list(items)

    def __repr__(self):
        return "vec" + repr(self.items)


class Opaque:
    __slots__ = ("name",)

    def __init__(self, name):
        self.name = name

    def __repr__(self):
        return "<%s>" % self.name


class Ref:
    """Reference to a place of the current frame: root local + projection list."""
    __slots__ = ("root", "projs")

    def __init__(self, root, projs=()):
        self.root, self.projs = root, tuple(projs)

    def __repr__(self):
        return "&%s%s" % (self.root, "".join(("." + str(p[1]) if p[0] == "field" else "@" + str(p[1])) if len(p) > 1 else "." + str(p[0]) for p in self.projs))


class SymEnum:
    """An enum value whose variant is not yet decided on this path. `alts` = [(variant, [field makers])].
    Reading its discriminant (or downcasting it) forks the path over the alternatives."""
    __slots__ = ("name", "alts", "ty")

    def __init__(self, name, alts, ty=None):
        self.name, self.alts, self.ty = name, alts, ty

    def __repr__(self):
        return "?%s{%s}" % (self.name, "|".join(a[0] for a in self.alts))


def bv(val, w):
    return z3.BitVecVal(val, w)


TRUE, FALSE = bv(1, 1), bv(0, 1)


def b2bv(cond):
    return z3.If(cond, TRUE, FALSE)


def is_scalar(v):
    return isinstance(v, (z3.BitVecRef, z3.FPRef))


# ------------------------------------------------------------------------------------------ state
def _trivially_true(c):
    try:
        if isinstance(c, bool):
            return c
        return z3.is_true(c) or z3.is_true(z3.simplify(c))
    except Exception:  # noqa: BLE001
        return False


class PC(list):
    """Path condition: constraints that simplify to `true` (comparisons of concrete values in long concrete loops) are not stored."""

    def append(self, c):
        if not _trivially_true(c):
            list.append(self, c)

    def extend(self, cs):
        for c in cs:
            self.append(c)

    def __iadd__(self, cs):
        self.extend(cs)
        return self


class State:
    def __init__(self):
        self.env = {}
        self.pc = PC()
        self.events = []
        self.visits = {}
        self.defs = {}
        self.trace = []
        self.approx = []
        self.panics = []
        self.frames = []      # inlined calls: tuples (fn, suffix, return_block, dst_place_text)

    def fork(self):
        s = State()
        s.env = dict(self.env)
        s.pc = PC()
        list.extend(s.pc, self.pc)
        s.events = list(self.events)
        s.visits = dict(self.visits)
        s.defs = dict(self.defs)
        s.trace = list(self.trace)
        s.approx = list(self.approx)
        s.panics = list(self.panics)
        s.frames = list(self.frames)
        return s


class Path:
    """A terminated path: how it ended, return value, final state."""

    def __init__(self, kind, st, ret=None, info=None):
        self.kind, self.st, self.ret, self.info = kind, st, ret, info   # kind: return | panic | bound | stop

    @property
    def pc(self):
        return self.st.pc

    @property
    def events(self):
        return self.st.events

    def signature(self):
        return " ; ".join(self.st.events)


# ------------------------------------------------------------------------------------------ executor
class Exec:
    def __init__(self, fn, models, bound=3, variant_index=None, fresh_types=None, consts=None, max_paths=20000,
                 stop_at=None, on_stop=None, mf=None, inline=None, max_depth=12, top_suffix=""):
        self.fn = fn
        self.mf = mf
        self.inline = inline          # None = never inline; otherwise a regex: crate-local callees matching it are executed inline
        self.max_depth = max_depth
        self.top_suffix = top_suffix   # locals of the entry function live under `_N<top_suffix>` (nested synchronous runs)
        self.frame_fns = {top_suffix: fn}
        self.nframes = 0
        self.inlined = set()
        self.models = models                 # list of (regex, callable(ex, st, argv, dst, callee) -> [(value, [constraints], event|None)])
        self.bound = bound
        self.variant_index = dict(DEFAULT_VARIANTS)
        self.variant_index.update(variant_index or {})
        self.fresh_types = fresh_types or []  # list of (type regex, maker(ex, name))
        self.consts = consts or {}            # const name suffix -> (int value, type) | python value
        self.max_paths = max_paths
        self.stop_at = stop_at or {}          # block label -> tag: stop the path there (arm-local exits)
        self.n = 0
        self.paths = []
        self.queries = 0
        self.solver_time = 0.0

    # ---- frames (inlined calls): locals of an inlined callee live in the same environment under `_N@<frame>`
    def F(self, st):
        return st.frames[-1][0] if st.frames else self.fn

    def sfx(self, st):
        return st.frames[-1][1] if st.frames else self.top_suffix

    def q(self, st, root):
        return root + self.sfx(st) if re.match(r"^_\d+$", root) else root

    def fn_of_root(self, root):
        i = root.find("@")
        return self.frame_fns.get(root[i:] if i >= 0 else "", self.fn)

    # ---- fresh values
    def fresh_bv(self, name, w):
        self.n += 1
        return z3.BitVec("%s#%d" % (name, self.n), w)

    def fresh_fp(self, name):
        self.n += 1
        return z3.FP("%s#%d" % (name, self.n), z3.Float64())

    def fresh_of_type(self, ty, name):
        ty = ty.strip()
        if ty in INT_W:
            return self.fresh_bv(name, INT_W[ty])
        if ty == "f64":
            return self.fresh_fp(name)
        if ty == "()":
            return Tup([])
        for rx, mk in self.fresh_types:
            if re.search(rx, ty):
                return mk(self, name)
        m = re.match(r"^(?:std::option::)?Option<(.*)>$", ty)
        if m:
            inner = m.group(1)
            return SymEnum(name, [("None", []), ("Some", [inner])], ty)
        m = re.match(r"^(?:std::result::)?Result<(.*)>$", ty)
        if m:
            parts = split_top(m.group(1), ", ")
            if len(parts) == 2:
                return SymEnum(name, [("Ok", [parts[0]]), ("Err", [parts[1]])], ty)
        if ty.startswith("&"):
            # reference to an unknown object: materialise the pointee lazily
            slot = "$obj%d" % self.n
            self.n += 1
            return ("lazyref", slot, re.sub(r"^&(?:'\w+ )?(?:mut )?", "", ty))
        if ty.startswith("(") and ty.endswith(")"):
            parts = split_top(ty[1:-1], ", ")
            return Tup([self.fresh_of_type(p, name + "." + str(i)) for i, p in enumerate(parts)])
        return Struct(ty if len(ty) < 60 else ty[:60], {})

    def materialise(self, st, v):
        if isinstance(v, tuple) and v and v[0] == "lazyref":
            _, slot, pointee = v
            if slot not in st.env:
                st.env[slot] = self.fresh_of_type(pointee, slot)
            return Ref(slot)
        return v

    # ---- satisfiability
    def feasible(self, pc, extra=None):
        import time
        if extra is not None and z3.is_expr(extra):
            # a path condition is only ever extended after a feasibility check, so it is satisfiable by construction:
            # a literal `true` / `false` (concrete comparison) needs no solver call
            e = z3.simplify(extra)
            if z3.is_true(e) and isinstance(pc, PC):
                return True
            if z3.is_false(e):
                return False
        s = z3.Solver()
        s.set("timeout", 60000)
        s.add(pc)
        if extra is not None:
            s.add(extra)
        t0 = time.time()
        r = s.check()
        self.solver_time += time.time() - t0
        self.queries += 1
        if r == z3.unknown:
            raise Unsupported("z3 returned unknown on a path condition")
        return r == z3.sat

    def index_window(self, st, iv, n):
        """Smallest power-of-two window [0, k) that the path condition confines a symbolic index to (k <= 64)."""
        k = 1
        while k <= 64:
            if k >= n or self.entails(st.pc, z3.ULT(iv, z3.BitVecVal(k, iv.size()))):
                return min(k, n)
            k *= 2
        raise Unsupported("symbolic index not confined to a small window by the path condition")

    def entails(self, pc, f):
        return not self.feasible(pc, z3.Not(f))

    def model(self, pc, extra=None):
        s = z3.Solver()
        s.set("timeout", 60000)
        s.add(pc)
        if extra is not None:
            s.add(extra)
        self.queries += 1
        if s.check() != z3.sat:
            return None
        return s.model()

    # ---- places
    def parse_place(self, p):
        p = p.strip()
        if re.match(r"^_\d+$", p) or p.startswith("$"):
            return (p, [])
        if p.startswith("(*") and p.endswith(")") and balanced(p[2:-1]):
            root, projs = self.parse_place(p[2:-1])
            return (root, projs + [("deref",)])
        if p.startswith("(") and p.endswith(")") and balanced(p[1:-1]):
            inner = p[1:-1]
            # field: "<place>.N: T"
            parts = split_top(inner, ": ")
            if len(parts) >= 2:
                left = parts[0]
                ty = ": ".join(parts[1:])
                m = re.match(r"^(.*)\.(\d+)$", left)
                if m and balanced(m.group(1)):
                    root, projs = self.parse_place(m.group(1))
                    return (root, projs + [("field", int(m.group(2)), ty)])
            m = re.match(r"^(.*) as (\w+)$", inner)
            if m and balanced(m.group(1)):
                root, projs = self.parse_place(m.group(1))
                return (root, projs + [("downcast", m.group(2))])
        m = re.match(r"^(.*)\[(.*)\]$", p)
        if m and balanced(m.group(1)):
            root, projs = self.parse_place(m.group(1))
            return (root, projs + [("index", m.group(2))])
        raise Unsupported("place " + p)

    def _get_root(self, st, root):
        if root not in st.env:
            fn = self.fn_of_root(root)
            base = root.split("@")[0]
            ty = fn.types.get(base)
            if ty is None:
                raise Unsupported("read of unknown local " + root)
            st.env[root] = self.fresh_of_type(ty, fn.debug_of.get(base, base))
        v = st.env[root]
        if isinstance(v, tuple) and v and v[0] == "lazyref":
            v = self.materialise(st, v)
            st.env[root] = v
        return v

    def read(self, st, place):
        if isinstance(place, tuple):
            root, projs = place
        else:
            root, projs = self.parse_place(place)
            root = self.q(st, root)
        return self._read(st, root, list(projs))

    def _read(self, st, root, projs):
        v = self._get_root(st, root)
        done = []
        for pr in projs:
            v = self._step(st, v, pr, (root, done))
            done.append(pr)
        return v

    def _step(self, st, v, pr, where):
        if isinstance(v, tuple) and v and v[0] == "lazyref":
            v = self.materialise(st, v)
            self._write(st, where[0], list(where[1]), v)
        if pr[0] == "deref":
            if isinstance(v, Ref):
                return self._read(st, v.root, list(v.projs))
            if isinstance(v, Enum) and v.variant == "Box":
                return v.fields[0]
            raise Unsupported("deref of %r" % (v,))
        if pr[0] == "field":
            idx, ty = pr[1], pr[2]
            if isinstance(v, Struct):
                if idx not in v.fields:
                    nv = self.fresh_of_type(ty, "%s.%d" % (v.name.split("::")[-1][:20], idx))
                    v2 = Struct(v.name, v.fields)
                    v2.fields[idx] = nv
                    self._write(st, where[0], list(where[1]), v2)
                    return self.materialise_in(st, nv, where, pr)
                return self.materialise_in(st, v.fields[idx], where, pr)
            if isinstance(v, (Tup, Enum)):
                if idx >= len(v.fields):
                    raise Unsupported("field %d of %r" % (idx, v))
                return self.materialise_in(st, v.fields[idx], where, pr)
            if isinstance(v, Opaque):
                raise Unsupported("field %d of opaque %r" % (idx, v))
            raise Unsupported("field %d of %r" % (idx, v))
        if pr[0] == "downcast":
            if isinstance(v, Enum):
                if v.variant != pr[1]:
                    raise Unsupported("downcast to %s of %r" % (pr[1], v))
                return v
            raise Unsupported("downcast of undecided %r (discriminant must be read first)" % (v,))
        if pr[0] == "range":
            if isinstance(v, PyVec) and 0 <= pr[1] <= pr[2] <= len(v.items):
                return PyVec(v.items[pr[1]:pr[2]])
            raise Unsupported("sub-slice %d..%d of %r" % (pr[1], pr[2], type(v).__name__))
        if pr[0] == "elem":
            if isinstance(v, PyVec) and pr[1] < len(v.items):
                return v.items[pr[1]]
            raise Unsupported("element %d of %r" % (pr[1], type(v).__name__))
        if pr[0] == "index":
            if isinstance(v, PyVec):
                iv = self.operand(st, "copy " + pr[1])[0] if re.match(r"^_\d+$", pr[1]) else None
                if iv is not None and z3.is_bv_value(z3.simplify(iv)):
                    k = z3.simplify(iv).as_long()
                    if k < len(v.items):
                        return v.items[k]
                    raise Unsupported("index %d out of range on this path" % k)
                if iv is not None and not pr[2:]:
                    # symbolic index into a scalar buffer: an if-then-else chain over the window the path condition confines it to
                    k = self.index_window(st, iv, len(v.items))
                    out = v.items[k - 1]
                    for j in range(k - 2, -1, -1):
                        out = z3.If(iv == j, v.items[j], out)
                    return out
            raise Unsupported("index projection on %s" % (repr(v)[:120],))
        raise Unsupported("projection %r" % (pr,))

    def materialise_in(self, st, v, where, pr):
        if isinstance(v, tuple) and v and v[0] == "lazyref":
            r = self.materialise(st, v)
            self._write(st, where[0], list(where[1]) + [pr], r)
            return r
        return v

    def write(self, st, place, val):
        if isinstance(val, tuple) and len(val) == 4 and val[0] == "ADV":
            # a model's alternative that also updates the place behind a reference: ("ADV", ref, new value, result)
            _, ref, newv, result = val
            self._write(st, ref.root, list(ref.projs), newv)
            val = result
        if isinstance(place, tuple):
            root, projs = place
        else:
            root, projs = self.parse_place(place)
            root = self.q(st, root)
        self._write(st, root, list(projs), val)

    def _write(self, st, root, projs, val):
        if not projs:
            st.env[root] = val
            return
        # resolve leading derefs through references
        cur = self._get_root(st, root)
        for i, pr in enumerate(projs):
            if pr[0] == "deref":
                if not isinstance(cur, Ref):
                    raise Unsupported("write through non-reference %r" % (cur,))
                return self._write(st, cur.root, list(cur.projs) + projs[i + 1:], val)
            if i == len(projs) - 1:
                break
            cur = self._step(st, cur, pr, (root, projs[:i]))
        st.env[root] = self._updated(st, self._get_root(st, root), projs, val)

    def _updated(self, st, v, projs, val):
        if not projs:
            return val
        pr = projs[0]
        if pr[0] == "field":
            idx = pr[1]
            if isinstance(v, Struct):
                n = Struct(v.name, v.fields)
                n.fields[idx] = self._updated(st, v.fields.get(idx), projs[1:], val) if len(projs) > 1 else val
                return n
            if isinstance(v, Tup):
                f = list(v.fields)
                f[idx] = self._updated(st, f[idx], projs[1:], val)
                return Tup(f)
            if isinstance(v, Enum):
                f = list(v.fields)
                f[idx] = self._updated(st, f[idx], projs[1:], val)
                return Enum(v.variant, f, v.ty)
            raise Unsupported("update field of %r" % (v,))
        if pr[0] == "downcast":
            return self._updated(st, v, projs[1:], val)
        if pr[0] == "range" and isinstance(v, PyVec):
            s0, e0 = pr[1], pr[2]
            cur = PyVec(v.items[s0:e0])
            new = self._updated(st, cur, projs[1:], val)
            if not isinstance(new, PyVec) or len(new.items) != e0 - s0:
                raise Unsupported("sub-slice update changes the length")
            items = list(v.items)
            items[s0:e0] = new.items
            return PyVec(items)
        if pr[0] == "elem" and isinstance(v, PyVec):
            items = list(v.items)
            items[pr[1]] = self._updated(st, items[pr[1]], projs[1:], val)
            return PyVec(items)
        if pr[0] == "index" and isinstance(v, PyVec):
            iv = z3.simplify(self.operand(st, "copy " + pr[1])[0])
            if not z3.is_bv_value(iv):
                if projs[1:] or not z3.is_bv(val):
                    raise Unsupported("write of a non-scalar at a symbolic index")
                k = self.index_window(st, iv, len(v.items))
                items = list(v.items)
                for j in range(k):
                    items[j] = z3.If(iv == j, val, items[j])
                return PyVec(items)
            k = iv.as_long()
            if k >= len(v.items):
                raise Unsupported("index %d out of range on this path" % k)
            items = list(v.items)
            items[k] = self._updated(st, items[k], projs[1:], val)
            return PyVec(items)
        raise Unsupported("update through %r" % (pr,))

    # ---- operands
    def place_type(self, place_txt, st=None):
        place_txt = place_txt.strip()
        fn = self.F(st) if st is not None else self.fn
        if re.match(r"^_\d+$", place_txt):
            return fn.types.get(place_txt)
        m = re.match(r"^\(.*: ([^()]*(?:\([^()]*\))?[^()]*)\)$", place_txt)
        if m:
            parts = split_top(place_txt[1:-1], ": ")
            return ": ".join(parts[1:]) if len(parts) >= 2 else None
        m = re.match(r"^\(\*(_\d+)\)$", place_txt)
        if m:
            t = fn.types.get(m.group(1), "")
            return re.sub(r"^&(?:'\w+ )?(?:mut )?", "", t)
        return None

    def operand(self, st, o):
        """Returns (value, type text or None)."""
        o = o.strip()
        if o.startswith("no_retag "):
            o = o[9:]
        if o.startswith("move ") or o.startswith("copy "):
            return self.read(st, o[5:]), self.place_type(o[5:], st)
        if o.startswith("const "):
            return self.const(o[6:].strip(), st)
        if re.match(r"^[A-Za-z_][\w]*(::[\w<>{}#, ]+)+$", o) and not o.startswith("_"):
            return Opaque("fn " + o[:60]), None       # a function item / constructor passed by name
        if re.match(r"^[A-Za-z][\w]*$", o) and o not in ("true", "false"):
            return Opaque("fn " + o[:60]), None       # a crate-local function item passed by its bare name
        return self.read(st, o), self.place_type(o, st)

    def const(self, c, st=None):
        if c in ("true", "false"):
            return (TRUE if c == "true" else FALSE), "bool"
        m = re.match(r"^(-?\d+)_(\w+)$", c)
        if m and m.group(2) in INT_W:
            return bv(int(m.group(1)), INT_W[m.group(2)]), m.group(2)
        m = re.match(r"^(-?[0-9.]+(?:[eE][-+]?\d+)?|[+-]?inf|NaN)f64$", c)
        if m:
            t = m.group(1)
            if t in ("inf", "+inf"):
                return z3.fpPlusInfinity(z3.Float64()), "f64"
            if t == "-inf":
                return z3.fpMinusInfinity(z3.Float64()), "f64"
            if t == "NaN":
                return z3.fpNaN(z3.Float64()), "f64"
            return z3.FPVal(float(t), z3.Float64()), "f64"
        if c == "()":
            return Tup([]), "()"
        m = re.match(r'^"(.*)"$', c)
        if m:
            return Opaque("str:" + m.group(1)), "&str"
        for k, val in self.consts.items():
            if c.endswith(k):
                if isinstance(val, tuple) and isinstance(val[0], int):
                    return bv(val[0], INT_W[val[1]]), val[1]
                return val, None
        mm = re.search(r"num::<impl ([ui](?:\d+|size))>::(MAX|MIN)$", c)
        if mm and mm.group(1) in INT_W:
            w, t = INT_W[mm.group(1)], mm.group(1)
            if t in SIGNED:
                return bv((1 << (w - 1)) - 1 if mm.group(2) == "MAX" else -(1 << (w - 1)), w), t
            return bv((1 << w) - 1 if mm.group(2) == "MAX" else 0, w), t
        if c.startswith("ZeroSized"):
            return Opaque("zst"), None
        pm = re.search(r"promoted\[(\d+)\]$", c)
        if pm and self.mf is not None:
            pv = self.mf.promoted_value(self.F(st) if st is not None else self.fn, pm.group(1))
            if pv is not None:
                if pv[0] == "enum":
                    return Enum(pv[1]), None
                if pv[0] == "bytes":
                    return PyVec([bv(x, 8) for x in pv[1]]), None
                if pv[0] == "named":
                    return self.const(pv[1], st)
        if self.mf is not None and re.match(r"^[A-Za-z_][\w:{}#<>', ]*$", c):
            cache = self.mf.__dict__.setdefault("_named_const_cache", {})
            if c in cache:
                return cache[c]
            res = self._named_const(c, st)
            if res is not None:
                cache[c] = res
                return res
        return Opaque("const " + c[:80]), None

    def _named_const(self, c, st):
        if True:
            # a named numeric constant of the crate: evaluate its const item from the MIR dump
            segs = re.sub(r"::<[^<>]*>", "", c).split("::")
            for name in ("::".join(segs[-2:]), segs[-1]):
                try:
                    val, ty = self.mf.const_value(re.escape(name))
                    if ty in INT_W:
                        return bv(val, INT_W[ty]), ty
                    if ty == "f64":
                        return z3.FPVal(val, z3.Float64()), "f64"
                    if ty == "struct" and val[0] == "newtype":
                        return Struct(val[1], {0: bv(val[2], INT_W[val[3]])}), None
                except Exception:  # noqa: BLE001
                    continue
            raw = self.mf.const_bytes(re.escape(segs[-1]))
            if raw is not None:
                return PyVec([bv(x, 8) for x in raw]), None
            cf = self.mf.const_fn(segs[-1])
            if cf is not None and st is not None:
                res = subcall(self, State(), cf, [])
                if isinstance(res, list) and len(res) == 1:
                    return res[0][0], None
        return None

    def closure_operands(self, rhs, ops):
        """rustc's MIR printer names closure captures by their root variable and prints ONE operand per name: with disjoint field
        captures (`self.min_src`, `self.offsets`) only the first operand appears in the text. The capture operands are evaluated by
        the statements immediately before the aggregate, in order; recover the missing ones from there."""
        lm = re.match(r"^\{closure@([^}]*)\}", rhs)
        if not lm or self.mf is None:
            return ops
        body = self.mf.resolve_closure(lm.group(1))
        if body is None:
            return ops
        used = [int(k) for k in re.findall(r"\(\*?_1\)?\.(\d+): ", "\n".join(body.lines))] + \
               [int(k) for k in re.findall(r"\(\(\*_1\)\.(\d+): ", "\n".join(body.lines))]
        need = (max(used) + 1) if used else 0
        if need <= len(ops):
            return ops
        stmts, si = getattr(self, "_cur_stmt", (None, 0))
        if stmts is None:
            raise Unsupported("closure with %d captures but %d printed operands" % (need, len(ops)))
        prev = []
        j = si - 1
        while j >= 0 and len(prev) < need:
            mm = re.match(r"^(_\d+) = (.*);$", stmts[j])
            if mm and not parse_call(stmts[j]):
                prev.append(mm.group(1))
            elif not re.match(r"^(StorageLive|StorageDead|nop|FakeRead|Retag)\b", stmts[j]):
                break
            j -= 1
        prev.reverse()
        if len(prev) != need:
            raise Unsupported("cannot recover the %d capture operands of a closure (%d printed)" % (need, len(ops)))
        if ops and not re.search(r"\b%s\b" % re.escape(prev[0]), ops[0]):
            raise Unsupported("closure capture recovery: the first recovered local %s is not the printed operand %s" % (prev[0], ops[0]))
        return ["move " + x for x in prev]

    # ---- rvalues
    def rvalue(self, st, rhs, dst_ty=None):
        rhs = rhs.strip()
        m = re.match(r"^(Eq|Ne|Lt|Le|Gt|Ge|Add|Sub|Mul|Div|Rem|BitAnd|BitOr|BitXor|Shl|Shr|AddUnchecked|SubUnchecked|MulUnchecked|Offset)\((.*)\)$", rhs)
        if m:
            a_txt, b_txt = split_top(m.group(2), ", ")
            (a, ta), (b, tb) = self.operand(st, a_txt), self.operand(st, b_txt)
            return self.binop(m.group(1).replace("Unchecked", ""), a, ta, b, tb)
        m = re.match(r"^(Add|Sub|Mul)WithOverflow\((.*)\)$", rhs)
        if m:
            a_txt, b_txt = split_top(m.group(2), ", ")
            (a, ta), (b, tb) = self.operand(st, a_txt), self.operand(st, b_txt)
            return self.checked(m.group(1), a, b, ta or tb)
        m = re.match(r"^(Not|Neg)\((.*)\)$", rhs)
        if m:
            a, ta = self.operand(st, m.group(2))
            if isinstance(a, z3.FPRef):
                return z3.fpNeg(a)
            return ~a if m.group(1) == "Not" else -a
        m = re.match(r"^(.*) \((IntToInt|IntToFloat|FloatToInt|FloatToFloat|PtrToPtr|Transmute|PointerCoercion|PointerExposeProvenance|PointerWithExposedProvenance|FnPtrToPtr)(?:\(.*\))?\)$", rhs)
        if m:
            parts = split_top(m.group(1), " as ")
            if len(parts) >= 2:
                v, tv = self.operand(st, parts[0])
                return self.cast(v, tv, " as ".join(parts[1:]).strip(), m.group(2))
        m = re.match(r"^discriminant\((.*)\)$", rhs)
        if m:
            v = self.read(st, m.group(1))
            if isinstance(v, Enum):
                if v.variant not in self.variant_index:
                    raise Unsupported("variant index of " + v.variant)
                return bv(self.variant_index[v.variant], 64)
            if isinstance(v, SymEnum):
                return ("fork-enum", m.group(1), v)
            raise Unsupported("discriminant of %r" % (v,))
        m = re.match(r"^&(?:raw (?:const|mut) )?(?:mut )?(?:fake shallow |\(fake\) )?(.*)$", rhs)
        if m and not rhs.startswith("&&"):
            root, projs = self.parse_place(m.group(1))
            root = self.q(st, root)
            # normalise `&(*_x)` to the reference itself when it is one
            if projs and projs[-1] == ("deref",):
                inner = self._read(st, root, projs[:-1])
                if isinstance(inner, Ref):
                    return inner
            return Ref(root, projs)
        m = re.match(r"^Len\((.*)\)$", rhs) or re.match(r"^PtrMetadata\((.*)\)$", rhs)
        if m:
            v, _ = self.operand(st, m.group(1)) if re.match(r"^(copy|move) ", m.group(1)) else (self.read(st, m.group(1)), None)
            if isinstance(v, Ref):
                v = self._read(st, v.root, list(v.projs))
            if isinstance(v, PyVec):
                return bv(len(v.items), 64)
            raise Unsupported("Len of %r" % (v,))
        if rhs.startswith("[") and rhs.endswith("]"):
            rep = split_top(rhs[1:-1], "; ")
            if len(rep) == 2 and re.match(r"^\d+$", rep[1].strip()):
                v = self.operand(st, rep[0])[0]            # repeat expression `[x; N]`
                return PyVec([v] * int(rep[1]))
            return PyVec([self.operand(st, a)[0] for a in split_top(rhs[1:-1], ", ")])
        if rhs.startswith("(") and rhs.endswith(")") and balanced(rhs[1:-1]) and not re.match(r"^\(.*: [^,]*\)$", rhs):
            return Tup([self.operand(st, a)[0] for a in split_top(rhs[1:-1], ", ")])
        if rhs == "()":
            return Tup([])
        m = re.match(r"^\{closure@[^}]*\}(?: \{ (.*) \})?$", rhs) or re.match(r"^\{coroutine@.*\}", rhs)
        if m:
            caps = {}
            ops = []
            if m.lastindex and m.group(1):
                ops = [f.split(": ", 1)[1] for f in split_top(m.group(1), ", ")]
            ops = self.closure_operands(rhs, ops)
            for i, f in enumerate(ops):
                caps[i] = self.operand(st, f)[0]
            return Struct("closure", caps)
        # enum variant / struct aggregate:  path::Variant(args)  |  path::Variant  |  Name { f: v, .. }
        m = re.match(r"^([\w:<>, '&\[\]()]*?)(\w+)(?:::<[^{}]*>)? \{ (.*) \}$", rhs)
        if m and ": " in m.group(3):
            fields = []
            for f in split_top(m.group(3), ", "):
                fields.append(self.operand(st, f.split(": ", 1)[1])[0])
            name = m.group(2)
            if name in self.variant_index and (m.group(1).endswith("::")):
                return Enum(name, fields)
            return Struct(name, dict(enumerate(fields)))
        m = re.match(r"^(.*?)(\w+)\((.*)\)$", rhs)
        if m and (m.group(1).endswith("::") or m.group(1) == "") and m.group(2)[:1].isupper() and balanced(m.group(3)):
            args = [self.operand(st, a)[0] for a in split_top(m.group(3), ", ")] if m.group(3).strip() else []
            return Enum(m.group(2), args)
        m = re.match(r"^(.*::)(\w+)$", rhs)
        if m and m.group(2)[:1].isupper() and not rhs.startswith(("copy ", "move ", "const ")):
            return Enum(m.group(2), [])
        if re.match(r"^[A-Z]\w*$", rhs):
            return Enum(rhs, [])
        if re.match(r"^(no_retag )?(move |copy |const )", rhs):
            return self.operand(st, rhs)[0]
        raise Unsupported("rvalue " + rhs[:160])

    def binop(self, op, a, ta, b, tb):
        t = ta if ta in INT_W or ta == "f64" else tb
        if isinstance(a, z3.FPRef) or isinstance(b, z3.FPRef):
            rm = z3.RNE()
            f = {"Eq": z3.fpEQ, "Ne": lambda x, y: z3.Not(z3.fpEQ(x, y)), "Lt": z3.fpLT, "Le": z3.fpLEQ, "Gt": z3.fpGT, "Ge": z3.fpGEQ}
            if op in f:
                return b2bv(f[op](a, b))
            g = {"Add": z3.fpAdd, "Sub": z3.fpSub, "Mul": z3.fpMul, "Div": z3.fpDiv}
            if op in g:
                return g[op](rm, a, b)
            if op == "Rem":
                return z3.fpRem(a, b)
            raise Unsupported("float op " + op)
        if not (isinstance(a, z3.BitVecRef) and isinstance(b, z3.BitVecRef)):
            if op in ("Eq", "Ne") and isinstance(a, Enum) and isinstance(b, Enum) and not a.fields and not b.fields:
                r = a.variant == b.variant
                return TRUE if (r == (op == "Eq")) else FALSE
            raise Unsupported("binop %s on %r, %r" % (op, a, b))
        if op in ("Shl", "Shr") and a.size() != b.size():
            b = z3.ZeroExt(a.size() - b.size(), b) if b.size() < a.size() else z3.Extract(a.size() - 1, 0, b)
        signed = t in SIGNED
        if op in ("Lt", "Le", "Gt", "Ge", "Div", "Rem", "Shr") and t is None:
            raise Unsupported("signedness unknown for " + op)
        if op == "Eq":
            return b2bv(a == b)
        if op == "Ne":
            return b2bv(a != b)
        if op == "Lt":
            return b2bv(a < b if signed else z3.ULT(a, b))
        if op == "Le":
            return b2bv(a <= b if signed else z3.ULE(a, b))
        if op == "Gt":
            return b2bv(a > b if signed else z3.UGT(a, b))
        if op == "Ge":
            return b2bv(a >= b if signed else z3.UGE(a, b))
        if op == "Add" or op == "Offset":
            return a + b
        if op == "Sub":
            return a - b
        if op == "Mul":
            return a * b
        if op == "Div":
            return a / b if signed else z3.UDiv(a, b)
        if op == "Rem":
            return z3.SRem(a, b) if signed else z3.URem(a, b)
        if op == "BitAnd":
            return a & b
        if op == "BitOr":
            return a | b
        if op == "BitXor":
            return a ^ b
        if op == "Shl":
            return a << b
        if op == "Shr":
            return a >> b if signed else z3.LShR(a, b)
        raise Unsupported("binop " + op)

    def checked(self, op, a, b, t):
        if t is None or t not in INT_W:
            raise Unsupported("checked op without type")
        w = a.size()
        if t in SIGNED:
            ea, eb = z3.SignExt(w, a), z3.SignExt(w, b)
        else:
            ea, eb = z3.ZeroExt(w, a), z3.ZeroExt(w, b)
        wide = {"Add": ea + eb, "Sub": ea - eb, "Mul": ea * eb}[op]
        res = z3.Extract(w - 1, 0, wide)
        back = z3.SignExt(w, res) if t in SIGNED else z3.ZeroExt(w, res)
        return Tup([res, b2bv(back != wide)])

    def cast(self, v, tv, to, kind):
        if kind in ("IntToInt",):
            w = INT_W.get(to)
            if w is None or not isinstance(v, z3.BitVecRef):
                raise Unsupported("cast to " + to)
            if v.size() == w:
                return v
            if v.size() > w:
                return z3.Extract(w - 1, 0, v)
            if tv is None:
                raise Unsupported("IntToInt widening without source type")
            return z3.SignExt(w - v.size(), v) if tv in SIGNED else z3.ZeroExt(w - v.size(), v)
        if kind == "IntToFloat":
            if tv is None:
                raise Unsupported("IntToFloat without source type")
            return z3.fpSignedToFP(z3.RNE(), v, z3.Float64()) if tv in SIGNED else z3.fpUnsignedToFP(z3.RNE(), v, z3.Float64())
        if kind == "FloatToInt":
            w = INT_W[to]
            # Rust `as`: saturating, NaN -> 0
            if to in SIGNED:
                lo, hi = -(1 << (w - 1)), (1 << (w - 1)) - 1
                conv = z3.fpToSBV(z3.RTZ(), v, z3.BitVecSort(w))
            else:
                lo, hi = 0, (1 << w) - 1
                conv = z3.fpToUBV(z3.RTZ(), v, z3.BitVecSort(w))
            flo, fhi = z3.FPVal(float(lo), z3.Float64()), z3.FPVal(float(hi), z3.Float64())
            return z3.If(z3.fpIsNaN(v), bv(0, w), z3.If(z3.fpLEQ(v, flo), bv(lo, w), z3.If(z3.fpGEQ(v, fhi), bv(hi, w), conv)))
        if kind in ("PtrToPtr", "Transmute", "PointerCoercion", "Unsize", "MutToConstPointer", "ReifyFnPointer", "ClosureFnPointer"):
            return v
        raise Unsupported("cast kind " + kind)

    # ---- pretty printing of defining expressions (for role-based path signatures)
    def describe(self, st, local_or_txt, depth=0):
        txt = local_or_txt

        fn, sx = self.F(st), self.sfx(st)

        def repl(m):
            loc = m.group(0)
            if loc in fn.debug_of:
                return fn.debug_of[loc]
            if depth < 3 and (loc + sx) in st.defs:
                return "(" + self.describe(st, st.defs[loc + sx], depth + 1) + ")"
            return loc
        txt = re.sub(r"\b(copy|move|const) ", "", txt)
        txt = re.sub(r"_\d+\b", repl, txt)
        txt = re.sub(r"(?:[\w]+::)+(?=\w)", "", txt)
        txt = re.sub(r": [\w:<>&' ,\[\]]+\)", ")", txt)
        return txt

    # ---- main loop
    def run(self, entry="bb0", st=None):
        st = st or State()
        self.stack = [(entry, st, 0)]
        while self.stack:
            bb, s, start = self.stack.pop()
            self.exec_block(bb, s, start)
            if len(self.paths) > self.max_paths:
                raise PathLimit("more than %d paths" % self.max_paths)
        return self.paths

    def goto(self, bb, st):
        self.stack.append((bb, st, 0))

    def end(self, kind, st, ret=None, info=None):
        self.paths.append(Path(kind, st, ret, info))

    def exec_block(self, bb, st, start=0):
        sx = self.sfx(st)
        if start == 0:
            if not st.frames and bb in self.stop_at:
                self.end("stop", st, None, self.stop_at[bb])
                return
            st.visits[sx + bb] = st.visits.get(sx + bb, 0) + 1
            if st.visits[sx + bb] > self.bound:
                self.end("bound", st, None, bb)
                return
            st.trace.append(sx + bb)
        stmts = self.F(st).blocks[bb]
        for si in range(start, len(stmts)):
            s = stmts[si]
            self._cur_stmt = (stmts, si)
            if re.match(r"^(StorageLive|StorageDead|nop|FakeRead|PlaceMention|Retag|AscribeUserType|Coverage|ConstEvalCounter|BackwardIncompatibleDropHint)\b", s):
                continue
            m = re.match(r"^switchInt\((.*)\) -> \[(.*)\];$", s)
            if m:
                return self.do_switch(st, m.group(1), m.group(2))
            m = re.match(r"^goto -> (bb\d+);$", s)
            if m:
                return self.goto(m.group(1), st)
            if s == "return;":
                if st.frames:
                    # return from an inlined call: hand the value to the caller's destination and continue there
                    fn_, sx_, ret_bb, dst_txt = st.frames[-1]
                    val = self._get_root(st, "_0" + sx_)
                    st.frames = st.frames[:-1]
                    if isinstance(dst_txt, tuple) and dst_txt[0] == "WRAP":
                        val, dst_txt = Enum(dst_txt[1], [val]), dst_txt[2]
                    if dst_txt:
                        self.write(st, dst_txt, val)
                    return self.goto(ret_bb, st)
                return self.end("return", st, self._get_root(st, "_0" + self.top_suffix))
            if s == "unreachable;":
                return
            if s.startswith("resume") or s.startswith("terminate"):
                return
            m = re.match(r"^assert\((!?)(.+?), \"(.*?)\".*\) -> \[success: (bb\d+), unwind[^\]]*\];$", s)
            if m:
                v, _ = self.operand(st, m.group(2))
                ok = (v == FALSE) if m.group(1) else (v == TRUE)
                if self.feasible(st.pc, z3.Not(ok)):
                    p = st.fork()
                    p.pc.append(z3.Not(ok))
                    p.events.append("panic:" + m.group(3)[:60])
                    self.end("panic", p, None, m.group(3))
                if not self.feasible(st.pc, ok):
                    return
                st.pc.append(ok)
                return self.goto(m.group(4), st)
            m = re.match(r"^drop\((.*)\) -> \[return: (bb\d+), unwind[^\]]*\];$", s)
            if m:
                return self.goto(m.group(2), st)
            call = parse_call(s)
            if call is not None:
                return self.do_call(st, call[0], call[1], call[2], call[3], s)
            m = re.match(r"^(.+?) = (.*);$", s)
            if m:
                dst, rhs = m.group(1), m.group(2)
                val = self.rvalue(st, rhs, self.place_type(dst, st))
                if isinstance(val, tuple) and val and val[0] == "fork-enum":
                    # discriminant of an undecided enum: decide it here (fork over the alternatives), then re-run this block
                    _, place_txt, sym = val
                    for variant, fields in sym.alts:
                        n = st.fork()
                        fvals = [self.fresh_of_type(f, "%s.%s" % (sym.name, variant)) if isinstance(f, str) else f(self, n) for f in fields]
                        self.write(n, place_txt, Enum(variant, fvals, sym.ty))
                        n.events.append("%s is %s" % (self.describe(n, place_txt), variant))
                        self.stack.append((bb, n, si))
                    return
                if re.match(r"^_\d+$", dst):
                    st.defs[dst + sx] = rhs
                self.write(st, dst, val)
                continue
            raise Unsupported("statement " + s[:160])
        raise Unsupported("block %s has no terminator" % bb)

    def do_switch(self, st, disc_txt, arms_txt):
        v, _ = self.operand(st, disc_txt)
        if not isinstance(v, z3.BitVecRef):
            raise Unsupported("switchInt on %r" % (v,))
        arms = []
        seen = []
        for arm in arms_txt.split(", "):
            k, tgt = arm.split(": ")
            if k == "otherwise":
                cond = z3.And([v != o for o in seen]) if seen else z3.BoolVal(True)
            else:
                kv = bv(int(k), v.size())
                cond = v == kv
                seen.append(kv)
            arms.append((k, tgt, cond))
        sv = z3.simplify(v)
        if z3.is_bv_value(sv):
            val = sv.as_long()
            for k, tgt, cond in arms:
                if k != "otherwise" and int(k) % (1 << v.size()) == val:
                    return self.goto(tgt, st)
            for k, tgt, cond in arms:
                if k == "otherwise":
                    return self.goto(tgt, st)
            return
        loc = disc_txt.replace("move ", "").replace("copy ", "").strip()
        desc = self.describe(st, st.defs.get(loc + self.sfx(st), loc))
        feas = [(k, tgt, cond) for k, tgt, cond in arms if self.feasible(st.pc, cond)]
        for k, tgt, cond in reversed(feas):
            n = st.fork() if len(feas) > 1 else st
            n.pc.append(cond)
            if len(feas) > 1:
                n.events.append("%s -> %s" % (desc, k))
            self.goto(tgt, n)

    def push_frame(self, st, fn, argv, dst, nxt):
        if len(st.frames) >= self.max_depth:
            raise Unsupported("inlining depth exceeded at " + fn.header[:80])
        if len(fn.args) != len(argv):
            raise Unsupported("argument count mismatch inlining " + fn.header[:80])
        self.nframes += 1
        sx = "@%d" % self.nframes
        self.frame_fns[sx] = fn
        self.inlined.add(fn.header.split("(")[0][3:])
        for a, v in zip(fn.args, argv):
            st.env[a + sx] = v
        st.frames = st.frames + [(fn, sx, nxt, dst)]
        self.goto("bb0", st)

    def try_higher_order(self, st, dst, callee, argv, nxt):
        """Option/Result adaptors taking a crate-local closure: unwrap_or_else, map, map_err, and_then. The closure body is inlined."""
        if self.inline is None or self.mf is None or nxt.startswith("unwind"):
            return False
        m = re.match(r"^(?:std::(?:option|result)::)?(Option|Result)::<.*>::(unwrap_or_else|map|map_err|and_then|map_or)::<.*\{closure@([^}]*)\}>$", callee)
        if not m or not argv or not isinstance(argv[0], Enum):
            return False
        kind, method, loc = m.group(1), m.group(2), m.group(3)
        v = argv[0]
        if method == "map_or":
            # map_or(default, f): None/Err => default, Some/Ok(x) => f(x)
            if len(argv) != 3:
                return False
            fn = self.mf.resolve_closure(loc)
            if fn is None:
                return False
            if v.variant in ("Some", "Ok"):
                self.push_frame(st, fn, [argv[2]] + list(v.fields[:1]), dst, nxt)
            else:
                self.write(st, dst, argv[1])
                self.goto(nxt, st)
            return True
        clos = argv[1] if len(argv) > 1 else Opaque("closure")
        good = v.variant in ("Some", "Ok")
        fn = self.mf.resolve_closure(loc)
        if fn is None:
            return False
        if method == "unwrap_or_else":
            if good:
                self.write(st, dst, v.fields[0])
                self.goto(nxt, st)
            else:
                self.push_frame(st, fn, [clos] + (list(v.fields) if kind == "Result" else []), dst, nxt)
            return True
        if method in ("map", "and_then"):
            if not good:
                self.write(st, dst, v)
                self.goto(nxt, st)
                return True
            if method == "and_then":
                self.push_frame(st, fn, [clos] + list(v.fields), dst, nxt)
                return True
            # map: result must be re-wrapped after the closure returns: route through a wrapper marker
            self.push_frame(st, fn, [clos] + list(v.fields), ("WRAP", v.variant, dst), nxt)
            return True
        if method == "map_err":
            if good:
                self.write(st, dst, v)
                self.goto(nxt, st)
                return True
            self.push_frame(st, fn, [clos] + list(v.fields), ("WRAP", "Err", dst), nxt)
            return True
        return False

    def try_inline(self, st, dst, callee, argv, nxt):
        """Execute a crate-local callee inline (its MIR is in the same dump). Returns False if it cannot be resolved."""
        if self.inline is None or self.mf is None or nxt.startswith("unwind"):
            return False
        if not re.search(self.inline, callee):
            return False
        fn = self.mf.resolve_callee(callee)
        if fn is None:
            return False
        self.push_frame(st, fn, argv, dst, nxt)
        return True

    def do_call(self, st, dst, callee, args, nxt, stmt):
        cands = [f for pat, f in self.models if re.search(pat, callee)]
        argv = [self.operand(st, a)[0] for a in split_top(args, ", ")] if args.strip() else []
        alts = None
        for model in cands:
            alts = model(self, st, argv, dst, callee)
            if alts is not None:
                break
        if isinstance(alts, str) and alts.startswith("PANIC:"):
            st.events.append("panic:" + alts[6:66])
            self.end("panic", st, None, alts[6:])
            return
        if alts is None:
            if self.try_higher_order(st, dst, callee, argv, nxt):
                return
            if self.try_inline(st, dst, callee, argv, nxt):
                return
            raise Unsupported(("model declined call " if cands else "call ") + callee[:200])
        if nxt.startswith("unwind"):
            # diverging call (panic helpers)
            p = st.fork()
            p.events.append("panic:" + callee[:40])
            self.end("panic", p, None, callee)
            return
        for val, cons, ev in reversed(alts):
            n = st.fork() if len(alts) > 1 else st
            if cons:
                if not self.feasible(n.pc, z3.And(cons)):
                    continue
                n.pc += cons
            if isinstance(val, str) and val.startswith("PANIC:"):
                # one alternative of the callee panics (e.g. division by zero) under `cons`
                n.events.append("panic:" + val[6:66])
                self.end("panic", n, None, val[6:])
                continue
            if ev:
                n.events.append(ev)
            if dst:
                self.write(n, dst, val)
                if re.match(r"^_\d+$", dst):
                    n.defs[dst + self.sfx(n)] = re.sub(r"::<.*?>", "", callee.split("::")[-1]) + "(" + args + ")"
            self.goto(nxt, n)


def parse_call(s):
    """`[dst = ]callee(args) -> [return: bbN, unwind ...];` or `... -> unwind ...;` => (dst, callee, args, next) or None."""
    m = re.match(r"^(.*\)) -> \[return: (bb\d+), unwind[^\]]*\];$", s)
    nxt = None
    if m:
        body, nxt = m.group(1), m.group(2)
    else:
        m = re.match(r"^(.*\)) -> (unwind [^;]*);$", s)
        if not m:
            return None
        body, nxt = m.group(1), m.group(2)
    # the argument list is the last balanced (...) group
    depth, i = 0, len(body) - 1
    while i >= 0:
        if body[i] == ")":
            depth += 1
        elif body[i] == "(":
            depth -= 1
            if depth == 0:
                break
        i -= 1
    if i <= 0:
        return None
    head, args = body[:i], body[i + 1:-1]
    dst = None
    m = re.match(r"^(.+?) = (.*)$", head)
    if m and balanced(m.group(1)) and not m.group(1).startswith(("<", "core::", "std::")):
        dst, head = m.group(1), m.group(2)
    if re.match(r"^(Eq|Ne|Lt|Le|Gt|Ge|Add|Sub|Mul|Div|Rem|BitAnd|BitOr|BitXor|Shl|Shr|Not|Neg|discriminant|Len|\w+WithOverflow)$", head):
        return None
    return dst, head, args, nxt


DEFAULT_VARIANTS = {"None": 0, "Some": 1, "Ok": 0, "Err": 1, "Continue": 0, "Break": 1, "Less": -1 % (1 << 64), "Equal": 0,
                    "Greater": 1, "Borrowed": 0, "Owned": 1}


def balanced(t):
    d = 0
    i = 0
    while i < len(t):
        ch = t[i]
        if ch in "([":
            d += 1
        elif ch in ")]":
            d -= 1
            if d < 0:
                return False
        i += 1
    return d == 0


_SUB = [0]


def subcall(ex, st, fn, argv, with_state=False):
    """Run `fn` synchronously on a fork of `st` (used by models of std algorithms that call a crate-local closure several times).
    Returns [(return value, extra path constraints)] for the returning paths ([(value, constraints, post-state)] with `with_state`,
    for closures that mutate what they capture); a possible panic is reported as the string "PANIC:..."."""
    _SUB[0] += 1
    sfx = "@sub%d" % _SUB[0]
    sub = type(ex)(fn, ex.models, bound=ex.bound, variant_index=ex.variant_index, consts=ex.consts, mf=ex.mf, inline=ex.inline,
                   max_depth=ex.max_depth, top_suffix=sfx, max_paths=ex.max_paths)
    s2 = st.fork()
    s2.frames, s2.visits = [], {}
    if len(fn.args) != len(argv):
        raise Unsupported("argument count mismatch in subcall of " + fn.header[:60])
    for a, v in zip(fn.args, argv):
        s2.env[a + sfx] = v
    base = len(st.pc)
    out = []
    for p in sub.run("bb0", s2):
        if p.kind == "return":
            out.append((p.ret, list(p.st.pc[base:]), p.st) if with_state else (p.ret, list(p.st.pc[base:])))
        elif p.kind == "panic":
            return "PANIC:" + str(p.info)[:80]
        elif p.kind == "bound":
            raise Unsupported("nested call cut by the loop bound: " + fn.header[:60])
    ex.queries += sub.queries
    ex.solver_time += sub.solver_time
    ex.inlined |= sub.inlined | {fn.header.split("(")[0][3:]}
    return out


# ------------------------------------------------------------------------------------------ generic callee models
def deref_val(ex, st, x):
    return ex._read(st, x.root, list(x.projs)) if isinstance(x, Ref) else x


def m_identity(ex, st, a, dst, callee):
    return [(a[0], [], None)]


def m_branch(ex, st, a, dst, callee):
    v = a[0]
    if isinstance(v, SymEnum):
        alts = []
        for variant, fields in v.alts:
            fv = [ex.fresh_of_type(f, "%s.%s" % (v.name, variant)) if isinstance(f, str) else f(ex, st) for f in fields]
            e = Enum(variant, fv)
            out = Enum("Continue", e.fields) if variant in ("Ok", "Some") else Enum("Break", [e])
            alts.append((out, [], "%s is %s" % (v.name, variant)))
        return alts
    if not isinstance(v, Enum):
        return None
    if v.variant in ("Ok", "Some"):
        return [(Enum("Continue", v.fields), [], None)]
    return [(Enum("Break", [v]), [], None)]


def m_from_residual(ex, st, a, dst, callee):
    v = a[0]
    if isinstance(v, Enum) and v.variant == "Err":
        return [(Enum("Err", [Enum("From", v.fields)] if "error::Error" in callee and False else v.fields), [], None)]
    if isinstance(v, Enum) and v.variant == "None":
        return [(Enum("None"), [], None)]
    return None


def m_unit(ex, st, a, dst, callee):
    return [(Tup([]), [], None)]


def m_vec_new(ex, st, a, dst, callee):
    return [(PyVec(), [], None)]


def m_vec_push(ex, st, a, dst, callee):
    v = deref_val(ex, st, a[0])
    if not isinstance(v, PyVec):
        return None
    ex._write(st, a[0].root, list(a[0].projs), PyVec(v.items + [a[1]]))
    return [(Tup([]), [], None)]


def m_vec_clear(ex, st, a, dst, callee):
    ex._write(st, a[0].root, list(a[0].projs), PyVec())
    return [(Tup([]), [], None)]


def m_vec_len(ex, st, a, dst, callee):
    v = deref_val(ex, st, a[0])
    if not isinstance(v, PyVec):
        return None
    return [(bv(len(v.items), 64), [], None)]


def m_vec_is_empty(ex, st, a, dst, callee):
    v = deref_val(ex, st, a[0])
    if not isinstance(v, PyVec):
        return None
    return [(TRUE if not v.items else FALSE, [], None)]


def m_take(ex, st, a, dst, callee):
    v = deref_val(ex, st, a[0])
    if isinstance(v, PyVec):
        ex._write(st, a[0].root, list(a[0].projs), PyVec())
        return [(v, [], None)]
    if isinstance(v, Enum) and v.variant in ("Some", "None"):
        ex._write(st, a[0].root, list(a[0].projs), Enum("None"))
        return [(v, [], None)]
    return None


def m_res_is_ok(ex, st, a, dst, callee):
    v = deref_val(ex, st, a[0])
    if isinstance(v, Enum) and v.variant in ("Ok", "Err"):
        good = v.variant == "Ok"
        return [(TRUE if good == callee.endswith("is_ok") else FALSE, [], None)]
    return None


def m_range_next(ex, st, a, dst, callee):
    """<Range<int> as Iterator>::next: yields `start` and advances while start < end (forks when the comparison is symbolic)."""
    r = deref_val(ex, st, a[0])
    if not (isinstance(r, Struct) and r.name == "Range" and z3.is_bv(r.fields[0])):
        return None
    s_, e_ = r.fields[0], r.fields[1]
    signed = bool(re.search(r"Range<i", callee))
    lt = (s_ < e_) if signed else z3.ULT(s_, e_)
    adv = Struct("Range", {0: s_ + 1, 1: e_})
    return [(("ADV", a[0], adv, Enum("Some", [s_])), [lt], None), (Enum("None"), [z3.Not(lt)], None)]


def m_unwrap_or(ex, st, a, dst, callee):
    v = a[0]
    if isinstance(v, Enum) and v.variant in ("Some", "Ok"):
        return [(v.fields[0], [], None)]
    if isinstance(v, Enum) and v.variant in ("None", "Err"):
        return [(a[1], [], None)]
    return None


def m_opt_is_none(ex, st, a, dst, callee):
    v = deref_val(ex, st, a[0])
    if isinstance(v, Enum):
        return [(TRUE if v.variant == "None" else FALSE, [], None)]
    return None


def m_opt_is_some(ex, st, a, dst, callee):
    v = deref_val(ex, st, a[0])
    if isinstance(v, Enum):
        return [(TRUE if v.variant == "Some" else FALSE, [], None)]
    return None


def m_opt_scalar_eq(negate):
    def f(ex, st, a, dst, callee):
        l, r = deref_val(ex, st, a[0]), deref_val(ex, st, a[1])
        if not (isinstance(l, Enum) and isinstance(r, Enum)):
            return None
        if l.variant != r.variant:
            return [(TRUE if negate else FALSE, [], None)]
        if l.variant == "None":
            return [(FALSE if negate else TRUE, [], None)]
        c = l.fields[0] == r.fields[0]
        return [(b2bv(z3.Not(c) if negate else c), [], None)]
    return f


def m_int_try_from(ex, st, a, dst, callee):
    m = re.search(r"<(\w+) as TryFrom<(\w+)>>::try_from$", callee)
    if not m or m.group(1) not in INT_W or m.group(2) not in INT_W:
        return None
    to, frm = m.group(1), m.group(2)
    v = a[0]
    if not isinstance(v, z3.BitVecRef):
        return None
    wt, wf = INT_W[to], INT_W[frm]
    # value range of the target type, expressed in a width that holds both
    w = max(wt, wf) + 1
    ext = z3.SignExt(w - wf, v) if frm in SIGNED else z3.ZeroExt(w - wf, v)
    lo, hi = (-(1 << (wt - 1)), (1 << (wt - 1)) - 1) if to in SIGNED else (0, (1 << wt) - 1)
    fits = z3.And(ext >= z3.BitVecVal(lo, w), ext <= z3.BitVecVal(hi, w))
    res = z3.Extract(wt - 1, 0, v) if wf >= wt else (z3.SignExt(wt - wf, v) if frm in SIGNED else z3.ZeroExt(wt - wf, v))
    return [(Enum("Ok", [res]), [fits], "try_from fits %s" % to), (Enum("Err", [Opaque("TryFromIntError")]), [z3.Not(fits)], "try_from out of %s range" % to)]


# ---- std comparison / float helpers (used when crate-local comparators are executed inline)
ORD = ("Less", "Equal", "Greater")


def _dv(ex, st, x):
    return deref_val(ex, st, x) if isinstance(x, Ref) else x


def m_ord_cmp(ex, st, a, dst, callee):
    m = re.search(r"<(\w+) as Ord>::cmp$", callee)
    if not m or m.group(1) not in INT_W:
        return None
    x, y = _dv(ex, st, a[0]), _dv(ex, st, a[1])
    if not (isinstance(x, z3.BitVecRef) and isinstance(y, z3.BitVecRef)):
        return None
    signed = m.group(1) in SIGNED
    lt = (x < y) if signed else z3.ULT(x, y)
    gt = (x > y) if signed else z3.UGT(x, y)
    return [(Enum("Less"), [lt], None), (Enum("Equal"), [x == y], None), (Enum("Greater"), [gt], None)]


def m_f64_partial_cmp(ex, st, a, dst, callee):
    x, y = _dv(ex, st, a[0]), _dv(ex, st, a[1])
    if not (isinstance(x, z3.FPRef) and isinstance(y, z3.FPRef)):
        return None
    return [(Enum("Some", [Enum("Less")]), [z3.fpLT(x, y)], None), (Enum("Some", [Enum("Equal")]), [z3.fpEQ(x, y)], None),
            (Enum("Some", [Enum("Greater")]), [z3.fpGT(x, y)], None), (Enum("None"), [z3.Or(z3.fpIsNaN(x), z3.fpIsNaN(y))], None)]


def m_f64_pred(fn):
    def f(ex, st, a, dst, callee):
        x = _dv(ex, st, a[0])
        if not isinstance(x, z3.FPRef):
            return None
        return [(b2bv(fn(x)), [], None)]
    return f


def m_f64_trunc(ex, st, a, dst, callee):
    x = _dv(ex, st, a[0])
    if not isinstance(x, z3.FPRef):
        return None
    return [(z3.fpRoundToIntegral(z3.RTZ(), x), [], None)]


def m_ordering_reverse(ex, st, a, dst, callee):
    v = _dv(ex, st, a[0])
    if isinstance(v, Enum) and v.variant in ORD:
        return [(Enum({"Less": "Greater", "Greater": "Less", "Equal": "Equal"}[v.variant]), [], None)]
    return None


def m_ordering_is(kind):
    table = {"is_lt": ("Less",), "is_gt": ("Greater",), "is_eq": ("Equal",), "is_le": ("Less", "Equal"), "is_ge": ("Greater", "Equal"), "is_ne": ("Less", "Greater")}

    def f(ex, st, a, dst, callee):
        v = _dv(ex, st, a[0])
        if isinstance(v, Enum) and v.variant in ORD:
            return [(TRUE if v.variant in table[kind] else FALSE, [], None)]
        return None
    return f


def m_unit_enum_eq(negate):
    def f(ex, st, a, dst, callee):
        x, y = _dv(ex, st, a[0]), _dv(ex, st, a[1])
        for idx, v in ((0, x), (1, y)):
            if isinstance(v, SymEnum) and isinstance(a[idx], Ref) and all(not flds for _, flds in v.alts):
                other = y if idx == 0 else x
                if isinstance(other, Enum) and not other.fields:
                    # decide the undecided unit enum here: one alternative per variant
                    return [(("ADV", a[idx], Enum(var), TRUE if ((var == other.variant) != negate) else FALSE), [], "%s is %s" % (v.name, var))
                            for var, _ in v.alts]
        if isinstance(x, Enum) and isinstance(y, Enum) and not x.fields and not y.fields:
            r = x.variant == y.variant
            return [(TRUE if (r != negate) else FALSE, [], None)]
        return None
    return f


def m_option_unwrap_or(ex, st, a, dst, callee):
    v = a[0]
    if isinstance(v, Enum) and v.variant == "Some":
        return [(v.fields[0], [], None)]
    if isinstance(v, Enum) and v.variant == "None":
        return [(a[1], [], None)]
    return None


def m_option_map_reverse(ex, st, a, dst, callee):
    v = a[0]
    if "Ordering::reverse" not in callee:
        return None
    if isinstance(v, Enum) and v.variant == "Some":
        inner = v.fields[0]
        if isinstance(inner, Enum) and inner.variant in ORD:
            return [(Enum("Some", [Enum({"Less": "Greater", "Greater": "Less", "Equal": "Equal"}[inner.variant])]), [], None)]
    if isinstance(v, Enum) and v.variant == "None":
        return [(v, [], None)]
    return None


def m_to_le_bytes(ex, st, a, dst, callee):
    v = _dv(ex, st, a[0])
    if not isinstance(v, z3.BitVecRef):
        return None
    return [(PyVec([z3.Extract(8 * i + 7, 8 * i, v) for i in range(v.size() // 8)]), [], None)]


def m_to_be_bytes(ex, st, a, dst, callee):
    v = _dv(ex, st, a[0])
    if not isinstance(v, z3.BitVecRef):
        return None
    n = v.size() // 8
    return [(PyVec([z3.Extract(8 * (n - 1 - i) + 7, 8 * (n - 1 - i), v) for i in range(n)]), [], None)]


def m_from_be_bytes(ex, st, a, dst, callee):
    v = _dv(ex, st, a[0])
    if not isinstance(v, PyVec) or not all(isinstance(x, z3.BitVecRef) and x.size() == 8 for x in v.items):
        return None
    return [(z3.Concat(list(v.items)) if len(v.items) > 1 else v.items[0], [], None)]


def m_from_le_bytes(ex, st, a, dst, callee):
    v = _dv(ex, st, a[0])
    if not isinstance(v, PyVec) or not all(isinstance(x, z3.BitVecRef) and x.size() == 8 for x in v.items):
        return None
    return [(z3.Concat(list(reversed(v.items))) if len(v.items) > 1 else v.items[0], [], None)]


def m_int_arith(ex, st, a, dst, callee):
    m = re.search(r"num::<impl (\w+)>::(overflowing|wrapping|checked|saturating)_(add|sub|mul|neg)$", callee)
    if not m or m.group(1) not in INT_W:
        return None
    t, mode, op = m.group(1), m.group(2), m.group(3)
    x = _dv(ex, st, a[0])
    y = _dv(ex, st, a[1]) if len(a) > 1 else None
    if not isinstance(x, z3.BitVecRef):
        return None
    w = x.size()
    signed = t in SIGNED
    ext = (lambda v: z3.SignExt(w, v)) if signed else (lambda v: z3.ZeroExt(w, v))
    if op == "neg":
        wide = -ext(x)
    else:
        wide = {"add": ext(x) + ext(y), "sub": ext(x) - ext(y), "mul": ext(x) * ext(y)}[op]
    res = z3.Extract(w - 1, 0, wide)
    ovf = ext(res) != wide
    if mode == "wrapping":
        return [(res, [], None)]
    if mode == "overflowing":
        return [(Tup([res, b2bv(ovf)]), [], None)]
    if mode == "checked":
        return [(Enum("Some", [res]), [z3.Not(ovf)], None), (Enum("None"), [ovf], None)]
    lo, hi = ((-(1 << (w - 1))), (1 << (w - 1)) - 1) if signed else (0, (1 << w) - 1)
    neg = (wide < 0) if signed else z3.BoolVal(False)
    return [(z3.If(ovf, z3.If(neg, bv(lo, w), bv(hi, w)), res), [], None)]


def m_int_div(ex, st, a, dst, callee):
    """checked_/wrapping_ div and rem of machine integers (Rust semantics: truncating division, None on /0 and MIN/-1)."""
    m = re.search(r"num::<impl (\w+)>::(checked|wrapping)_(div|rem)$", callee)
    if not m or m.group(1) not in INT_W:
        return None
    t, mode, op = m.group(1), m.group(2), m.group(3)
    x, y = _dv(ex, st, a[0]), _dv(ex, st, a[1])
    if not (isinstance(x, z3.BitVecRef) and isinstance(y, z3.BitVecRef)):
        return None
    w = x.size()
    signed = t in SIGNED
    if signed:
        res = (x / y) if op == "div" else z3.SRem(x, y)
        ovf = z3.And(x == bv(-(1 << (w - 1)), w), y == bv(-1, w))
    else:
        res = z3.UDiv(x, y) if op == "div" else z3.URem(x, y)
        ovf = z3.BoolVal(False)
    zero = y == bv(0, w)
    if mode == "checked":
        bad = z3.Or(zero, ovf)
        return [(Enum("Some", [res]), [z3.Not(bad)], None), (Enum("None"), [bad], None)]
    wrapped = z3.If(ovf, x if op == "div" else bv(0, w), res)
    return [(wrapped, [z3.Not(zero)], None), ("PANIC:attempt to divide by zero", [zero], None)]


def m_div_ceil(ex, st, a, dst, callee):
    x, y = _dv(ex, st, a[0]), _dv(ex, st, a[1])
    if not (isinstance(x, z3.BitVecRef) and isinstance(y, z3.BitVecRef)):
        return None
    w = x.size()
    xs, ys = z3.simplify(x), z3.simplify(y)
    if z3.is_bv_value(xs) and z3.is_bv_value(ys) and ys.as_long() != 0:
        return [(bv(-(-xs.as_long() // ys.as_long()), w), [], None)]
    res = z3.UDiv(x, y) + z3.If(z3.URem(x, y) != 0, bv(1, w), bv(0, w))
    return [(res, [y != bv(0, w)], None), ("PANIC:attempt to divide by zero", [y == bv(0, w)], None)]


def m_prim_default(ex, st, a, dst, callee):
    m = re.search(r"<(\w+) as Default>::default$", callee)
    if not m:
        return None
    t = m.group(1)
    if t in INT_W:
        return [(bv(0, INT_W[t]), [], None)]
    if t == "f64":
        return [(z3.FPVal(0.0, z3.Float64()), [], None)]
    return None


def m_int_minmax(ex, st, a, dst, callee):
    m = re.match(r"^<([ui])(?:\d+|size) as Ord>::(min|max)$", callee)
    if not m or not (z3.is_bv(a[0]) and z3.is_bv(a[1])):
        return None
    signed, lo = m.group(1) == "i", m.group(2) == "min"
    lt = (a[0] < a[1]) if signed else z3.ULT(a[0], a[1])
    return [(z3.If(lt, a[0], a[1]) if lo else z3.If(lt, a[1], a[0]), [], None)]


def m_ref_int_eq(ex, st, a, dst, callee):
    x, y = a[0], a[1]
    for _ in range(3):
        x = deref_val(ex, st, x) if isinstance(x, Ref) else x
        y = deref_val(ex, st, y) if isinstance(y, Ref) else y
    if not (z3.is_bv(x) and z3.is_bv(y)):
        return None
    c = (x == y) if callee.endswith("::eq") else (x != y)
    return [(TRUE, [c], None), (FALSE, [z3.Not(c)], None)]


STD_CMP_MODELS = [
    (r"^<&+[ui](?:\d+|size) as PartialEq(?:<.*>)?>::(eq|ne)$", m_ref_int_eq),
    (r"^<[ui](?:\d+|size) as Ord>::(min|max)$", m_int_minmax),
    (r"<\w+ as Default>::default$", m_prim_default),
    (r"num::<impl [ui]\d+>::to_le_bytes$", m_to_le_bytes),
    (r"num::<impl [ui]\d+>::to_be_bytes$", m_to_be_bytes),
    (r"num::<impl [ui]\d+>::from_be_bytes$", m_from_be_bytes),
    (r"num::<impl [ui]\d+>::from_le_bytes$", m_from_le_bytes),
    (r"num::<impl \w+>::(overflowing|wrapping|checked|saturating)_(add|sub|mul|neg)$", m_int_arith),
    (r"num::<impl \w+>::(checked|wrapping)_(div|rem)$", m_int_div),
    (r"num::<impl u(?:\d+|size)>::div_ceil$", m_div_ceil),
    (r"<\w+ as Ord>::cmp$", m_ord_cmp),
    (r"<f64 as PartialOrd>::partial_cmp$", m_f64_partial_cmp),
    (r"f64>::is_nan$|f64::is_nan$", m_f64_pred(z3.fpIsNaN)),
    (r"f64>::is_finite$|f64::is_finite$", m_f64_pred(lambda x: z3.Not(z3.Or(z3.fpIsNaN(x), z3.fpIsInf(x))))),
    (r"f64>::is_infinite$|f64::is_infinite$", m_f64_pred(z3.fpIsInf)),
    (r"f64>::trunc$|f64::trunc$", m_f64_trunc),
    (r"Ordering::reverse$", m_ordering_reverse),
    (r"Ordering::is_lt$", m_ordering_is("is_lt")), (r"Ordering::is_gt$", m_ordering_is("is_gt")), (r"Ordering::is_eq$", m_ordering_is("is_eq")),
    (r"Ordering::is_le$", m_ordering_is("is_le")), (r"Ordering::is_ge$", m_ordering_is("is_ge")), (r"Ordering::is_ne$", m_ordering_is("is_ne")),
    (r"<[\w:]+ as PartialEq>::eq$", m_unit_enum_eq(False)), (r"<[\w:]+ as PartialEq>::ne$", m_unit_enum_eq(True)),
    (r"Option::<.*>::unwrap_or$", m_option_unwrap_or),
    (r"Option::<std::cmp::Ordering>::map::<", m_option_map_reverse),
]

GENERIC_MODELS = [
    (r"<\w+ as TryFrom<\w+>>::try_from$", m_int_try_from),
    (r" as Try>::branch$", m_branch),
    (r"FromResidual<.*>>::from_residual$", m_from_residual),
    (r"as Deref>::deref$|as DerefMut>::deref_mut$|as AsRef<.*>>::as_ref$|as Borrow<.*>>::borrow$|^Vec::<.*>::as_slice$|^Vec::<.*>::as_mut_slice$", m_identity),
    (r"Vec::<.*>::new$", m_vec_new),
    (r"Vec::<.*>::push$", m_vec_push),
    (r"Vec::<.*>::clear$", m_vec_clear),
    (r"Vec::<.*>::len$", m_vec_len),
    (r"Vec::<.*>::is_empty$", m_vec_is_empty),
    (r"mem::take::<", m_take),
    (r"Result::<.*>::is_ok$|Result::<.*>::is_err$", m_res_is_ok),
    (r"(?:Option|Result)::<.*>::unwrap_or$", m_unwrap_or),
    (r"^<std::ops::Range<[ui](?:\d+|size)> as IntoIterator>::into_iter$", m_identity),
    (r"^<std::ops::Range<[ui](?:\d+|size)> as Iterator>::next$", m_range_next),
    (r"Option::<.*>::is_none$", m_opt_is_none),
    (r"Option::<.*>::is_some$", m_opt_is_some),
]
