"""Callee models for byte buffers: slices and arrays of u8 are Python lists of 8-bit z3 terms at concrete positions; a reference
to a sub-slice is a Ref whose projection list ends with ("range", start, end), so writes through it reach the underlying buffer."""
import re

import z3

from .symex import (FALSE, TRUE, Enum, Opaque, PyVec, Ref, Struct, Tup, Unsupported, b2bv, bv, deref_val)


def conc(v, what="position"):
    s = z3.simplify(v)
    if not z3.is_bv_value(s):
        raise Unsupported("%s is not concrete: %s" % (what, str(s)[:80]))
    return s.as_long()


def buf_of(ex, st, x):
    v = x
    for _ in range(4):
        if isinstance(v, Ref):
            v = deref_val(ex, st, v)
    if not isinstance(v, PyVec):
        raise Unsupported("expected a byte buffer, got %r" % (type(v).__name__,))
    return v


def m_index(ex, st, a, dst, callee):
    """<[u8] / [u8; N] as Index/IndexMut<Range|RangeFrom|RangeTo|RangeFull>>::index[_mut]"""
    if not isinstance(a[0], Ref) or not isinstance(a[1], Struct):
        return None
    n = len(buf_of(ex, st, a[0]).items)
    r = a[1]
    if r.name == "Range":
        s, e = conc(r.fields[0]), conc(r.fields[1])
    elif r.name == "RangeFrom":
        s, e = conc(r.fields[0]), n
    elif r.name == "RangeTo":
        s, e = 0, conc(r.fields[0])
    else:
        return None
    if s > e or e > n:
        return "PANIC:slice index %d..%d out of range for length %d" % (s, e, n)
    return [(Ref(a[0].root, list(a[0].projs) + [("range", s, e)]), [], None)]


def m_copy_from_slice(ex, st, a, dst, callee):
    if not isinstance(a[0], Ref):
        return None
    d, s = buf_of(ex, st, a[0]), buf_of(ex, st, a[1])
    if len(d.items) != len(s.items):
        return "PANIC:copy_from_slice length mismatch"
    ex._write(st, a[0].root, list(a[0].projs), PyVec(s.items))
    return [(Tup([]), [], None)]


def m_fill(ex, st, a, dst, callee):
    if not isinstance(a[0], Ref):
        return None
    d = buf_of(ex, st, a[0])
    ex._write(st, a[0].root, list(a[0].projs), PyVec([a[1]] * len(d.items)))
    return [(Tup([]), [], None)]


def m_copy_within(ex, st, a, dst, callee):
    if not isinstance(a[0], Ref) or not isinstance(a[1], Struct):
        return None
    d = buf_of(ex, st, a[0])
    s, e, to = conc(a[1].fields[0]), conc(a[1].fields[1]), conc(a[2])
    if s > e or e > len(d.items) or to + (e - s) > len(d.items):
        return "PANIC:copy_within out of range"
    items = list(d.items)
    items[to:to + (e - s)] = d.items[s:e]
    ex._write(st, a[0].root, list(a[0].projs), PyVec(items))
    return [(Tup([]), [], None)]


def m_len(ex, st, a, dst, callee):
    return [(bv(len(buf_of(ex, st, a[0]).items), 64), [], None)]


def m_try_into(ex, st, a, dst, callee):
    m = re.search(r"TryInto<\[u8; (\d+)\]>", callee)
    if not m:
        return None
    v = buf_of(ex, st, a[0])
    if len(v.items) != int(m.group(1)):
        return [(Enum("Err", [Opaque("TryFromSliceError")]), [], None)]
    return [(Enum("Ok", [PyVec(v.items)]), [], None)]


def m_unwrap(ex, st, a, dst, callee):
    v = a[0]
    if isinstance(v, Enum) and v.variant in ("Ok", "Some"):
        return [(v.fields[0], [], None)]
    if isinstance(v, Enum) and v.variant in ("Err", "None"):
        return "PANIC:unwrap on %s" % v.variant
    return None


def lex_lt(x, y):
    """z3 term: byte string x < byte string y (lexicographic, like <[u8] as Ord>)."""
    n = min(len(x), len(y))
    res = z3.BoolVal(len(x) < len(y))
    for i in reversed(range(n)):
        res = z3.If(z3.ULT(x[i], y[i]), z3.BoolVal(True), z3.If(z3.UGT(x[i], y[i]), z3.BoolVal(False), res))
    return res


def lex_eq(x, y):
    if len(x) != len(y):
        return z3.BoolVal(False)
    return z3.And([a == b for a, b in zip(x, y)]) if x else z3.BoolVal(True)


def m_slice_cmp(ex, st, a, dst, callee):
    m = re.search(r"as (PartialOrd|PartialEq|Ord)(?:<[^>]*>)?>::(lt|le|gt|ge|eq|ne|cmp|partial_cmp)$", callee)
    if not m:
        return None
    x, y = buf_of(ex, st, a[0]).items, buf_of(ex, st, a[1]).items
    op = m.group(2)
    lt, eq = lex_lt(x, y), lex_eq(x, y)
    if op in ("cmp", "partial_cmp"):
        wrap = (lambda e: Enum("Some", [e])) if op == "partial_cmp" else (lambda e: e)
        return [(wrap(Enum("Less")), [lt], None), (wrap(Enum("Equal")), [eq], None), (wrap(Enum("Greater")), [z3.Not(z3.Or(lt, eq))], None)]
    t = {"lt": lt, "le": z3.Or(lt, eq), "gt": z3.Not(z3.Or(lt, eq)), "ge": z3.Not(lt), "eq": eq, "ne": z3.Not(eq)}[op]
    return [(b2bv(t), [], None)]


def m_to_vec(ex, st, a, dst, callee):
    return [(PyVec(buf_of(ex, st, a[0]).items), [], None)]


def m_checked_shl(ex, st, a, dst, callee):
    v, sh = a[0], a[1]
    if not isinstance(v, z3.BitVecRef):
        return None
    w = v.size()
    sh2 = z3.ZeroExt(w - sh.size(), sh) if sh.size() < w else z3.Extract(w - 1, 0, sh)
    ok = z3.ULT(sh2, bv(w, w))
    return [(Enum("Some", [v << sh2]), [ok], None), (Enum("None"), [z3.Not(ok)], None)]


def m_widen_from(ex, st, a, dst, callee):
    m = re.search(r"<u(\d+) as From<u(\d+)>>::from$", callee)
    if not m or not isinstance(a[0], z3.BitVecRef):
        return None
    return [(z3.ZeroExt(int(m.group(1)) - int(m.group(2)), a[0]), [], None)]


def m_ok_or(ex, st, a, dst, callee):
    v = a[0]
    if isinstance(v, Enum) and v.variant == "Some":
        return [(Enum("Ok", v.fields), [], None)]
    if isinstance(v, Enum) and v.variant == "None":
        return [(Enum("Err", [a[1]]), [], None)]
    return None


class ByteIt:
    def __init__(self, ref, pos=0, enumerate_=False):
        self.ref, self.pos, self.enum = ref, pos, enumerate_


def m_iter(ex, st, a, dst, callee):
    if isinstance(a[0], Ref):
        buf_of(ex, st, a[0])
        return [(ByteIt(a[0]), [], None)]
    return None


def m_enumerate(ex, st, a, dst, callee):
    if isinstance(a[0], ByteIt):
        return [(ByteIt(a[0].ref, a[0].pos, True), [], None)]
    return None


def m_byteit_into_iter(ex, st, a, dst, callee):
    return [(a[0], [], None)] if isinstance(a[0], ByteIt) else None


def m_byteit_next(ex, st, a, dst, callee):
    it = deref_val(ex, st, a[0]) if isinstance(a[0], Ref) else a[0]
    if not isinstance(it, ByteIt):
        return None
    buf = buf_of(ex, st, it.ref)
    if it.pos >= len(buf.items):
        return [(Enum("None"), [], None)]
    elem = Ref(it.ref.root, list(it.ref.projs) + [("elem", it.pos)])
    item = Tup([bv(it.pos, 64), elem]) if it.enum else elem
    return [(("ADV", a[0], ByteIt(it.ref, it.pos + 1, it.enum), Enum("Some", [item])), [], None)]


BYTES_MODELS = [
    (r"<\[u8(?:; \d+)?\] as (?:std::ops::)?Index(?:Mut)?<(?:std::ops::)?Range(?:From|To)?<usize>>>::index(?:_mut)?$", m_index),
    (r"slice::<impl \[u8\]>::copy_from_slice$", m_copy_from_slice),
    (r"slice::<impl \[u8\]>::fill$", m_fill),
    (r"slice::<impl \[u8\]>::copy_within::<", m_copy_within),
    (r"slice::<impl \[u8\]>::len$|Vec::<u8>::len$", m_len),
    (r"<&\[u8\] as TryInto<\[u8; \d+\]>>::try_into$", m_try_into),
    (r"(?:Result|Option)::<.*>::(?:unwrap|expect)$", m_unwrap),
    (r"^<&?\[u8\] as (PartialOrd|PartialEq|Ord)(<.*>)?>::(lt|le|gt|ge|eq|ne|cmp|partial_cmp)$", m_slice_cmp),
    (r"slice::<impl \[u8\]>::to_vec$", m_to_vec),
    (r"num::<impl u\d+>::checked_shl$", m_checked_shl),
    (r"<u\d+ as From<u\d+>>::from$", m_widen_from),
    (r"Option::<.*>::ok_or::<", m_ok_or),
    (r"slice::<impl \[u8\]>::iter$", m_iter),
    (r"<std::slice::Iter<'_, u8> as Iterator>::enumerate$", m_enumerate),
    (r"<Enumerate<std::slice::Iter<'_, u8>> as IntoIterator>::into_iter$", m_byteit_into_iter),
    (r"<Enumerate<std::slice::Iter<'_, u8>> as Iterator>::next$|<std::slice::Iter<'_, u8> as Iterator>::next$", m_byteit_next),
]
