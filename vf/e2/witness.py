"""Native replay through the public API: build and run /verif/witness against /repo's working tree."""
import os
import re

from .. import common as C

_BUILT = {}


def build():
    if "ok" in _BUILT:
        return _BUILT["ok"]
    with C.FileLock(os.path.join(C.BUILD, "witness.lock")):
        rc, out, dt = C.run(["cargo", "build", "--offline", "--target-dir", os.path.join(C.BUILD, "witness")],
                            cwd=os.path.join(C.VERIF, "witness"), timeout=1800,
                            log=os.path.join(C.BUILD, "logs", "witness-build.log"))
    _BUILT["ok"] = (rc == 0)
    return _BUILT["ok"]


def build_shim():
    so = os.path.join(C.BUILD, "clockshim.so")
    src = os.path.join(C.VERIF, "witness", "clockshim.c")
    if not os.path.exists(so) or os.path.getmtime(so) < os.path.getmtime(src):
        rc, out, dt = C.run(["cc", "-shared", "-fPIC", "-O1", "-o", so, src, "-ldl"], timeout=120)
        if rc != 0:
            return None
    return so


def build_fault_shim():
    so = os.path.join(C.BUILD, "faultshim.so")
    src = os.path.join(C.VERIF, "witness", "faultshim.c")
    if not os.path.exists(so) or os.path.getmtime(so) < os.path.getmtime(src):
        rc, out, dt = C.run(["cc", "-shared", "-fPIC", "-O1", "-o", so, src, "-ldl"], timeout=120)
        if rc != 0:
            return None
    return so


def run(args, timeout=120, clock_seq=None, fault_shim=False):
    """Returns (reproduced: bool|None, output lines). None = witness could not be built/run."""
    if not build():
        return None, ["witness crate failed to build"]
    exe = os.path.join(C.BUILD, "witness", "debug", "verif-witness")
    env = None
    if fault_shim:
        so = build_fault_shim()
        if so is None:
            return None, ["fault shim failed to build"]
        env = C.env_offline()
        env["LD_PRELOAD"] = so
    if clock_seq is not None:
        so = build_shim()
        if so is None:
            return None, ["clock shim failed to build"]
        env = C.env_offline()
        env["LD_PRELOAD"] = so
        env["VERIF_CLOCK_SEQ"] = ",".join(str(int(x)) for x in clock_seq)
    rc, out, dt = C.run([exe] + list(args), timeout=timeout, env=env)
    lines = [l for l in out.splitlines() if l.startswith("WITNESS") or l.startswith("ROWS")]
    rep = None
    for l in lines:
        if l.startswith("WITNESS"):
            if " REPRODUCED" in l:
                rep = True
            elif " NOT-REPRODUCED" in l and rep is None:
                rep = False
    return rep, lines or out.splitlines()[-5:]


def query_rows(cypher, timeout=120):
    if not build():
        return None
    exe = os.path.join(C.BUILD, "witness", "debug", "verif-witness")
    rc, out, dt = C.run([exe, "query", cypher], timeout=timeout)
    for l in out.splitlines():
        if l.startswith("ROWS "):
            return l[5:]
    return None
