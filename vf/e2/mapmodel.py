"""Callee models for BTreeMap / HashMap with scalar keys (strings are modelled as symbolic ids): a map is an association list
(PyVec of Tup([key, value])) whose length is concrete on a path; `entry`, `insert`, `get`, `remove`, `contains_key` fork on the
equality of the probe key with each stored key, so that afterwards the path condition decides every lookup."""
import re

import z3

from .symex import FALSE, TRUE, Enum, Opaque, PyVec, Ref, Struct, Tup, Unsupported, deref_val, subcall


class Entry:
    def __init__(self, map_ref, key, pos):
        self.map_ref, self.key, self.pos = map_ref, key, pos          # pos = index of the occupied slot or None (vacant)


def _map(ex, st, ref):
    v = deref_val(ex, st, ref)
    if not isinstance(v, PyVec):
        raise Unsupported("expected a map model, got %r" % (type(v).__name__,))
    return v


def _find_alts(v, key):
    """[(position | None, constraints)]: the probe key equals the key at `position` (first match) or none."""
    alts, none = [], []
    for i, kv in enumerate(v.items):
        alts.append((i, none + [kv.fields[0] == key]))
        none = none + [kv.fields[0] != key]
    alts.append((None, none))
    return alts


def m_entry(ex, st, a, dst, callee):
    v = _map(ex, st, a[0])
    return [(Entry(a[0], a[1], pos), cons, None) for pos, cons in _find_alts(v, a[1])]


def _slot_ref(map_ref, pos):
    return Ref(map_ref.root, list(map_ref.projs) + [("elem", pos), ("field", 1, None)])


def _insert_new(ex, st, e, value):
    v = _map(ex, st, e.map_ref)
    ex._write(st, e.map_ref.root, list(e.map_ref.projs), PyVec(list(v.items) + [Tup([e.key, value])]))
    return _slot_ref(e.map_ref, len(v.items))


def m_or_default(ex, st, a, dst, callee):
    e = a[0]
    if not isinstance(e, Entry):
        return None
    if e.pos is not None:
        return [(_slot_ref(e.map_ref, e.pos), [], None)]
    inner_is_map = bool(re.search(r"Entry::<'_, [^,]+, (?:std::collections::)?(?:BTreeMap|HashMap|Vec)<", callee))
    default = PyVec() if inner_is_map else Opaque("default")
    return [(_insert_new(ex, st, e, default), [], None)]


def m_or_insert_with(ex, st, a, dst, callee):
    e = a[0]
    if not isinstance(e, Entry):
        return None
    if e.pos is not None:
        return [(_slot_ref(e.map_ref, e.pos), [], None)]
    m = re.search(r"\{closure@([^}]*)\}", callee)
    fn = ex.mf.resolve_closure(m.group(1)) if m and ex.mf is not None else None
    if fn is None:
        return None
    st.env["$entry_closure"] = a[1]
    by_ref = bool(fn.args) and fn.types.get(fn.args[0], "").startswith("&")
    res = subcall(ex, st, fn, [Ref("$entry_closure") if by_ref else a[1]], with_state=True)
    if isinstance(res, str):
        return res
    if len(res) != 1:
        raise Unsupported("or_insert_with closure forks")
    val, extra, post = res[0]
    # the closure may mutate what it captured (e.g. push to another container): adopt its post-state
    st.env = post.env
    return [(_insert_new(ex, st, e, val), extra, None)]


def m_or_insert(ex, st, a, dst, callee):
    e = a[0]
    if not isinstance(e, Entry):
        return None
    if e.pos is not None:
        return [(_slot_ref(e.map_ref, e.pos), [], None)]
    return [(_insert_new(ex, st, e, a[1]), [], None)]


def m_insert(ex, st, a, dst, callee):
    v = _map(ex, st, a[0])
    alts = []
    for pos, cons in _find_alts(v, a[1]):
        if pos is None:
            alts.append((("ADV", a[0], PyVec(list(v.items) + [Tup([a[1], a[2]])]), Enum("None")), cons, None))
        else:
            items = list(v.items)
            old = items[pos].fields[1]
            items[pos] = Tup([items[pos].fields[0], a[2]])
            alts.append((("ADV", a[0], PyVec(items), Enum("Some", [old])), cons, None))
    return alts


def m_get(ex, st, a, dst, callee):
    v = _map(ex, st, a[0])
    key = deref_val(ex, st, a[1]) if isinstance(a[1], Ref) else a[1]
    return [((Enum("Some", [_slot_ref(a[0], pos)]) if pos is not None else Enum("None")), cons, None) for pos, cons in _find_alts(v, key)]


def m_contains_key(ex, st, a, dst, callee):
    v = _map(ex, st, a[0])
    key = deref_val(ex, st, a[1]) if isinstance(a[1], Ref) else a[1]
    return [((TRUE if pos is not None else FALSE), cons, None) for pos, cons in _find_alts(v, key)]


def m_remove(ex, st, a, dst, callee):
    v = _map(ex, st, a[0])
    key = deref_val(ex, st, a[1]) if isinstance(a[1], Ref) else a[1]
    alts = []
    for pos, cons in _find_alts(v, key):
        if pos is None:
            alts.append((Enum("None"), cons, None))
        else:
            items = list(v.items)
            old = items.pop(pos)
            alts.append((("ADV", a[0], PyVec(items), Enum("Some", [old.fields[1]])), cons, None))
    return alts


def m_new(ex, st, a, dst, callee):
    return [(PyVec(), [], None)]


def m_identity(ex, st, a, dst, callee):
    v = a[0]
    if isinstance(v, Ref):
        v = deref_val(ex, st, v)
    return [(v, [], None)]


M = r"(?:BTreeMap|HashMap)"
MAP_MODELS = [
    (r"^%s::<.*>::entry$" % M, m_entry),
    (r"Entry::<.*>::or_default$", m_or_default),
    (r"Entry::<.*>::or_insert_with::<", m_or_insert_with),
    (r"Entry::<.*>::or_insert$", m_or_insert),
    (r"^%s::<.*>::insert$" % M, m_insert),
    (r"^%s::<.*>::get::<|^%s::<.*>::get_mut::<" % (M, M), m_get),
    (r"^%s::<.*>::contains_key::<" % M, m_contains_key),
    (r"^%s::<.*>::remove::<" % M, m_remove),
    (r"^%s::<.*>::new$" % M, m_new),
    (r"^<str as ToString>::to_string$|^<std::string::String as Clone>::clone$|^<String as Clone>::clone$", m_identity),
]


def lookup(ex, pc, assoc, key):
    """Value stored under `key` (decided by the path condition): returns (value | None, decided: bool)."""
    for kv in assoc.items:
        if ex.entails(pc, kv.fields[0] == key):
            return kv.fields[1], True
        if ex.feasible(pc, kv.fields[0] == key):
            return None, False
    return None, True
