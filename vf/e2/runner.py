"""Run E2 targets for one property and turn their results into obligation records for the driver."""
import importlib
import time
import traceback

from .. import common as C
from . import mirdump
from .mir import MirError, MirFile
from .symex import PathLimit, Unsupported

_MIR_CACHE = {}


def mir_for(crate):
    if crate not in _MIR_CACHE:
        path, dt = mirdump.dump(crate)
        _MIR_CACHE[crate] = (MirFile(path), dt)
    return _MIR_CACHE[crate]


def run_targets(pid, modules, tier, log):
    recs = []
    for modname in modules:
        mod = importlib.import_module("vf.e2.targets." + modname)
        for t in mod.TARGETS:
            if not t["name"].startswith(pid.lower() + "_"):
                continue
            ttier = t["name"].split("_")[2]
            if tier == "quick" and ttier != "q":
                continue
            rec = {"engine": "E2-mirsmt", "name": t["name"], "obligation": t["name"].split("_")[1].upper(), "tier": ttier,
                   "status": "inconclusive", "reason": "", "failed": [], "covers": [1, 1], "symbolic": True,
                   "functions": t.get("functions", [])}
            t0 = time.time()
            try:
                mf, dump_s = mir_for(t["crate"])
                res = t["run"](mf, tier)
                rec.update(res)
                rec["mir_dump_s"] = round(dump_s, 1)
            except (Unsupported, MirError, PathLimit) as e:
                rec["status"] = "inconclusive"
                rec["reason"] = "%s: %s" % (type(e).__name__, str(e)[:300])
            except RuntimeError as e:
                rec["status"] = "inconclusive"
                rec["reason"] = "MIR dump failed: " + str(e)[:300]
            except Exception as e:  # noqa: BLE001  (a translator bug must never look like a pass)
                rec["status"] = "inconclusive"
                rec["reason"] = "engine error: %r" % (e,)
                log(traceback.format_exc())
            rec["wall_s"] = round(time.time() - t0, 2)
            rec.setdefault("solver_time_s", None)
            if rec["status"] == "pass" and not rec.get("paths"):
                rec["status"] = "inconclusive"
                rec["reason"] = "vacuity guard: no feasible path reached the obligation"
            log("[E2] %s %s: %s (%s paths, %s queries, %.1fs) %s" % (pid, t["name"], rec["status"], rec.get("paths"),
                                                                  rec.get("queries"), rec["wall_s"], rec["reason"][:200]))
            recs.append(rec)
    return recs
