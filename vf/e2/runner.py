"""Run E2 targets for one property and turn their results into obligation records for the driver."""
import importlib
import time
import traceback

from .. import common as C
from . import mirdump
from .mir import MirError, MirFile
from .symex import PathLimit, Unsupported

_MIR_CACHE = {}


def mir_for(crate):
    if crate not in _MIR_CACHE:
        path, dt = mirdump.dump(crate)
        _MIR_CACHE[crate] = (MirFile(path), dt)
    return _MIR_CACHE[crate]


def _run_one(args):
    """Worker (forked after the MIR files are loaded): run one target, return (record, log lines)."""
    pid, modname, idx, tier = args
    lines = []
    mod = importlib.import_module("vf.e2.targets." + modname)
    t = mod.TARGETS[idx]
    ttier = t["name"].split("_")[2]
    rec = {"engine": "E2-mirsmt", "name": t["name"], "obligation": t["name"].split("_")[1].upper(), "tier": ttier,
           "status": "inconclusive", "reason": "", "failed": [], "covers": [1, 1], "symbolic": True,
           "functions": t.get("functions", [])}
    t0 = time.time()
    try:
        mf, dump_s = mir_for(t["crate"])
        res = t["run"](mf, tier)
        rec.update(res)
        rec["mir_dump_s"] = round(dump_s, 1)
    except (Unsupported, MirError, PathLimit) as e:
        rec["status"] = "inconclusive"
        rec["reason"] = "%s: %s" % (type(e).__name__, str(e)[:300])
    except RuntimeError as e:
        rec["status"] = "inconclusive"
        rec["reason"] = "MIR dump failed: " + str(e)[:300]
    except Exception as e:  # noqa: BLE001  (a translator bug must never look like a pass)
        rec["status"] = "inconclusive"
        rec["reason"] = "engine error: %r" % (e,)
        lines.append(traceback.format_exc())
    rec["wall_s"] = round(time.time() - t0, 2)
    rec.setdefault("solver_time_s", None)
    if rec["status"] == "pass" and not rec.get("paths"):
        rec["status"] = "inconclusive"
        rec["reason"] = "vacuity guard: no feasible path reached the obligation"
    lines.append("[E2] %s %s: %s (%s paths, %s queries, %.1fs) %s" % (pid, t["name"], rec["status"], rec.get("paths"),
                                                                   rec.get("queries"), rec["wall_s"], rec["reason"][:200]))
    return rec, lines


def run_targets(pid, modules, tier, log):
    """Targets of one property run in parallel worker processes (VERIF_E2_JOBS, default 8); the MIR is dumped and parsed once, before forking."""
    import multiprocessing
    import os
    from concurrent.futures import ProcessPoolExecutor
    work = []
    for modname in modules:
        mod = importlib.import_module("vf.e2.targets." + modname)
        for idx, t in enumerate(mod.TARGETS):
            if not t["name"].startswith(pid.lower() + "_"):
                continue
            if tier == "quick" and t["name"].split("_")[2] != "q":
                continue
            work.append((pid, modname, idx, tier))
            try:
                mir_for(t["crate"])
            except Exception:  # noqa: BLE001  (reported per target by the worker)
                pass
    jobs = max(1, min(int(os.environ.get("VERIF_E2_JOBS", "8")), len(work)))
    recs = []
    if jobs == 1 or len(work) <= 1:
        results = [_run_one(w) for w in work]
    else:
        with ProcessPoolExecutor(max_workers=jobs, mp_context=multiprocessing.get_context("fork")) as pool:
            results = list(pool.map(_run_one, work))
    for rec, lines in results:
        for l in lines:
            log(l)
        recs.append(rec)
    return recs
