"""Regenerate the MIR text of a crate from /repo's current working tree (cached by a hash of the sources)."""
import glob
import hashlib
import os
import shutil
import time

from .. import common as C

CRATES = ["nervusdb-storage", "nervusdb-query"]
DEPS = {"nervusdb-storage": ["nervusdb-api", "nervusdb-storage"],
        "nervusdb-query": ["nervusdb-api", "nervusdb-storage", "nervusdb-query"]}
MIR_DIR = os.path.join(C.BUILD, "mir")
TARGET = os.path.join(C.BUILD, "mir-target")


def source_hash(crate):
    h = hashlib.sha256()
    for dep in DEPS[crate]:
        root = os.path.join(C.REPO, dep)
        files = sorted(glob.glob(os.path.join(root, "src", "**", "*.rs"), recursive=True)) + [os.path.join(root, "Cargo.toml")]
        for f in files:
            h.update(f.encode())
            with open(f, "rb") as fh:
                h.update(fh.read())
    return h.hexdigest()


def dump(crate, force=False):
    """Returns (path of the MIR text, seconds spent). Raises RuntimeError if the crate does not compile."""
    os.makedirs(MIR_DIR, exist_ok=True)
    out = os.path.join(MIR_DIR, crate + ".mir")
    hfile = os.path.join(MIR_DIR, crate + ".hash")
    want = source_hash(crate)
    with C.FileLock(os.path.join(C.BUILD, "mir.lock")):
        if not force and os.path.exists(out) and os.path.exists(hfile) and open(hfile).read().strip() == want \
                and os.path.getsize(out) > 1000:
            return out, 0.0
        t0 = time.time()
        for attempt in (0, 1):
            cmd = ["cargo", "+nightly", "rustc", "-p", crate, "--lib", "--offline", "--target-dir", TARGET, "--",
                   "-Zunpretty=mir", "-C", "debug-assertions=off", "-C", "overflow-checks=on"]
            env = C.env_offline()
            tmp = out + ".tmp"
            import subprocess
            with open(tmp, "w") as fo:
                try:
                    pr = subprocess.run(cmd, cwd=C.REPO, env=env, stdout=fo, stderr=subprocess.PIPE, text=True, timeout=3600)
                    rc, log = pr.returncode, pr.stderr
                except subprocess.TimeoutExpired:
                    rc, log = 1, "timeout"
            os.makedirs(os.path.join(C.BUILD, "logs"), exist_ok=True)
            with open(os.path.join(C.BUILD, "logs", "mirdump-%s.log" % crate), "w") as fl:
                fl.write(log)
            text = open(tmp).read()
            if rc == 0 and "fn " in text and len(text) > 1000:
                os.replace(tmp, out)
                with open(hfile, "w") as f:
                    f.write(want)
                return out, time.time() - t0
            if rc != 0:
                raise RuntimeError("MIR dump of %s failed (crate does not compile on nightly?): %s" % (crate, log[-2000:]))
            # rc == 0 but no MIR: cargo considered the crate fresh and did not re-run rustc; drop its fingerprint and retry
            fp = os.path.join(TARGET, "debug", ".fingerprint")
            for d in glob.glob(os.path.join(fp, crate.replace("-", "_") + "-*")) + glob.glob(os.path.join(fp, crate + "-*")):
                shutil.rmtree(d, ignore_errors=True)
        raise RuntimeError("MIR dump of %s produced no output" % crate)
