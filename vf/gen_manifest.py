#!/usr/bin/env python3
"""Regenerate /verif/MANIFEST.json from vf/spec.py (single source of truth for claims)."""
import json
import os
import subprocess
import sys

sys.path.insert(0, os.path.dirname(os.path.dirname(os.path.abspath(__file__))))
from vf import spec as S  # noqa: E402

VERIF = os.path.dirname(os.path.dirname(os.path.abspath(__file__)))
ALL = ["C%02d" % i for i in range(1, 36)]


def hook_commits():
    out = subprocess.run(["git", "-C", "/repo", "log", "--format=%h %s"], capture_output=True, text=True).stdout
    return [l.split()[0] for l in out.splitlines() if l.split(" ", 1)[1].startswith("verif hooks")]


def main():
    checks = []
    for pid in sorted(S.PROPS):
        p = S.PROPS[pid]
        engines = []
        if p.get("kani"):
            engines.append("E1-kani")
        if p.get("e2"):
            engines.append("E2-mirsmt")
        checks.append({
            "property_id": pid,
            "quick_cmd": "./check %s --tier quick" % pid,
            "thorough_cmd": "./check %s --tier thorough" % pid,
            "evidence_file": "/verif/evidence/%s.json" % pid,
            "replay_cmd_template": "./check %s --replay {path}" % pid,
            "engine": "+".join(engines),
            "level_claimed": {"category": "model_checking", "text": p["level_text"], "design_ref": p.get("design_ref", "DESIGN.md section 3")},
            "level_note": p["level_note"],
            "technique": p.get("technique", "solver-based bounded checking of the real code: " + " and ".join(
                (["Kani/CBMC (CaDiCaL) harnesses compiled inside the crate"] if p.get("kani") else []) +
                (["path-wise symbolic execution of rustc MIR with z3"] if p.get("e2") else []))),
        })
    na = [{"property_id": pid, "reason": S.NOT_APPLICABLE.get(pid, "check planned in DESIGN.md section 3 but not built yet in this tree; not claimed")} for pid in ALL if pid not in S.PROPS]
    m = {
        "version": 1,
        "setup_cmd": "./setup.sh",
        "hooks": {
            "guard": "cfg(kani)",
            "enable": "cfg(kani) is set only by the Kani compiler (cargo kani); the guarded `mod kani_harness;` declarations in /repo include harness sources from /verif/kani via #[path]",
            "baseline_off_cmd": "cd /repo && cargo test --workspace --no-fail-fast --offline",
            "source_commits": hook_commits(),
            "add_only": True,
        },
        "engines": [
            {"name": "E1-kani", "path": "/verif/vf/kani_engine.py",
             "serves_properties": [c["property_id"] for c in checks if "E1" in c["engine"]],
             "kind_free_text": "Kani 0.68 / CBMC 6.11 / CaDiCaL bounded model checking of proof harnesses compiled inside the repository's crates (sources in /verif/kani, included under cfg(kani))"},
            {"name": "E2-mirsmt", "path": "/verif/vf/e2",
             "serves_properties": [c["property_id"] for c in checks if "E2" in c["engine"]],
             "kind_free_text": "path-wise symbolic execution of `rustc -Zunpretty=mir` output of the real functions with z3 (bit-vectors), counterexamples replayed through the public API (/verif/witness)"},
        ],
        "checks": checks,
        "not_applicable": na,
        "notes": "All results are bounded (see evidence coverage.bounds / outside_claim). exit 2 = inconclusive (never mapped to pass or violation). Known findings: /verif/known_findings.json.",
    }
    with open(os.path.join(VERIF, "MANIFEST.json"), "w") as f:
        json.dump(m, f, indent=1)
    print("MANIFEST.json: %d checks, %d not applicable" % (len(checks), len(na)))


if __name__ == "__main__":
    main()
