"""Per-property specification: which harness files / E2 targets decide which obligations, plus the claim text
that is echoed into the evidence file (functions encoded, bounds, stubs, assumptions, what is outside)."""

# harness file (relative to /verif) -> (crate, module path of the kani_harness module inside the crate)
HARNESS_FILES = {
    "kani/api/lib.rs": ("nervusdb-api", "kani_harness"),
    "kani/storage/ordered_key.rs": ("nervusdb-storage", "index::ordered_key::kani_harness"),
    "kani/storage/idmap.rs": ("nervusdb-storage", "idmap::kani_harness"),
    "kani/storage/csr.rs": ("nervusdb-storage", "csr::kani_harness"),
    "kani/storage/btree.rs": ("nervusdb-storage", "index::btree::kani_harness"),
    "kani/storage/wal.rs": ("nervusdb-storage", "wal::kani_harness"),
    "kani/storage/pager.rs": ("nervusdb-storage", "pager::kani_harness"),
    "kani/storage/vacuum.rs": ("nervusdb-storage", "vacuum::kani_harness"),
    "kani/storage/bulkload.rs": ("nervusdb-storage", "bulkload::kani_harness"),
    "kani/query/evaluator.rs": ("nervusdb-query", "evaluator::kani_harness"),
    "kani/query/core_types.rs": ("nervusdb-query", "executor::core_types::kani_harness"),
    "kani/query/query_api.rs": ("nervusdb-query", "query_api::kani_harness"),
    "kani/query/plan_mid.rs": ("nervusdb-query", "executor::plan_mid::kani_harness"),
}

# Harness time-outs per tier (seconds). Quick harnesses were registered with >= 3x head-room.
TIMEOUT = {"q": 900, "t": 2400, "a": 900}

PROPS = {}

PROPS["C27"] = {
    "title": "Index key encoding preserves order and equality",
    "kani": [("kani/storage/ordered_key.rs", r"^c27_")],
    "e2": [],
    "functions_encoded": ["nervusdb_storage::index::ordered_key::encode_ordered_value",
                          "nervusdb_storage::index::ordered_key::encode_index_key"],
    "bounds": {"ints/floats/datetimes/bools": "all bit patterns (2^128 pairs per harness)",
               "strings": "lengths (0..2)x(0..2) quick, up to 3x3 thorough (4x4 attempted), bytes < 0x80 symbolic incl. 0x00",
               "blobs": "lengths up to 2x2 quick, 3x3 thorough, all byte values",
               "unwind": "10-24 per harness (memcmp/extend loops); unwinding assertions on"},
    "stubs": [],
    "assumptions": ["NaN excluded from the order/equality law (NaN has no value order); NaN keys only required to differ from number keys",
                    "strings restricted to ASCII bytes so every symbolic array is valid UTF-8"],
    "outside_claim": ["strings/blobs longer than the stated lengths", "List/Map keys (encode to a bare tag by design)"],
}

PROPS["C27"]["level_text"] = (
    "Bounded model checking (Kani/CBMC) of the real encode_ordered_value / encode_index_key: for every pair of values of one "
    "kind (all i64/f64/bool bit patterns; strings and blobs up to the stated lengths with symbolic bytes) the solver shows "
    "a<b iff enc(a)<enc(b), a=b iff enc(a)=enc(b), and prefix-freeness; cross-kind tags are ordered and distinct. A pass is "
    "a bounded result for those lengths only.")
PROPS["C27"]["level_note"] = (
    "Trusted: Kani's MIR->GOTO translation, CBMC, CaDiCaL, Rust std models (Vec, memcmp). Assumed: NaN excluded from the order "
    "law; strings are ASCII (valid UTF-8) so String values can be built from symbolic bytes.")
PROPS["C27"]["design_ref"] = "DESIGN.md section 3, C27"

NOT_APPLICABLE = {
    "C03": "Quantifies over thread interleavings of GraphEngine publication steps; Kani/CBMC-for-Rust has no thread model and the engine (Arc/RwLock/HashMap/file I/O) cannot be encoded; a hand-sequentialised model would not be the real code.",
    "C06": "Read path is Arc<Vec<Arc<L0Run>>> + BTreeMap/HashSet overlay iterators; heap containers with symbolic contents did not terminate under Kani and there is no small kernel to cut out.",
    "C07": "The behaviour is architectural (WriteTxn::set_vector touches the live HNSW index); observing 'no trace' needs engine + HNSW + reopen, none encodable within reach.",
    "C08": "Needs I/O faults injected through WriteTxn::commit (WAL, idmap, pager, publication): Kani cannot hold the function (HashMap memtable, io::Error); path-wise MIR execution of its 531 blocks did not finish in 15 min.",
    "C09": "Lost updates arise from a schedule between db.snapshot() and begin_write() across threads; no thread model in the available solvers' front ends, and the C API path includes parser+planner+executor.",
    "C10": "About OS-level exclusion between handles/processes; there is no locking code to encode and no process model in the tools.",
    "C11": "Requires parser -> planner -> streaming executor -> evaluator on symbolic graphs/queries; one evaluator call already exceeds 3000 s / 13 GB under Kani.",
    "C12": "Same reach problem for the write executor (write_orchestration, MERGE overlay) plus WriteableGraph over the engine.",
    "C13": "Statement atomicity inside explicit C-API transactions is a whole-stack behaviour (FFI, prepare, execute_mixed, shared txn buffer); no kernel captures it.",
    "C16": "Arbitrary query text = strings/heap through lexer+parser (symbolic lengths time out); stack exhaustion and wall-clock timeouts are not modelled by CBMC at all.",
    "C24": "Read-your-writes inside an explicit transaction is decided by which snapshot execute_write_in_txn plans against: whole-stack, FFI, engine.",
    "C29": "File copies, JSON manifests, uuid/chrono and concurrent writers; no arithmetic or framing kernel, no thread/file model.",
    "C31": "HNSW over B-tree-backed stores with f32 sqrt/powi and RNG levels; float sqrt support and the heap-heavy graph search make it unreachable for CBMC.",
    "C34": "JSON/C-string FFI conversion and statement classification over parsed ASTs (strings + heap); nothing bounded and integer-like to encode.",
    "C35": "Deadlock freedom is a property of lock acquisition orders across threads; Kani has no concurrency support, and lock-order extraction is static analysis outside this technique family.",
}
