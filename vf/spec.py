"""Per-property specification: which harness files / E2 targets decide which obligations, plus the claim text
that is echoed into the evidence file (functions encoded, bounds, stubs, assumptions, what is outside)."""

# harness file (relative to /verif) -> (crate, module path of the kani_harness module inside the crate)
HARNESS_FILES = {
    "kani/api/lib.rs": ("nervusdb-api", "kani_harness"),
    "kani/storage/ordered_key.rs": ("nervusdb-storage", "index::ordered_key::kani_harness"),
    "kani/storage/idmap.rs": ("nervusdb-storage", "idmap::kani_harness"),
    "kani/storage/csr.rs": ("nervusdb-storage", "csr::kani_harness"),
    "kani/storage/btree.rs": ("nervusdb-storage", "index::btree::kani_harness"),
    "kani/storage/wal.rs": ("nervusdb-storage", "wal::kani_harness"),
    "kani/storage/pager.rs": ("nervusdb-storage", "pager::kani_harness"),
    "kani/storage/vacuum.rs": ("nervusdb-storage", "vacuum::kani_harness"),
    "kani/storage/bulkload.rs": ("nervusdb-storage", "bulkload::kani_harness"),
    "kani/query/evaluator.rs": ("nervusdb-query", "evaluator::kani_harness"),
    "kani/query/core_types.rs": ("nervusdb-query", "executor::core_types::kani_harness"),
    "kani/query/query_api.rs": ("nervusdb-query", "query_api::kani_harness"),
    "kani/query/plan_mid.rs": ("nervusdb-query", "executor::plan_mid::kani_harness"),
}

# Harness time-outs per tier (seconds). Quick harnesses were registered with >= 3x head-room.
TIMEOUT = {"q": 900, "t": 2400, "a": 900}

PROPS = {}

PROPS["C27"] = {
    "title": "Index key encoding preserves order and equality",
    "kani": [("kani/storage/ordered_key.rs", r"^c27_")],
    "e2": [],
    "functions_encoded": ["nervusdb_storage::index::ordered_key::encode_ordered_value",
                          "nervusdb_storage::index::ordered_key::encode_index_key"],
    "bounds": {"ints/floats/datetimes/bools": "all bit patterns (2^128 pairs per harness)",
               "strings": "lengths (0..2)x(0..2) quick, up to 3x3 thorough (4x4 attempted), bytes < 0x80 symbolic incl. 0x00",
               "blobs": "lengths up to 2x2 quick, 3x3 thorough, all byte values",
               "unwind": "10-24 per harness (memcmp/extend loops); unwinding assertions on"},
    "stubs": [],
    "assumptions": ["NaN excluded from the order/equality law (NaN has no value order); NaN keys only required to differ from number keys",
                    "strings restricted to ASCII bytes so every symbolic array is valid UTF-8"],
    "outside_claim": ["strings/blobs longer than the stated lengths", "List/Map keys (encode to a bare tag by design)"],
}

PROPS["C27"]["level_text"] = (
    "Bounded model checking (Kani/CBMC) of the real encode_ordered_value / encode_index_key: for every pair of values of one "
    "kind (all i64/f64/bool bit patterns; strings and blobs up to the stated lengths with symbolic bytes) the solver shows "
    "a<b iff enc(a)<enc(b), a=b iff enc(a)=enc(b), and prefix-freeness; cross-kind tags are ordered and distinct. A pass is "
    "a bounded result for those lengths only.")
PROPS["C27"]["level_note"] = (
    "Trusted: Kani's MIR->GOTO translation, CBMC, CaDiCaL, Rust std models (Vec, memcmp). Assumed: NaN excluded from the order "
    "law; strings are ASCII (valid UTF-8) so String values can be built from symbolic bytes.")
PROPS["C27"]["design_ref"] = "DESIGN.md section 3, C27"

NOT_APPLICABLE = {
    "C03": "Quantifies over thread interleavings of GraphEngine publication steps; Kani/CBMC-for-Rust has no thread model and the engine (Arc/RwLock/HashMap/file I/O) cannot be encoded; a hand-sequentialised model would not be the real code.",
    "C06": "Read path is Arc<Vec<Arc<L0Run>>> + BTreeMap/HashSet overlay iterators; heap containers with symbolic contents did not terminate under Kani and there is no small kernel to cut out.",
    "C07": "The behaviour is architectural (WriteTxn::set_vector touches the live HNSW index); observing 'no trace' needs engine + HNSW + reopen, none encodable within reach.",
    "C09": "Lost updates arise from a schedule between db.snapshot() and begin_write() across threads; no thread model in the available solvers' front ends, and the C API path includes parser+planner+executor.",
    "C10": "About OS-level exclusion between handles/processes; there is no locking code to encode and no process model in the tools.",
    "C11": "Requires parser -> planner -> streaming executor -> evaluator on symbolic graphs/queries; one evaluator call already exceeds 3000 s / 13 GB under Kani.",
    "C12": "Same reach problem for the write executor (write_orchestration, MERGE overlay) plus WriteableGraph over the engine.",
    "C13": "Statement atomicity inside explicit C-API transactions is a whole-stack behaviour (FFI, prepare, execute_mixed, shared txn buffer); no kernel captures it.",
    "C16": "Arbitrary query text = strings/heap through lexer+parser (symbolic lengths time out); stack exhaustion and wall-clock timeouts are not modelled by CBMC at all.",
    "C24": "Read-your-writes inside an explicit transaction is decided by which snapshot execute_write_in_txn plans against: whole-stack, FFI, engine.",
    "C29": "File copies, JSON manifests, uuid/chrono and concurrent writers; no arithmetic or framing kernel, no thread/file model.",
    "C31": "HNSW over B-tree-backed stores with f32 sqrt/powi and RNG levels; float sqrt support and the heap-heavy graph search make it unreachable for CBMC.",
    "C34": "JSON/C-string FFI conversion and statement classification over parsed ASTs (strings + heap); nothing bounded and integer-like to encode.",
    "C35": "Deadlock freedom is a property of lock acquisition orders across threads; Kani has no concurrency support, and lock-order extraction is static analysis outside this technique family.",
}

_Q = "kani/query/evaluator.rs"
PROPS["C20"] = {
    "title": "ORDER BY sorts and SKIP/LIMIT slice it",
    "kani": [(_Q, r"^c20_")],
    "e2": ["c20", "c20b", "skip"],
    "functions_encoded": ["nervusdb_query::evaluator::order_compare", "evaluator_compare::order_compare_non_null",
                          "evaluator_compare::compare_f64_with_nan", "evaluator_compare::value_order_rank",
                          "plan_tail::evaluate_row_window_expression", "plan_tail::execute_skip", "plan_tail::execute_limit"],
    "bounds": {"values": "all i64 / f64 (incl. NaN, +-inf, +-0, subnormals) / bool / DateTime bit patterns per shape triple",
               "shapes": "kind triples over {Int, Float, NaN, Bool, DateTime, Null} listed in coverage.samples"},
    "stubs": [],
    "assumptions": ["slice::sort_by (stable merge sort) and Iterator::skip/take are trusted std"],
    "outside_claim": ["strings (compare_strings_with_temporal parses with chrono), lists, maps, paths, nodes/relationships",
                      "multi-key ORDER BY loop, DESC reversal"],
    "level_text": "Bounded model checking (Kani/CBMC) of the real comparator behind ORDER BY: for every listed kind triple and all "
                  "payload bit patterns, order_compare is reflexive, antisymmetric, transitive, Equal is an equivalence, kinds are "
                  "ranked as documented, NaN sorts above numbers, Null last, and Int vs Float follows the exact numeric order. "
                  "Plus path-wise symbolic execution (z3) of the SKIP/LIMIT window: the window size is exactly the evaluated non-negative "
                  "integer (no clamping/wrap), anything else is an error, execute_limit passes exactly that number to Iterator::take, and "
                  "execute_skip drops exactly the first n rows of a row stream (streams of <= 4 items, symbolic n; the adaptor's filter "
                  "closure is executed symbolically with its captured counter). Partial: comparator laws on scalar kinds and window arithmetic, "
                  "not the whole ORDER BY pipeline.",
    "level_note": "Trusted: Kani/CBMC/CaDiCaL, std sort. Strings, collections and graph values are outside the claim.",
    "design_ref": "DESIGN.md section 3, C20",
}
PROPS["C23"] = {
    "title": "Expression evaluation obeys Cypher laws",
    "kani": [(_Q, r"^c23_")],
    "e2": ["c23"],
    "functions_encoded": ["evaluator_equality::cypher_equals", "evaluator_compare::compare_values",
                          "evaluator_compare::compare_numbers_for_range", "evaluator_arithmetic::{add,subtract,multiply,divide}_values",
                          "evaluator_numeric::{numeric_binop,numeric_div,numeric_mod}",
                          "evaluator::evaluate_expression_value (And / Or / Xor / Not arms, entered arm-locally)"],
    "bounds": {"values": "all i64 / f64 / bool bit patterns per shape", "shapes": "see coverage.samples",
               "logic": "all 9 (3 for NOT) rows of each truth table over {true, false, null}",
               "multiplication": "quick: one factor 16-bit; thorough: full 64x64",
               "division/remainder": "divisor in {0,-1,1} with a full-range dividend; both operands symbolic on 8 bit (quick) / "
               "16 bit (thorough); full-width symbolic dividers attempted only (64/128-bit dividers do not finish in CBMC)"},
    "stubs": [],
    "assumptions": ["NaN excluded from the equivalence laws (as in the property)"],
    "outside_claim": ["strings, lists, maps, temporal/duration arithmetic, powf, unary minus, float rounding",
                      "non-boolean operands of AND/OR/XOR/NOT (the code maps them to null)"],
    "level_text": "Bounded model checking (Kani/CBMC) of the real equality, comparison and arithmetic kernels: = is reflexive, "
                  "symmetric, transitive on non-NaN scalars incl. Int/Float mixes over the full 64-bit ranges; <,<=,>,>= agree with "
                  "= , with each other and with the ORDER BY order; null propagates; + - * follow one overflow rule (exact Int if it "
                  "fits, else Float), x/0 and x%0 are null, MIN/-1 and MIN%-1 do not panic; plus path-wise symbolic execution (z3) of "
                  "the AND/OR/XOR/NOT arms of the evaluator against Kleene's truth tables (De Morgan follows from the tables). "
                  "Partial: scalar kernels only.",
    "level_note": "Trusted: Kani/CBMC/CaDiCaL incl. its IEEE-754 float model. Strings/collections/temporal values outside.",
    "design_ref": "DESIGN.md section 3, C23",
}
PROPS["C15"] = {
    "title": "Indexes never change query results",
    "kani": [(_Q, r"^c15_")],
    "e2": ["c15", "commit"],
    "functions_encoded": ["evaluator_equality::cypher_equals", "nervusdb_storage::index::ordered_key::encode_ordered_value",
                          "executor::index_seek_plan::execute_index_seek", "engine::WriteTxn::commit (index maintenance phase)",
                          "query_api::match_compile::compile_pattern_chain (start-plan arms, entered at the clone of the element's labels)",
                          "query_api::match_compile::apply_label_filters_for_alias"],
    "bounds": {"values": "all i64 / f64 (non-NaN) / bool pairs", "shapes": "(Int,Int) (Float,Float) (Bool,Bool) (Int,Float)",
               "planner": "first pattern node with 0..3 labels (symbolic ids; thorough: also 4, 5, 6, 8), with/without an input plan, source bound as node / relationship / unbound, "
                          "first relationship bound or not, pushed-down predicate map absent / empty / non-empty",
               "index maintenance": "one property change per transaction: SET on an existing node, SET on a node created by the transaction, REMOVE; "
                                    "primary label present/absent, index present/absent, old value present/absent; all ids symbolic; "
                                    "O6: one node delete / one label addition / one SET on a node whose indexed label is its second label"},
    "stubs": ["index maintenance: BTree::{load, insert, delete, root} are recorders (each mutation yields a fresh symbolic root), encode_ordered_value = "
              "4 bytes of the value id, IndexCatalog::{get, flush}, snapshot.node_label / node_property, LabelInterner::get_name, format! = symbolic ids"],
    "assumptions": ["index lookup = prefix match on enc(value) (prefix-freeness is C27)"],
    "outside_claim": ["back-fill of an index created after the data, label changes of indexed nodes, B-tree contents (C26), planner's choice of IndexSeek",
                      "strings (C27 covers key order; Cypher string equality is byte equality)"],
    "level_text": "Bounded model checking (Kani/CBMC) that the index lookup key agrees with Cypher equality on scalars: "
                  "cypher_equals(a,b)=true iff enc(a)=enc(b), over all 64-bit payloads; plus path-wise symbolic execution (z3) of "
                  "execute_index_seek: the seek value reaches the index lookup kind-for-kind and bit-for-bit, unsupported kinds and a "
                  "missing/empty index answer run the fallback scan plan, a non-empty answer is emitted alone and sorted; and of the index "
                  "maintenance phase of WriteTxn::commit: the old key (index id + encoded old value, node id) is deleted, the new key inserted, "
                  "nothing is touched without a label/index, and the catalog ends up pointing at the tree's current root and is flushed; and of the four "
                  "start-plan arms of compile_pattern_chain: on every path the start plan (NodeScan / IndexSeek / joined input) sits under a label "
                  "filter built from the complete label list of the pattern node, first label included, and apply_label_filters_for_alias (real body, 0..3 labels) "
                  "returns Filter(plan, AND of `alias IS NULL OR alias:label` for every label handed in), so a stale index entry of a node that lost "
                  "the label cannot change the rows. O6 demands that a node delete, a label addition and a "
                  "property write under a non-first label reach the index B-tree: commit performs no index operation for them (three known "
                  "findings, each replayed natively with `witness index-diff`). Partial; "
                  "the Int-vs-Float disagreement (1 = 1.0 but different keys) is a recorded known finding.",
    "level_note": "Trusted: Kani/CBMC/CaDiCaL, rustc MIR dump, E2 translator and recorder models, z3.",
    "design_ref": "DESIGN.md section 3, C15",
}
PROPS["C21"] = {
    "title": "Aggregates agree with their definitions",
    "kani": [("kani/query/core_types.rs", r"^c21_")],
    "e2": ["c21", "grouping"],
    "functions_encoded": ["<executor::core_types::Value as Hash>::hash", "derived <Value as PartialEq>::eq",
                          "projection_sort::execute_aggregate::{closure#1} (Sum arm, entered arm-locally)",
                          "projection_sort::execute_aggregate (collection loop, entry to the first statement after the loop)"],
    "bounds": {"values": "all payload bit patterns for Int, Float (incl. NaN, +-0), Bool, DateTime, NodeId pairs", "unwind": 34},
    "stubs": ["Hasher = transparent byte collector (32 bytes), so equal hash means equal byte stream fed to any hasher",
              "grouping loop: input = stream of 3 (4 thorough) Ok rows, grouping key of a row = symbolic id, limit checks -> Ok, maps as association "
              "lists forking on key equality, a BuildHasher as an uninterpreted function of the key id"],
    "assumptions": [],
    "outside_claim": ["avg/min/max/collect/percentiles, DISTINCT variants, strings/lists/maps as grouping keys",
                      "SumDistinct arm (same code shape, not entered arm-locally), float rounding of sums"],
    "level_text": "Bounded model checking (Kani/CBMC) of the grouping-key contract (keys equal under == feed identical bytes to the "
                  "hasher: one group per distinct key) and path-wise symbolic execution (z3) of the Sum arm of the aggregate closure "
                  "over <= 2 (quick) / 3 (thorough) rows of symbolic kind: a sum of Ints is the exact sum or a Float, never a wrapped "
                  "Int; and of the collection loop: two rows share a group exactly when their grouping keys are equal, every row is in "
                  "exactly one group. Partial: grouping and sum arithmetic only.",
    "level_note": "Trusted: Kani/CBMC/CaDiCaL; HashMap itself (std) is trusted given a consistent Hash/Eq.",
    "design_ref": "DESIGN.md section 3, C21",
}
PROPS["C33"] = {
    "title": "Execution limits fail cleanly",
    "kani": [("kani/query/query_api.rs", r"^c33_"), ("kani/query/plan_mid.rs", r"^c33_")],
    "e2": ["iters", "rangelen"],
    "functions_encoded": ["Params::check_collection_size", "Params::check_apply_rows_per_outer", "Params::note_emitted_row",
                          "executor::plan_mid::estimate_range_len"],
    "bounds": {"limits/observed": "all usize values", "range": "exact length for |start|,|end|<1000, |step|<50; unit steps and "
               "panic-freedom on the full i64 range; E2: start/end over ALL i64 with the step enumerated over +-2^k (8 exponents quick, all 63 "
               "thorough) and i64::MIN - the estimate is exact when the span fits i64 and never below half of the exact length", "soft_timeout_ms": "0 (Instant not reached)"},
    "stubs": [],
    "assumptions": ["std Mutex is uncontended (single thread)"],
    "outside_claim": ["which operators call the checks, time-limit behaviour, bounded extra work after the error",
                      "range steps that are not +-2^k on the full bound range (128-bit division by an odd constant does not finish in z3)"],
    "level_text": "Bounded model checking (Kani/CBMC) of the limit arithmetic: a resource-limit error is returned iff the observed "
                  "count exceeds the effective limit, the default-only relaxations apply only to the named stages under default "
                  "configuration, the row counter saturates; estimate_range_len is exact on the stated ranges; by MIR symbolic execution "
                  "(z3) over all i64 bounds it is exact whenever the span fits i64 and never below half of the exact length (so a range "
                  "far above the collection limit can not pass the guard). Partial.",
    "level_note": "Trusted: Kani/CBMC/CaDiCaL. Guard placement in operators is decided separately (E2 O3) or outside.",
    "design_ref": "DESIGN.md section 3, C33",
}

PROPS["C25"] = {
    "title": "Value and log encodings round-trip safely",
    "kani": [("kani/api/lib.rs", r"^c25_"), ("kani/storage/wal.rs", r"^c25_"),
             # decode_body on untrusted bytes, variable-length record kinds (shared with C17-O4)
             ("kani/storage/wal.rs", r"^c17_o4_[qta]_ty(9|11|12|13|14|15)_")],
    "e2": [],
    "functions_encoded": ["nervusdb_api::PropertyValue::encode", "PropertyValue::decode", "PropertyValue::decode_recursive",
                          "nervusdb_storage::wal::WalRecord::encode_body", "WalRecord::decode_body"],
    "bounds": {"round trips": "Null, Bool, Int, Float (all 2^64 bit patterns incl. NaN payloads, -0.0), DateTime; String/Blob of "
               "0,1,2 bytes (4 thorough); empty List/Map; List of 1 Int thorough; List [Int,Bool] attempted",
               "decode inputs": "tag byte concrete 0..8, 9, 255; input length 0..10 (15 for list-of-one); embedded length/count field "
               "in {0,1,2,3,2^31,2^32-1}; all other bytes symbolic", "unwind": "12-24"},
    "stubs": ["O3 only: Vec::with_capacity replaced by a monitor asserting capacity <= input length (returns Vec::new())"],
    "assumptions": ["strings are ASCII so symbolic bytes form valid UTF-8"],
    "outside_claim": ["payloads longer than the stated sizes, nesting depth > 2 (stack exhaustion is not modelled by CBMC)",
                      "PageWrite record contents"],
    "level_text": "Bounded model checking (Kani/CBMC) of the real PropertyValue and WAL record codecs: decode(encode(v)) == v "
                  "bit-exactly for the listed shapes; decode of any byte string of the listed lengths returns Ok/Err without "
                  "panicking, slice overflow or arithmetic overflow; every Vec::with_capacity request is bounded by the input length.",
    "level_note": "Trusted: Kani/CBMC/CaDiCaL and its std models. Bounded sizes as stated; larger inputs are outside the claim.",
    "design_ref": "DESIGN.md section 3, C25",
}
PROPS["C18"] = {
    "title": "Growing one structure never corrupts another",
    "kani": [("kani/storage/idmap.rs", r"^c18_"), ("kani/storage/pager.rs", r"^c18_")],
    "e2": ["idmap", "pager", "blob"],
    "functions_encoded": ["nervusdb_storage::idmap::i2e_location", "pager::Bitmap::{new,get_bit,set_bit,find_free_in_range}",
                          "E2: pager::Pager::{allocate_page, ensure_allocated, free_page, read_page, write_page, validate_data_page_id, "
                          "flush_meta_and_bitmap}, idmap::write_i2e_record"],
    "bounds": {"node ids": "all ids < 2^32, table start page in [2, 65536)", "bitmap": "real 8 KiB bitmap; symbolic 4-byte window "
               "for set/get/find (bits 0..31), any single bit index < 65536 for set/get on a fresh bitmap", "unwind": "4-36"},
    "stubs": ["E2 pager targets: File::{metadata,set_len,sync_data}, read_page_raw/write_page_raw replaced by an in-memory page store; "
              "Meta::encode_page opaque; Range<u64>::find runs the real predicate closure per element"],
    "assumptions": ["E2 allocator step: pre-state = any bitmap over pages 0..15 with pages 0,1 reserved, no page >= next_page_id marked, "
                    "2 <= next_page_id <= 12 (the invariant Pager::open and every step re-establish; the step check re-proves it)",
                    "the node table owns exactly the one page apply_create_node_multi_label obtains from allocate_page (read from the code; "
                    "E2 obligation O2 decides the call structure)"],
    "outside_claim": ["blob chains, CSR pages, catalog/B-tree pages (they all allocate through allocate_page = O3)",
                      "multi-step allocation histories beyond two steps (one inductive step from any valid state + two-in-a-row)",
                      "pages >= 16 in the E2 allocator step (the Kani bitmap harnesses cover any single bit < 65536)"],
    "level_text": "Bounded model checking (Kani/CBMC) of node-table addressing and the allocator bitmap: records lie inside one page "
                  "and never overlap; set/get touch exactly one bit. MIR symbolic execution (z3) of the real Pager::allocate_page / "
                  "free_page from any valid allocator state: the page handed out was free, is >= 2, gets marked, no other bit changes, "
                  "two allocations never coincide; and of the real write_i2e_record against a neighbouring structure's page. The record "
                  "page must be the page the allocator gave to the node table: holds for ids < 512, fails for ids >= 512 (recorded "
                  "known finding: node records spill into pages owned by other structures).",
    "level_note": "Trusted: Kani/CBMC/CaDiCaL. One inductive step per kernel; page ownership of other structures follows from the "
                  "allocator obligations, not from running histories.",
    "design_ref": "DESIGN.md section 3, C18",
}
_CSR_BOUNDS = {"segments": "edge-free shape (exactly as both builders emit it), one edge, two edges with the same source (attempt)",
               "ids": "all u32 node ids / rel type ids", "unwind": "4-8"}
PROPS["C05"] = {
    "title": "Compaction and checkpoint are invisible",
    "kani": [("kani/storage/csr.rs", r"^c05_")],
    "e2": [],
    "functions_encoded": ["nervusdb_storage::csr::CsrSegment::neighbors", "CsrSegment::incoming_neighbors", "CsrSegment::persist (reverse-index construction)"],
    "bounds": _CSR_BOUNDS,
    "stubs": ["thorough persist harnesses: csr::write_blob_pages, Pager::allocate_page, Pager::write_page replaced by no-op successes; "
              "the Pager reference is never dereferenced"],
    "assumptions": [],
    "outside_claim": ["tombstones lost when runs are cleared, property sinking, overwrite across compactions, anything needing GraphEngine",
                      "segments with more than 2 edges"],
    "level_text": "Bounded model checking (Kani/CBMC) of the read kernels over compacted segments: for the segment shapes compaction "
                  "produces with <= 1 edge (2 attempted), neighbors()/incoming_neighbors() never panic for any node id and return "
                  "exactly the stored edges. Partial: segment read kernels only.",
    "level_note": "Trusted: Kani/CBMC/CaDiCaL. Segment shapes are transcribed from build_segment_from_runs (HashSet-based, not runnable under Kani).",
    "design_ref": "DESIGN.md section 3, C05",
}
PROPS["C30"] = dict(PROPS["C05"])
PROPS["C30"].update({
    "title": "Bulk load equals transactional load",
    "level_text": "Bounded model checking (Kani/CBMC): the segment shapes BulkLoader::build_segments emits (edge-free; one edge) satisfy "
                  "the same read-kernel obligations as compacted segments (no panic on any node id, incoming/outgoing exactly the "
                  "stored edges after persist); plus path-wise symbolic execution (z3) of the list construction in build_segments: "
                  "every one of 1..3 (thorough: ..6) input relationships (symbolic, possibly coinciding endpoints and types) reaches the segment builder, i.e. "
                  "parallel relationships stay a multiset as on the transactional path. Partial and thin.",
    "outside_claim": ["labels, properties, statistics, WAL manifest, query equality between bulk-loaded and transactional databases",
                      "build_segments after the sort (grouping into offsets): covered only through the segment shapes above"],
    "design_ref": "DESIGN.md section 3, C30",
})
# C05-O2 (E2): what compaction keeps vs what reads return (added after the copy above so that C30 does not inherit it)
PROPS["C05"] = dict(PROPS["C05"])
PROPS["C05"]["e2"] = ["neighbors", "csr"]
PROPS["C30"]["e2"] = ["csr", "bulk"]
for _p in ("C05", "C30"):
    PROPS[_p]["functions_encoded"] = PROPS[_p]["functions_encoded"] + ["E2: csr::CsrSegment::{persist (reverse index), neighbors, incoming_neighbors} + closures "
                                                                       "on segments of <= 3 sources / <= 4 relationships"]
    PROPS[_p]["bounds"] = dict(PROPS[_p]["bounds"])
    PROPS[_p]["bounds"]["E2 segment shapes"] = ("<= 3 consecutive sources, <= 4 relationships, destinations min_dst+{0,1,2}; 9 layouts quick / up to 150 thorough; "
                                                "min_src, min_dst (1 <= x < 2^32-16) and all relationship types symbolic; every node id in and next to the id "
                                                "ranges queried with and without a symbolic relationship-type filter")
    PROPS[_p]["stubs"] = PROPS[_p]["stubs"] + ["E2: encode_offsets/encode_edges/write_blob_pages/encode_meta/Pager::{allocate_page,write_page} -> success; "
                                               "sort_by_key -> every stable permutation consistent with the symbolic keys; lazy filter/map adaptors are "
                                               "evaluated by running the real closures element by element"]
    PROPS[_p]["level_text"] = PROPS[_p]["level_text"] + (" E2 (MIR symbolic execution, z3): after the real persist builds the reverse index, the real "
                                                          "neighbors / incoming_neighbors return exactly the stored relationships of every queried node "
                                                          "(none outside the id ranges, never a panic) for every listed layout and all symbolic ids.")
PROPS["C05"]["functions_encoded"] = PROPS["C05"]["functions_encoded"] + ["engine::build_segment_from_runs (filter loop up to the sort call)",
                                                                         "read_path_iters::NeighborsIter::next + helpers (reference for the differential)"]
PROPS["C05"]["bounds"] = dict(PROPS["C05"]["bounds"])
PROPS["C05"]["bounds"]["compaction vs reads"] = ("2 runs (newest first), per run <= 1 tombstoned node, <= 1 tombstoned relationship, <= 1 relationship of one "
                                                 "source node; all ids symbolic u32; 5 run shapes quick / all 64 thorough")
PROPS["C05"]["stubs"] = PROPS["C05"]["stubs"] + ["E2: HashSet as a finite list of symbolic elements, L0Run as (tombstoned nodes, tombstoned relationships, "
                                                 "relationships); slice::sort = identity (the target stops right after it)"]
PROPS["C05"]["outside_claim"] = ["property sinking, overwrite across compactions, the layout half of build_segment_from_runs (offset table), anything needing "
                                 "GraphEngine", "segments with more than 2 edges (Kani read kernels)", "more than 2 runs in the compaction differential"]
PROPS["C05"]["level_text"] = (PROPS["C05"]["level_text"].replace(" Partial: segment read kernels only.", "") +
                              " Plus a differential decided by MIR symbolic execution (z3): for every symbolic 2-run snapshot the relationships the real "
                              "build_segment_from_runs keeps are exactly the relationships the real NeighborsIter returns before compaction. Partial: "
                              "relationship visibility and segment read kernels; properties are outside.")
PROPS["C04"] = {
    "title": "Reopen preserves logical content",
    "kani": [("kani/storage/idmap.rs", r"^c04_")],
    "e2": ["idmap", "closecp"],
    "functions_encoded": ["nervusdb_storage::idmap::I2eRecord::{encode,decode}", "IdMap::apply_create_node_multi_label",
                          "engine::GraphEngine::checkpoint_on_close"],
    "bounds": {"record": "all external ids, label ids, flags", "labels": "label vectors of 1, 2 (quick) and 3 (thorough) symbolic ids, incl. duplicates"},
    "stubs": ["E2: HashMap contains/insert, slice sort (sorting network over symbolic ids), Vec::dedup (forks over equalities), Pager setters -> Ok, "
              "write_i2e_record -> Ok and records its arguments"],
    "assumptions": ["IdMap::load rebuilds a node's label list as vec![record.label_id] (read from the code)",
                    "callers never pass an empty label vector (the executor passes UNLABELED_LABEL_ID)"],
    "outside_claim": ["WAL record order inside a commit, the content of the close snapshot beyond its transaction-id bookkeeping, label interner "
                      "replay, properties, relationships"],
    "level_text": "Bounded model checking (Kani/CBMC) of node-table persistence: the persisted node record round-trips bit-exactly; "
                  "(E2) the label list written at node creation equals the list rebuilt by IdMap::load; (E2) the Checkpoint record written by "
                  "checkpoint_on_close covers exactly the transaction ids handed out before the close (never the snapshot's own id or a later "
                  "one, for every 64-bit counter value), and nothing is rewritten while unflushed runs exist. Partial: node-table persistence "
                  "and close bookkeeping only.",
    "level_note": "Trusted: Kani/CBMC/CaDiCaL.",
    "design_ref": "DESIGN.md section 3, C04",
}

PROPS["C26"] = {
    "title": "The on-disk B-tree behaves as a sorted multimap",
    "kani": [("kani/storage/btree.rs", r"^c26_")],
    "e2": ["btree"],
    "functions_encoded": ["index::btree::Page::{leaf_lower_bound,leaf_insert_at,delete_from_leaf,internal_child_for_key,rebuild_leaf,"
                          "rebuild_internal,leaf_cell_key_and_payload,internal_cell_key_and_right_child}", "BTree::delete",
                          "write_varint_u32/read_varint_u32/varint_u32_len"],
    "bounds": {"pages": "real 8 KiB page buffers", "layouts": "concrete 1-byte keys over {1,2,3,4,7}, <= 4 cells per leaf, two-level tree "
               "with one separator", "probe": "symbolic 1-byte target key, symbolic u64 payloads", "varint": "all u32", "unwind": "7-8"},
    "stubs": ["BTree::delete harnesses: Pager::read_page / Pager::write_page replaced by a one-page in-memory store; Pager never dereferenced"],
    "assumptions": ["split shape = BTree::insert's split (left = e[..mid], right = e[mid..], separator = right[0].key), transcribed from the code"],
    "outside_claim": ["leaf/internal splits through BTree::insert (need ~700 entries per 8 KiB page), trees deeper than two levels, keys longer than 1 byte, "
                      "the real Pager (replaced by an in-memory page store model)"],
    "level_text": "Path-wise symbolic execution (z3) of the real B-tree code on a symbolic 8 KiB page image with every helper inlined: "
                  "lower bound, insert at the lower bound, delete of a cell and the descent after a split over SYMBOLIC keys and payloads; "
                  "BTree::delete with std's binary search driven by the real comparator closure; and BTree::insert of 2 (quick) / 3 (thorough) "
                  "symbolic pairs in arbitrary order followed by a full cursor scan (sorted, complete, newest first among equal keys). "
                  "The Kani page harnesses (concrete key layouts) remain in the thorough tier. "
                  "Bounded model checking (Kani/CBMC) of the real B-tree page kernels on real page buffers: lower bound, insert at the "
                  "lower bound (newest first among equal keys), delete of one cell, varint round trip, descent after a split, and "
                  "BTree::delete on a single leaf. Partial: single-page and two-level kernels. Two recorded known findings: descent goes "
                  "right of a separator whose equal keys remain in the left leaf; delete's (key,payload) binary search misses pairs "
                  "when equal keys were inserted with increasing payloads.",
    "level_note": "Trusted: Kani/CBMC/CaDiCaL. Key layouts are concrete; only the probe key/payloads are symbolic.",
    "design_ref": "DESIGN.md section 3, C26",
}

PROPS["C22"] = {
    "title": "Runtime errors are never swallowed",
    "kani": [],
    "e2": ["c22", "iters", "orderby", "skip"],
    "functions_encoded": ["executor::plan_tail::execute_distinct::{closure#0}", "execute_union::{closure#0}",
                          "plan_iterators::FilterIter::next", "runtime_limits::RuntimeGuardIter::next",
                          "plan_mid::execute_order_by", "execute_order_by::{closure#0}", "plan_tail::execute_skip + its filter closure"],
    "bounds": {"input": "one item of the input stream, variant (Ok row / Err) symbolic; SKIP: every Ok/Err pattern of <= 4 items, window size symbolic", "models": "row key construction opaque; "
               "HashSet::insert forks into {new key, seen key}"},
    "stubs": ["Row::columns / iter / map / collect / join: opaque values (the key's content does not matter to the obligation)",
              "HashSet::insert: both outcomes explored"],
    "assumptions": ["Iterator::filter keeps an item iff the closure returns true (std)", "Iterator::skip(n) discards the first n items (std)"],
    "outside_claim": ["errors the evaluator itself maps to Null", "operators other than those listed in coverage.samples"],
    "level_text": "Path-wise symbolic execution (z3) of the MIR of the DISTINCT and UNION filter closures: on every feasible path an Err "
                  "input item is forwarded (closure returns true) and an Ok row is kept iff its key is new; SKIP never drops an error item "
                  "wherever it falls relative to the window. Counterexamples are replayed "
                  "through the public API (plain query raises, DISTINCT/UNION must raise too).",
    "level_note": "Trusted: rustc's MIR dump (nightly), the translator in /verif/vf/e2 (unknown MIR => inconclusive), z3, std Iterator::filter.",
    "design_ref": "DESIGN.md section 3, C22",
}
PROPS["C17"] = {
    "title": "Any log tail is tolerated on open",
    "kani": [("kani/storage/wal.rs", r"^c17_")],
    "e2": ["c17", "c02"],
    "functions_encoded": ["wal::WalReader::next_record", "wal::Wal::append", "wal::WalRecord::decode_body", "wal::Wal::replay_committed_from_path"],
    "bounds": {"tail": "one record at the tail: length field, checksum field, body availability and checksum outcome symbolic",
               "decode_body": "record type byte concrete (all 17 + unknown), body lengths around each type's size thresholds, embedded "
               "length/count fields in {0,1,2,3,2^31,2^32-1}, all other bytes symbolic", "offset": "read offset <= 2^48"},
    "stubs": ["try_read_u32 -> Some(fresh u32) | EOF | I/O fault; read_exact -> Ok | short read | I/O fault; crc32 -> uninterpreted u32; "
              "decode_body -> Ok | Err (its panic-freedom is decided separately by Kani)"],
    "assumptions": ["an I/O fault reported by the operating system may fail open (environment failure is outside the property)"],
    "outside_claim": ["bit flips inside earlier records, filesystem reordering, PageWrite bodies (8 KiB) beyond the length check"],
    "level_text": "Path-wise symbolic execution (z3) of WalReader::next_record and Wal::append over every tail shape, plus Kani/CBMC "
                  "panic-freedom of decode_body per record type: no path may fail open without an I/O fault; Ok(Some) advances the offset "
                  "by exactly 8+len; a new record must be written where recovery will look for it. Three recorded known findings "
                  "(oversized length field, checksummed-but-undecodable tail such as zero fill, append behind a garbage tail).",
    "level_note": "Trusted: rustc MIR dump, the E2 translator and its callee models (listed under stubs), z3, Kani/CBMC. Counterexamples are "
                  "replayed by writing the concrete tail bytes after a committed log and calling Db::open.",
    "design_ref": "DESIGN.md section 3, C17",
}
PROPS["C01"] = {
    "title": "Acknowledged commits survive crashes",
    "kani": [("kani/storage/wal.rs", r"^c25_o4_q_rt_")],
    "e2": ["c17"],
    "functions_encoded": ["wal::Wal::append", "wal::WalRecord::{encode_body,decode_body}"],
    "bounds": {"append": "file length and last valid offset symbolic (<= 2^48)", "records": "fixed-size record variants, all field values"},
    "stubs": ["file metadata/seek/write modelled as a position counter"],
    "assumptions": [],
    "outside_claim": ["page-store durability, fsync and I/O order of compaction and close, multi-round crash histories, engine-level recovery"],
    "level_text": "Partial (log layer only): path-wise symbolic execution (z3) of Wal::append — an acknowledged record must be written "
                  "where recovery reads next — and Kani/CBMC round trips of the fixed-size log records. Known finding: append position "
                  "after a tolerated garbage tail.",
    "level_note": "Trusted: rustc MIR dump, E2 translator and models, z3, Kani/CBMC. Whole-engine crash histories are outside this technique's reach here.",
    "design_ref": "DESIGN.md section 3, C01",
}

PROPS["C02"] = {
    "title": "Crash recovery yields a committed prefix",
    "kani": [],
    "e2": ["c02"],
    "functions_encoded": ["wal::Wal::replay_committed_from_path"],
    "bounds": {"records": "every record-kind sequence of <= 4 records (quick) / <= 6 (thorough) over {BeginTx(t), CommitTx(t), other op, end "
               "of log, I/O fault}, txids symbolic in 1..3", "loop": "unrolled nrec+1 times; longer logs are cut and reported as paths_cut_by_bound"},
    "stubs": ["WalReader::next_record -> the five outcomes above (its own behaviour on byte-level tails is C17)", "WalReader::open -> Ok | I/O fault",
              "Vec / Option / mem::take modelled structurally"],
    "assumptions": ["record-granular view of the log (byte-granular cuts inside a record are C17-O1/O2)"],
    "outside_claim": ["node-table/page updates after the log commit, compaction, power loss (unsynced bytes), index pages written before the commit record",
                      "engine-level replay (scan_recovery_state / replay_graph_transactions)"],
    "level_text": "Partial (log bracketing): path-wise symbolic execution (z3) of Wal::replay_committed_from_path against a reference "
                  "bracket parser on the same symbolic record sequence: the returned list is exactly the completely bracketed transactions "
                  "in log order with their own ops, an unfinished bracket never leaks ops, well-bracketed logs never fail.",
    "level_note": "Trusted: rustc MIR dump, E2 translator and container models, z3. Oracle: the bracket parser in vf/e2/targets/c02.py.",
    "design_ref": "DESIGN.md section 3, C02",
}

PROPS["C08"] = {
    "title": "Failed commits are all-or-nothing",
    "kani": [],
    "e2": ["commit"],
    "functions_encoded": ["engine::WriteTxn::commit"],
    "bounds": {"transaction": "one created node with an extra label plus one indexed property SET on an existing node (every phase of commit is active); ids symbolic",
               "faults": "exactly one failure, at any of: each log append (BeginTx ... CommitTx), the log fsync, the index-catalog flush, each node-table update"},
    "stubs": ["Wal::append / Wal::fsync / IndexCatalog::flush / IdMap::apply_* succeed or fail (forked); BTree::{load, insert, delete, root}, publish_run, "
              "update_published_node_labels, next_txid are event recorders; snapshot / label / catalog lookups return symbolic ids"],
    "assumptions": ["an I/O failure surfaces as Err from the failing call (no partial writes inside one call)"],
    "outside_claim": ["what is on disk after the failure and after reopen (torn log tails are C17, replay is C01/C02)", "failures inside compaction and close",
                      "a partially applied node table (reachable only through internal lookups by external id; no query observes it)",
                      "set_len / page-write failures inside the B-tree and node-table kernels (they are recorders here)"],
    "level_text": "Partial (in-process visibility after a failed commit): path-wise symbolic execution of the real WriteTxn::commit with a single I/O "
                  "failure injected at every log / index-catalog / node-table step: whenever commit reports an error nothing is published "
                  "(run, labels, transaction id). Known finding: the index B-tree is rewritten before the CommitTx record is written and synced, "
                  "so a commit that fails at the log leaves its index entries visible to index lookups of the running process.",
    "level_note": "Trusted: rustc MIR dump, E2 translator and recorder models. The control flow of commit is concrete once the recorders are in place: "
                  "the verdict is the executor's exhaustive path enumeration (queries: 0-2), replayed natively with an fdatasync fault shim.",
    "design_ref": "DESIGN.md section 7.6 (C08)",
}

PROPS["C32"] = {
    "title": "Node identities are unique and allocation never fails",
    "kani": [],
    "e2": ["c32", "idmap"],
    "functions_encoded": ["executor::create_delete_ops::execute_create_from_rows (external-id expression, entered arm-locally at Utc::now())",
                          "idmap::IdMap::load + read_i2e_record + i2e_location + I2eRecord::decode (identity table rebuilt on open)"],
    "bounds": {"evaluations": "two evaluations of the id expression; counters < 2^31, clock readings in [0, 2^62) ns",
               "scenarios": "same statement / monotone clock; two statements / monotone clock; one statement / clock stepping back"},
    "stubs": ["Utc::now() + timestamp_nanos_opt() = fresh symbolic i64 (the symbolic clock), or None (out-of-range clock)"],
    "assumptions": ["ids are compared as u64 values; create_node rejects a duplicate external id (read from IdMap::apply_create_node_multi_label)"],
    "outside_claim": ["internal id density, identity stability across compaction/reopen, MERGE/bulk-load id sources"],
    "level_text": "Partial: path-wise symbolic execution (z3) of the id expression with the clock as a symbolic variable: within one "
                  "statement and a monotone clock ids strictly increase (holds); across statements, or with a clock that steps back, "
                  "two nodes can get the same id (recorded known finding, replayed natively under a scripted wall clock).",
    "level_note": "Trusted: rustc MIR dump, E2 translator, z3; the LD_PRELOAD clock shim used for replay replaces only CLOCK_REALTIME.",
    "design_ref": "DESIGN.md section 3, C32",
}

PROPS["C19"] = {
    "title": "WHERE partitions rows by truth value",
    "kani": [],
    "e2": ["iters", "pushdown", "c23"],
    "functions_encoded": ["plan_iterators::FilterIter::next", "evaluator::evaluate_expression_bool",
                          "query_api::match_compile::extend_predicates_from_properties"],
    "bounds": {"stream": "every input prefix of <= 3 items (quick) / 5 (thorough), each item Ok(row) | Err | end of stream",
               "predicate": "evaluator result modelled as a fresh Value: Bool(b) with symbolic b, Null, Int, String",
               "push-down map": "2 inline properties (3 thorough) with symbolic key/value ids; map before the call empty / same variable / other variable / both"},
    "stubs": ["push-down: BTreeMap as an association list with symbolic string ids, entry/insert/or_insert_with fork on key equality; "
              "inner Iterator::next -> symbolic stream; ensure_runtime_expression_compatible -> Ok | Err; evaluate_expression_bool -> true | other "
              "(its own body is decided separately: true iff the value is exactly Bool(true))"],
    "assumptions": ["the three queries (p, NOT p, p IS NULL) evaluate p deterministically on the same row"],
    "outside_claim": ["how the planner consumes the push-down map (index seeks, label filters), OPTIONAL MATCH fix-up, the truth tables of NOT / IS NULL "
                      "themselves"],
    "level_text": "Partial: path-wise symbolic execution (z3) of the filter operator kernel over a symbolic input stream: a row "
                  "is emitted iff it is the next Ok row whose predicate value is exactly Bool(true); Err items and compatibility errors are "
                  "forwarded; no row is emitted twice, reordered or skipped for another reason; None only at end of input. And of the push-down "
                  "map construction: every inline pattern property ends up in the pushed-down predicate set of its variable whatever the map "
                  "held before (a WHERE equality on the same key never displaces it), other entries are untouched. And of the AND / OR / NOT arms "
                  "of the evaluator with operands of any kind (Bool, Null, non-boolean): the result is always true, false or null.",
    "level_note": "Trusted: rustc MIR dump, E2 translator, stream and map models, z3.",
    "design_ref": "DESIGN.md section 3, C19",
}

PROPS["C14"] = {
    "title": "No dangling relationships",
    "kani": [],
    "e2": ["c14", "neighbors"],
    "functions_encoded": ["executor::create_delete_ops::ensure_non_detach_delete_safety",
                          "storage read_path_iters::{NeighborsIter, IncomingNeighborsIter}::{next, apply_pending_tombstones, load_run, load_segment}, "
                          "read_path_neighbors::edge_blocked_{outgoing,incoming}"],
    "bounds": {"nodes to delete": "<= 1 (quick) / 2 (thorough)", "attached relationships": "<= 1 (quick) / 2 (thorough) outgoing and as many incoming per node",
               "explicit set membership": "symbolic per relationship", "detach flag": "symbolic",
               "traversal iterators": "2 runs (newest first) + 1 compacted segment; per run <= 1 tombstoned node, <= 1 tombstoned relationship, <= 1 "
                                      "relationship of the traversed node; all ids symbolic u32; 5 run shapes quick / all 64 thorough; rel filter None"},
    "stubs": ["snapshot.neighbors / incoming_neighbors -> symbolic relationship streams; HashSet modelled as an insertion-ordered list; "
              "HashSet::contains -> both outcomes",
              "traversal iterators: HashSet as a finite list of symbolic elements (contains = disjunction of equalities), L0Run / CsrSegment as "
              "(tombstoned nodes, tombstoned relationships, relationships of the traversed node); load_*_run_edges / load_*_segment_edges "
              "append those lists"],
    "assumptions": ["the check is a function of the snapshot it is given", "run.edges_for_src/dst and segment.neighbors return exactly the stored "
                    "relationships of the node (C05/C30 decide the segment side)"],
    "outside_claim": ["the snapshot consulted is the pre-statement one: relationships created earlier in the same statement/transaction are invisible "
                      "to this check (not encodable here)", "hiding a relationship whose end node is tombstoned in the SAME run", "more than 2 runs / 1 segment"],
    "level_text": "Partial: path-wise symbolic execution (z3) of the non-DETACH delete safety kernel: for every combination of "
                  "attached outgoing/incoming relationships and explicit-delete membership, the delete is refused iff some attached "
                  "relationship is not deleted too; DETACH is always accepted; every attached relationship is checked. And of the two storage "
                  "traversal iterators on a symbolic snapshot (2 runs + 1 segment): a relationship is never returned when a newer run "
                  "tombstones one of its end nodes or the relationship itself, and every relationship that nothing hides is returned.",
    "level_note": "Trusted: rustc MIR dump, E2 translator and iterator/set models, z3.",
    "design_ref": "DESIGN.md section 3, C14",
}

PROPS["C01"]["e2"] = ["c17", "c01"]
PROPS["C01"]["functions_encoded"] += ["engine::scan_recovery_state"]
PROPS["C01"]["bounds"]["recovery scan"] = ("committed sequences of <= 2 transactions with <= 2 ops each (quick), plus 3 transactions with <= 1 op each (thorough; 3 x 2 = 30 000 paths does not fit) over {graph op, "
                                          "ManifestSwitch(epoch 0..3), Checkpoint(up_to 0..8, epoch 0..3)}, txids 1..8 symbolic")
PROPS["C01"]["level_text"] = (
    "Partial (log layer and recovery bookkeeping): path-wise symbolic execution (z3) of Wal::append (an acknowledged record must be "
    "written where recovery reads next) and of engine::scan_recovery_state (replay skips a committed transaction only if a Checkpoint "
    "for the final manifest covers it; the final manifest is the latest ManifestSwitch with the greatest epoch; max_txid bounds every "
    "txid), plus Kani/CBMC round trips of the fixed-size log records. Known finding: append position after a tolerated garbage tail.")

PROPS["C28"] = {
    "title": "Vacuum preserves the database",
    "kani": [],
    "e2": ["c28", "c01", "pager"],
    "functions_encoded": ["csr::encode_meta", "vacuum::mark_csr_segment_pages", "vacuum::scan_wal_roots", "pager::Pager::write_vacuum_copy"],
    "bounds": {"segment meta": "blob page-id lists of (1,1,1,1), (1,0,0,0) (quick) and (2,2,1,2) (thorough) entries, page ids symbolic in [2, 65536); "
               "all other header fields symbolic", "image": "8192-byte page as 8-bit terms at concrete positions",
               "WAL roots": "committed sequences of 2 transactions x 2 records (plus 3 x 1 thorough) over {graph op, ManifestSwitch(epoch 0..3), Checkpoint(epoch 0..3)}",
               "vacuum copy": "reachable = {0, 1} + 0 / 2 (3 thorough) symbolic strictly increasing data pages in [2, 15]"},
    "stubs": ["vacuum copy: File/OpenOptions = in-memory page store, Meta::encode_page opaque, BTreeSet iteration = the sorted list; "
              "Cursor::write_all / to_le_bytes / slice iteration (writer) and Pager::read_page / slice indexing / try_into / from_le_bytes / "
              "Range iteration / BTreeSet::insert (reader) modelled on the byte image"],
    "assumptions": ["page ids are non-zero (the reader skips zero ids by design)"],
    "outside_claim": ["catalog / B-tree / blob-chain traversal of vacuum, the rename protocol, usability after vacuum beyond the witness"],
    "level_text": "Partial (segment-layout agreement, root selection, allocator state of the copy): path-wise symbolic execution (z3) of the real CSR meta-page writer and of vacuum's "
                  "reader on the same symbolic byte image: vacuum accepts the page and marks every forward- and reverse-index page the "
                  "writer listed as reachable; vacuum's WAL scan chooses the latest ManifestSwitch with the greatest epoch and the roots "
                  "recovery would choose; the copy's bitmap marks exactly the live pages and its next_page_id lies above all of them. "
                  "Counterexamples of the layout obligation are replayed through compact() + vacuum() + reopen.",
    "level_note": "Trusted: rustc MIR dump, E2 translator and byte-image models, z3.",
    "design_ref": "DESIGN.md section 3, C28 and section 7",
}

PROPS["C01"]["e2"] = ["c17", "c01", "replay", "closecp", "commit"]
PROPS["C01"]["functions_encoded"] += ["engine::replay_graph_transactions", "engine::GraphEngine::checkpoint_on_close", "engine::WriteTxn::commit"]
PROPS["C01"]["bounds"]["commit"] = ("a transaction with one created node, one label addition, one label removal, one relationship, one node tombstone and one "
                                    "relationship tombstone (ids symbolic), no property changes; optionally a failure at any single log append or at the fsync")
PROPS["C01"]["stubs"] += ["commit: Wal::append / Wal::fsync / IdMap::apply_* / publish_run / update_published_node_labels / next_txid are event recorders "
                          "(append and fsync can fail in the fault target); MemTable property extraction returns empty lists, freeze_into_run a one-element run"]
PROPS["C01"]["outside_claim"] = PROPS["C01"].get("outside_claim", []) + ["the index-maintenance phase of commit (it runs before CommitTx is durable and is not logged)"]
PROPS["C01"]["stubs"] += ["checkpoint_on_close: locks, label snapshot, segment pointer list, root loads opaque; the atomics are symbolic 64-bit cells; "
                          "Wal::rewrite_as_snapshot records its arguments"]
PROPS["C01"]["bounds"]["replay"] = ("committed lists of 1 transaction x <= 2 records and 2 transactions x <= 1 record (quick), 3 x 1 (thorough; 2 x 2 exceeds 100 000 paths); every "
                                   "WalRecord kind is an alternative for every record; all field values and the checkpoint txid symbolic")
PROPS["C01"]["stubs"] += ["replay: every IdMap::apply_* / MemTable::* method is a recorder; IdMap::lookup -> None | Some; L0Run::is_empty -> both"]
PROPS["C01"]["level_text"] = PROPS["C01"]["level_text"].replace(
    "plus Kani/CBMC round trips",
    "and of engine::replay_graph_transactions (every record of every committed, not-checkpointed transaction is applied through the matching "
    "call with its own arguments, in log order; checkpointed transactions are skipped entirely; one run per applied transaction), and of "
    "GraphEngine::checkpoint_on_close (the Checkpoint it writes covers exactly the ids handed out before the close, so a transaction committed "
    "after reopen can never be skipped by a later recovery), and of WriteTxn::commit as a trace property (BeginTx first, one record per buffered change, "
    "CommitTx last, Wal::fsync after CommitTx and before anything is published or commit returns; a failed append/fsync publishes nothing), "
    "plus Kani/CBMC round trips")
PROPS["C02"]["e2"] = ["c02", "replay"]
PROPS["C02"]["functions_encoded"] += ["engine::replay_graph_transactions"]
PROPS["C02"]["level_text"] = PROPS["C02"]["level_text"].replace(
    "well-bracketed logs never fail.",
    "well-bracketed logs never fail; replay of the committed list applies whole transactions only (a transaction is skipped entirely iff it is "
    "checkpointed, otherwise all its records are applied in order).")

# 8 KiB page harnesses need 3-6 GB of CBMC memory each: run few at a time (62 GB machine, no swap)
PROPS["C26"]["jobs"] = 5
