#!/usr/bin/env python3-vt
"""Markdown summary of what is claimed per property (from vf/spec.py and the committed evidence of the last clean quick run)."""
import json
import os
import subprocess
import sys

sys.path.insert(0, os.path.dirname(os.path.dirname(os.path.abspath(__file__))))
from vf import spec  # noqa: E402

VERIF = os.path.dirname(os.path.dirname(os.path.abspath(__file__)))


def committed(path):
    r = subprocess.run(["git", "-C", VERIF, "show", "HEAD:" + path], capture_output=True, text=True)
    return json.loads(r.stdout) if r.returncode == 0 else None


print("| property | engines (quick tier) | obligations decided | pass | known findings | wall (s) |")
print("|---|---|---|---|---|---|")
for pid in sorted(spec.PROPS):
    ev = committed("evidence/%s.json" % pid) or {}
    samples = ev.get("coverage", {}).get("samples", [])
    eng = sorted({s["engine"] for s in samples})
    obl = sorted({s["obligation"] for s in samples})
    npass = sum(1 for s in samples if s["status"] == "pass")
    nkf = sum(1 for s in samples if s["status"] not in ("pass",))
    print("| %s %s | %s | %d checks over %s | %d | %d | %s |" % (pid, spec.PROPS[pid]["title"], ", ".join(eng), len(samples), "/".join(obl), npass, nkf, ev.get("wall_s", "?")))
