"""Shared paths and helpers for the /verif driver."""
import fcntl
import json
import os
import resource
import subprocess
import time

VERIF = os.path.dirname(os.path.dirname(os.path.abspath(__file__)))
REPO = os.environ.get("VERIF_REPO", "/repo")
BUILD = os.environ.get("VERIF_BUILD", os.path.join(VERIF, ".build"))   # VERIF_BUILD: separate caches for experiments on scratch worktrees
EVIDENCE = os.path.join(VERIF, "evidence")
REPLAYS = os.path.join(VERIF, "replays")
KNOWN_FINDINGS = os.path.join(VERIF, "known_findings.json")

NCPU = os.cpu_count() or 4


def env_offline():
    e = dict(os.environ)
    e["CARGO_NET_OFFLINE"] = "true"
    e.setdefault("CARGO_TERM_COLOR", "never")
    # never inherit a caller's target dir / toolchain override
    e.pop("CARGO_TARGET_DIR", None)
    e.pop("RUSTUP_TOOLCHAIN", None)
    e.pop("RUSTFLAGS", None)
    return e


def limit_as(gb):
    def f():
        lim = int(gb * (1 << 30))
        resource.setrlimit(resource.RLIMIT_AS, (lim, lim))
        resource.setrlimit(resource.RLIMIT_STACK, (resource.RLIM_INFINITY, resource.RLIM_INFINITY))
    return f


def run(cmd, cwd=None, timeout=None, env=None, mem_gb=None, log=None):
    """Run a command, return (rc, output, seconds). rc = None on timeout."""
    t0 = time.time()
    pre = limit_as(mem_gb) if mem_gb else None
    try:
        p = subprocess.run(cmd, cwd=cwd, env=env or env_offline(), stdout=subprocess.PIPE,
                           stderr=subprocess.STDOUT, timeout=timeout, preexec_fn=pre, text=True,
                           errors="replace")
        rc, out = p.returncode, p.stdout
    except subprocess.TimeoutExpired as e:
        rc, out = None, (e.stdout or "")
        if isinstance(out, bytes):
            out = out.decode(errors="replace")
    dt = time.time() - t0
    if log:
        os.makedirs(os.path.dirname(log), exist_ok=True)
        with open(log, "w") as f:
            f.write("$ " + " ".join(cmd) + "\n" + out)
    return rc, out, dt


class FileLock:
    def __init__(self, path):
        os.makedirs(os.path.dirname(path), exist_ok=True)
        self.path = path
        self.fd = None

    def __enter__(self):
        self.fd = open(self.path, "w")
        fcntl.flock(self.fd, fcntl.LOCK_EX)
        return self

    def __exit__(self, *a):
        fcntl.flock(self.fd, fcntl.LOCK_UN)
        self.fd.close()


def load_known_findings():
    if not os.path.exists(KNOWN_FINDINGS):
        return {"findings": [], "fixed": []}
    with open(KNOWN_FINDINGS) as f:
        return json.load(f)


def repo_head():
    rc, out, _ = run(["git", "-C", REPO, "rev-parse", "--short", "HEAD"])
    return out.strip() if rc == 0 else "?"


def repo_dirty_files():
    rc, out, _ = run(["git", "-C", REPO, "status", "--porcelain"])
    return [l[3:] for l in out.splitlines() if l.strip()] if rc == 0 else []
