"""Warm the build caches (best effort; failures are reported but do not fail setup)."""
import os
import sys
import time

from . import common as C
from . import kani_engine as K


def main():
    t0 = time.time()
    # witness crate (public-API replays)
    rc, out, dt = C.run(["cargo", "build", "--offline", "--target-dir", os.path.join(C.BUILD, "witness")],
                        cwd=os.path.join(C.VERIF, "witness"), timeout=1800)
    print("witness build rc=%s %.0fs" % (rc, dt), flush=True)
    # Kani builds: --only-codegen compiles the crate and its dependencies with the Kani compiler
    for crate, d in K.CRATE_DIR.items():
        cmd = ["cargo", "kani", "-p", crate, "-Z", "stubbing", "-Z", "unstable-options", "--only-codegen",
               "--target-dir", os.path.join(C.BUILD, d)]
        rc, out, dt = C.run(cmd, cwd=C.REPO, timeout=3600, log=os.path.join(C.BUILD, "logs", "setup-%s.log" % d))
        print("kani codegen %s rc=%s %.0fs" % (crate, rc, dt), flush=True)
    try:
        from .e2 import mirdump
        for crate in mirdump.CRATES:
            p, dt = mirdump.dump(crate, force=True)
            print("mir dump %s -> %s %.0fs" % (crate, p, dt), flush=True)
    except Exception as e:  # noqa: BLE001
        print("mir dump skipped: %r" % (e,), flush=True)
    print("setup done in %.0fs" % (time.time() - t0))


if __name__ == "__main__":
    main()
