"""E1: run Kani proof harnesses that are compiled inside /repo's crates (cfg(kani) hooks) and classify results.

The deciding step is CBMC/CaDiCaL over the GOTO program Kani compiles from /repo's current working tree.
"""
import os
import re
import shutil
import time

from . import common as C

HARNESS_RE = re.compile(r"(?:\bfn\s+|!\(\s*)(c\d\d_o\d+_[qta]_\w+)")
CHECK_RE = re.compile(
    r"^Check \d+: (?P<name>.*?)\n\t - Status: (?P<status>\w+)\n\t - Description: \"(?P<desc>.*?)\"\n\t - Location: (?P<loc>.*?)$",
    re.M | re.S)

# CBMC check classes that are not Rust failures (DESIGN.md section 1): float NaN propagation notices.
IGNORED_CLASSES = {"NaN"}

CRATE_DIR = {"nervusdb-api": "kani-api", "nervusdb-storage": "kani-storage", "nervusdb-query": "kani-query"}


def discover(harness_file):
    """Names of harnesses defined in a harness source file, in file order (deduplicated)."""
    path = os.path.join(C.VERIF, harness_file)
    with open(path) as f:
        src = f.read()
    # drop line comments so commented-out harnesses are not picked up
    src = re.sub(r"//[^\n]*", "", src)
    seen, out = set(), []
    for m in HARNESS_RE.finditer(src):
        n = m.group(1)
        if n not in seen:
            seen.add(n)
            out.append(n)
    return out


def tier_of(name):
    return name.split("_")[2]


def obligation_of(name):
    return name.split("_")[1].upper()


def parse_result_file(path):
    with open(path, errors="replace") as f:
        txt = f.read()
    res = {"checks": 0, "failed": [], "undetermined": 0, "unwind_failed": [], "covers_sat": 0, "covers_total": 0,
           "unsat_covers": [], "verdict": None, "time_s": None, "ignored_failed": []}
    for m in CHECK_RE.finditer(txt):
        name, status, desc, loc = m.group("name"), m.group("status"), m.group("desc").strip('"'), m.group("loc")
        parts = name.rsplit(".", 2)
        cls = parts[-2] if len(parts) >= 3 else "?"
        res["checks"] += 1
        if cls == "cover":
            res["covers_total"] += 1
            if status == "SATISFIED":
                res["covers_sat"] += 1
            else:
                res["unsat_covers"].append(desc)
            continue
        if status == "FAILURE":
            if cls in IGNORED_CLASSES:
                res["ignored_failed"].append(desc)
            elif cls == "unwind" or "unwinding assertion" in desc:
                res["unwind_failed"].append(desc + " @ " + loc.split(" in function ")[-1])
            else:
                fn = loc.split(" in function ")[-1] if " in function " in loc else loc
                res["failed"].append({"desc": desc, "class": cls, "function": fn, "loc": loc.split(" in function ")[0]})
        elif status == "UNDETERMINED":
            res["undetermined"] += 1
    m = re.search(r"VERIFICATION:- (\w+)", txt)
    res["verdict"] = m.group(1) if m else None
    m = re.search(r"Verification Time: ([0-9.]+)s", txt)
    res["time_s"] = float(m.group(1)) if m else None
    if "CBMC timed out" in txt or "timed out" in txt.split("SUMMARY:")[-1]:
        res["timed_out"] = True
    return res


def classify(r):
    """pass / fail / inconclusive with a reason."""
    if r is None:
        return "inconclusive", "no result (timeout, crash or out of memory)"
    if r.get("timed_out"):
        return "inconclusive", "harness timeout"
    if r["verdict"] is None:
        return "inconclusive", "no verdict in result file"
    if r["failed"]:
        return "fail", "; ".join(sorted({f["desc"] for f in r["failed"]}))
    if r["unwind_failed"]:
        return "inconclusive", "unwinding assertion failed (bound too small): " + r["unwind_failed"][0]
    if r["undetermined"] and r["verdict"] != "SUCCESSFUL":
        return "inconclusive", "undetermined checks"
    if r["checks"] == 0:
        return "inconclusive", "no checks parsed"
    if r["covers_total"] == 0:
        return "inconclusive", "harness has no reachability witness (kani::cover!)"
    if r["covers_sat"] != r["covers_total"]:
        return "inconclusive", "vacuity guard: cover not satisfied: " + "; ".join(r["unsat_covers"])
    if r["verdict"] == "SUCCESSFUL" or (r["verdict"] == "FAILED" and r["ignored_failed"] and not r["failed"]):
        return "pass", ""
    return "inconclusive", "verdict %s without a classified failure" % r["verdict"]


def run_group(crate, module_harnesses, timeout_s, jobs, logname, mem_gb=48, extra=None):
    """Run the named harnesses of one crate in one `cargo kani` invocation (one build, parallel CBMC runs).

    module_harnesses: list of (module_path, harness_name). Returns {harness_name: (status, reason, parsed)}.
    """
    tdir = os.path.join(C.BUILD, CRATE_DIR[crate])
    os.makedirs(tdir, exist_ok=True)
    out = {}
    if not module_harnesses:
        return out, 0.0, ""
    with C.FileLock(os.path.join(C.BUILD, CRATE_DIR[crate] + ".lock")):
        rdir = os.path.join(tdir, "result_output_dir")
        shutil.rmtree(rdir, ignore_errors=True)
        cmd = ["cargo", "kani", "-p", crate, "-Z", "stubbing", "-Z", "unstable-options",
               "-j", str(jobs), "--output-format", "terse", "--output-into-files",
               "--harness-timeout", "%ds" % timeout_s, "--exact", "--target-dir", tdir]
        for mod, h in module_harnesses:
            cmd += ["--harness", "%s::%s" % (mod, h)]
        if extra:
            cmd += extra
        # overall cap: every harness could run back to back on one thread in the worst case; keep it finite
        waves = (len(module_harnesses) + jobs - 1) // jobs
        overall = 900 + timeout_s * waves + 120
        rc, log, dt = C.run(cmd, cwd=C.REPO, timeout=overall, mem_gb=mem_gb,
                            log=os.path.join(C.BUILD, "logs", logname + ".log"))
        build_failed = ("error: could not compile" in log) or ("error[E" in log) or (
            rc not in (0, 1, None) and "Checking harness" not in log)
        for mod, h in module_harnesses:
            full = "%s::%s" % (mod, h)
            p = os.path.join(rdir, full)
            parsed = parse_result_file(p) if os.path.exists(p) else None
            status, reason = classify(parsed)
            if parsed is None:
                if build_failed:
                    reason = "build failed (harness or crate does not compile under Kani)"
                elif rc is None:
                    reason = "overall timeout"
                elif re.search(r"%s.*timed out|timed out.*%s" % (re.escape(h), re.escape(h)), log):
                    reason = "harness timeout (%ds)" % timeout_s
            out[h] = (status, reason, parsed)
    return out, dt, log


def concrete_playback_print(crate, module, harness, timeout_s=900):
    """Ask Kani for concrete values of every failing check of one harness (counterexample extraction)."""
    tdir = os.path.join(C.BUILD, CRATE_DIR[crate])
    with C.FileLock(os.path.join(C.BUILD, CRATE_DIR[crate] + ".lock")):
        cmd = ["cargo", "kani", "-p", crate, "-Z", "stubbing", "-Z", "unstable-options", "-Z", "concrete-playback",
               "--concrete-playback=print", "--exact", "--harness", "%s::%s" % (module, harness),
               "--harness-timeout", "%ds" % timeout_s, "--target-dir", tdir]
        rc, log, dt = C.run(cmd, cwd=C.REPO, timeout=timeout_s + 900, mem_gb=24,
                            log=os.path.join(C.BUILD, "logs", "playback-print-%s.log" % harness))
    tests = re.findall(r"```\n(/// Test generated for harness.*?)```", log, re.S)
    return tests, log


def native_playback(crate, harness_file, module, harness, tests, only_failed=True):
    """Execute the generated concrete-playback tests natively (real machine code of the same harness body).

    Kani only executes playback tests that are part of the crate, so the tests are appended to the harness
    source file under /verif/kani (never to /repo), run with `cargo kani playback`, and the file is restored.
    Returns (reproduced: bool|None, log).
    """
    path = os.path.join(C.VERIF, harness_file)
    with open(path) as f:
        orig = f.read()
    sel = [t for t in tests if ("Check for `cover`" not in t) or not only_failed]
    if not sel:
        return None, "no failing-check tests to replay"
    names = re.findall(r"fn (kani_concrete_playback_\w+)\(", "\n".join(sel))
    tdir = os.path.join(C.BUILD, "playback-" + CRATE_DIR[crate])
    try:
        with open(path, "w") as f:
            f.write(orig + "\n\n// ---- temporary concrete playback tests (removed after replay) ----\n" + "\n".join(sel))
        env = C.env_offline()
        env["CARGO_TARGET_DIR"] = tdir
        cmd = ["cargo", "kani", "playback", "-Z", "concrete-playback", "-p", crate, "--lib", "--", "kani_concrete_playback_" + harness]
        rc, log, dt = C.run(cmd, cwd=C.REPO, timeout=1800, env=env,
                            log=os.path.join(C.BUILD, "logs", "playback-run-%s.log" % harness))
    finally:
        with open(path, "w") as f:
            f.write(orig)
    failed = re.findall(r"test \S*(kani_concrete_playback_\w+) \.\.\. FAILED", log)
    ran = re.findall(r"test \S*(kani_concrete_playback_\w+) \.\.\. (?:FAILED|ok)", log)
    if not ran:
        return None, log
    return (len(failed) > 0), log
